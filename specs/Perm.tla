-------------------------------- MODULE Perm --------------------------------
(* C18: every HTTP endpoint and every inter-node command enforces its permission.      *)
(*                                                                                      *)
(* Table  = endpoint / command family -> required permissions (disjunction of           *)
(*          conjunctions, read off http/service.go and cluster/service.go handleConn),  *)
(*          whether performing it changes node/cluster state (eff), returns database    *)
(*          content (con), and whether the response has the shape "status header, then  *)
(*          an unframed body stream" (str: the inter-node BACKUP_STREAM command).       *)
(* Store  = credential store over {user u (password p), all-users entry *}; the         *)
(*          permissions of both range over the family's own permissions, its SIBLING     *)
(*          permissions (sib: the permissions closest to the required ones that must     *)
(*          NOT authorise the family -- join-read-only / join-read-replica for a voter   *)
(*          JOIN, join for a non-voter JOIN, query / load for execute, ...) and "all".   *)
(*          u holds every subset (each sibling alone and in every combination); the      *)
(*          all-users entry holds nothing, one permission, all siblings, or all required *)
(*          permissions (FullStar = TRUE: every subset as well).                         *)
(* Pres   = how credentials are presented: none, blank (empty user and password),        *)
(*          unknown user, wrong password, right password.                                *)
(* The authorisation rule and the decision procedure as coded are those of Auth.tla      *)
(* (C19).  One request is followed through the handler: decide -> (header) -> perform /  *)
(* stream / deny.                                                                        *)
(* Switches (TRUE / {} / FALSE = the design): Unchecked = set of families whose           *)
(* permission check is missing (Check[e] == e \notin Unchecked); MutEach = every case is   *)
(* run with the check of its OWN family missing (all per-family negative controls in one  *)
(* TLC run: the families in which a violation was reached are collected in TLC register 2 *)
(* and the post-condition demands all of them); NoBodyAfterError = a streaming handler     *)
(* stops after it has written an error header.                                            *)
EXTENDS Naturals, Sequences, FiniteSets, TLC, Json

CONSTANTS Unchecked, MutEach, NoBodyAfterError, Roles, FullStar

A == INSTANCE Auth WITH Users <- {"u", "*"}, Pws <- {"p", "q"}, Perms <- {"all"}, QPerms <- {"all"}, MaxLen <- 0,
                        FreshEntry <- TRUE, LastWins <- TRUE, AllUsersFirst <- TRUE, NeedUsername <- TRUE,
                        ExactPassword <- TRUE, PermOrAll <- TRUE, file <- <<>>

(* sibling permissions: for a required permission p, the permissions a careless handler is most *)
(* likely to accept in its place (same resource, other verb / other role)                        *)
SibOf(p) == CASE p = "execute"    -> {"query", "load"}
              [] p = "query"      -> {"execute", "load"}
              [] p = "backup"     -> {"load", "snapshot"}
              [] p = "load"       -> {"backup", "execute"}
              [] p = "snapshot"   -> {"backup", "load"}
              [] p = "remove"     -> {"join", "leader-ops"}
              [] p = "status"     -> {"ready", "ui"}
              [] p = "ready"      -> {"status"}
              [] p = "leader-ops" -> {"remove", "status"}
              [] p = "ui"         -> {"status"}
              [] p = "join"       -> {"join-read-only", "join-read-replica"}
              [] p = "join-read-only"    -> {"join"}
              [] p = "join-read-replica" -> {"join"}
              [] OTHER -> {}
Sibs(req) == (UNION {SibOf(p) : p \in UNION req}) \ (UNION req)
Row(f, req, eff, con, str) == [f |-> f, req |-> req, sib |-> Sibs(req), eff |-> eff, con |-> con, str |-> str]
One(p) == {{p}}
NoPerm == {{}}                      \* one empty conjunction: always authorised (no permission by design)

(* HTTP: for every path its action methods (eff/con as performed) and the other common  *)
(* methods (the handler checks the permission before the method, nothing is performed).  *)
HTTPTable == {
  Row("http:POST:/db/execute",        One("execute"), TRUE,  FALSE, FALSE),
  Row("http:POST:/db/execute?queue",  One("execute"), TRUE,  FALSE, FALSE),
  Row("http:GET:/db/execute",         One("execute"), FALSE, FALSE, FALSE),
  Row("http:PUT:/db/execute",         One("execute"), FALSE, FALSE, FALSE),
  Row("http:GET:/db/query",           One("query"),   FALSE, TRUE,  FALSE),
  Row("http:POST:/db/query",          One("query"),   FALSE, TRUE,  FALSE),
  Row("http:PUT:/db/query",           One("query"),   FALSE, FALSE, FALSE),
  Row("http:POST:/db/request",        {{"query", "execute"}}, TRUE, TRUE, FALSE),
  Row("http:GET:/db/request",         {{"query", "execute"}}, FALSE, FALSE, FALSE),
  Row("http:PUT:/db/request",         {{"query", "execute"}}, FALSE, FALSE, FALSE),
  Row("http:GET:/db/backup",          One("backup"),  FALSE, TRUE,  FALSE),
  Row("http:GET:/db/backup?fmt=sql",  One("backup"),  FALSE, TRUE,  FALSE),
  Row("http:POST:/db/backup",         One("backup"),  FALSE, FALSE, FALSE),
  Row("http:PUT:/db/backup",          One("backup"),  FALSE, FALSE, FALSE),
  Row("http:POST:/db/load",           One("load"),    TRUE,  FALSE, FALSE),
  Row("http:POST:/db/load#sqlite",    One("load"),    TRUE,  FALSE, FALSE),
  Row("http:GET:/db/load",            One("load"),    FALSE, FALSE, FALSE),
  Row("http:PUT:/db/load",            One("load"),    FALSE, FALSE, FALSE),
  Row("http:POST:/boot",              One("load"),    FALSE, FALSE, FALSE),   \* refused on a multi-node cluster after the check
  Row("http:GET:/boot",               One("load"),    FALSE, FALSE, FALSE),
  Row("http:POST:/snapshot",          One("snapshot"), TRUE, FALSE, FALSE),
  Row("http:GET:/snapshot",           One("snapshot"), FALSE, FALSE, FALSE),
  Row("http:PUT:/snapshot",           One("snapshot"), FALSE, FALSE, FALSE),
  Row("http:POST:/reap",              One("snapshot"), FALSE, FALSE, FALSE),
  Row("http:GET:/reap",               One("snapshot"), FALSE, FALSE, FALSE),
  Row("http:DELETE:/remove",          One("remove"),  TRUE,  FALSE, FALSE),
  Row("http:POST:/remove",            One("remove"),  FALSE, FALSE, FALSE),
  Row("http:GET:/remove",             One("remove"),  FALSE, FALSE, FALSE),
  Row("http:GET:/nodes",              One("status"),  FALSE, FALSE, FALSE),
  Row("http:POST:/nodes",             One("status"),  FALSE, FALSE, FALSE),
  Row("http:GET:/status",             One("status"),  FALSE, FALSE, FALSE),
  Row("http:POST:/status",            One("status"),  FALSE, FALSE, FALSE),
  Row("http:GET:/readyz",             One("ready"),   FALSE, FALSE, FALSE),
  Row("http:POST:/readyz",            One("ready"),   FALSE, FALSE, FALSE),
  Row("http:GET:/debug/vars",         One("status"),  FALSE, FALSE, FALSE),
  Row("http:POST:/debug/vars",        One("status"),  FALSE, FALSE, FALSE),
  Row("http:GET:/debug/pprof/cmdline", One("status"), FALSE, FALSE, FALSE),
  Row("http:GET:/debug/pprof/",       One("status"),  FALSE, FALSE, FALSE),
  Row("http:GET:/leader",             One("leader-ops"), FALSE, FALSE, FALSE),
  Row("http:POST:/leader",            One("leader-ops"), TRUE,  FALSE, FALSE),
  Row("http:PUT:/leader",             One("leader-ops"), FALSE, FALSE, FALSE),
  Row("http:GET:/db/sql",             One("query"),   FALSE, FALSE, FALSE),
  Row("http:POST:/db/sql",            One("query"),   FALSE, FALSE, FALSE),
  Row("http:PUT:/db/sql",             One("query"),   FALSE, FALSE, FALSE),
  Row("http:GET:/licenses",           One("status"),  FALSE, FALSE, FALSE),
  Row("http:POST:/licenses",          One("status"),  FALSE, FALSE, FALSE),
  Row("http:GET:/console/",           One("ui"),      FALSE, FALSE, FALSE),
  Row("http:POST:/console/",          One("ui"),      FALSE, FALSE, FALSE),
  Row("http:GET:/",                   NoPerm,         FALSE, FALSE, FALSE),   \* redirect to the console
  Row("http:OPTIONS:/db/query",       NoPerm,         FALSE, FALSE, FALSE),   \* CORS pre-flight
  Row("http:OPTIONS:/db/backup",      NoPerm,         FALSE, FALSE, FALSE),
  Row("http:GET:/nosuch",             NoPerm,         FALSE, FALSE, FALSE) }  \* 404

(* inter-node commands, cluster/service.go handleConn *)
CmdTable == {
  Row("cmd:GET_NODE_META",   NoPerm,          FALSE, FALSE, FALSE),      \* no permission by design
  Row("cmd:EXECUTE",         One("execute"),  TRUE,  FALSE, FALSE),
  Row("cmd:QUERY",           One("query"),    FALSE, TRUE,  FALSE),
  Row("cmd:REQUEST",         {{"query", "execute"}}, TRUE, TRUE, FALSE),
  Row("cmd:BACKUP",          One("backup"),   FALSE, TRUE,  FALSE),
  Row("cmd:BACKUP_STREAM",   One("backup"),   FALSE, TRUE,  TRUE),
  Row("cmd:LOAD",            One("load"),     TRUE,  FALSE, FALSE),
  Row("cmd:LOAD_CHUNK",      NoPerm,          FALSE, FALSE, FALSE),      \* answered "unsupported"
  Row("cmd:REMOVE_NODE",     One("remove"),   TRUE,  FALSE, FALSE),
  Row("cmd:NOTIFY",          One("join"),     FALSE, FALSE, FALSE),      \* a bootstrapped node ignores notifications
  Row("cmd:JOIN#voter",      One("join"),     TRUE,  FALSE, FALSE),
  Row("cmd:JOIN#nonvoter",   {{"join-read-only"}, {"join-read-replica"}}, TRUE, FALSE, FALSE),
  Row("cmd:STEPDOWN",        One("leader-ops"), TRUE, FALSE, FALSE),
  Row("cmd:HIGHWATER_MARK_UPDATE", NoPerm,    FALSE, FALSE, FALSE),      \* no permission by design
  Row("cmd:UNKNOWN",         NoPerm,          FALSE, FALSE, FALSE) }     \* type 0 / out of range: ignored

Table == HTTPTable \cup CmdTable
Fams  == {r.f : r \in Table}
PermFams == {r.f : r \in {x \in Table : x.req # NoPerm}}      \* families that require a permission

RP(r)  == (UNION r.req) \cup r.sib \cup {"all"}
StarSets(r) == IF FullStar THEN SUBSET RP(r)
               ELSE {{}} \cup {{p} : p \in RP(r)} \cup {r.sib} \cup {UNION r.req}
Pres   == {"none", "blank", "unknown", "wrongpw", "right"}

(* a case = table row + role of the addressed node + credential store + presentation *)
(* credential store of a case, in the loaded form of Auth.tla: user -> [pw, perms] *)
Store(c) == ("u" :> [pw |-> "p", perms |-> c.U]) @@
            (IF c.S = {} THEN <<>> ELSE ("*" :> [pw |-> "", perms |-> c.S]))
PUser(c) == CASE c.pres = "none" -> "" [] c.pres = "blank" -> "" [] c.pres = "unknown" -> "x" [] OTHER -> "u"
PPw(c)   == CASE c.pres = "none" -> "" [] c.pres = "blank" -> "" [] c.pres = "wrongpw" -> "q" [] OTHER -> "p"

(* the property's notion: authorised for the family's required permission(s) -- documented rule *)
Authorized(c) == \E alt \in c.req : \A p \in alt : A!Rule(Store(c), PUser(c), PPw(c), p)
(* what the handler computes: CheckRequestPerm / CheckRequestPermAll / checkCommandPerm(All) over AA as coded *)
CodeDecision(c) == \E alt \in c.req : \A p \in alt : A!AA(Store(c), PUser(c), PPw(c), p)

VARIABLES c, pc, authz, hdr, body, effect, outcome
vars == <<c, pc, authz, hdr, body, effect, outcome>>

Check(f) == f \notin Unchecked /\ ~MutEach

Init == /\ TLCSet(2, {})
        /\ \E r \in Table, ro \in Roles, p \in Pres :
             \E U \in SUBSET RP(r), S \in StarSets(r) :
                LET c0 == [f |-> r.f, req |-> r.req, sib |-> r.sib, eff |-> r.eff, con |-> r.con, str |-> r.str,
                           role |-> ro, U |-> U, S |-> S, pres |-> p]
                IN  c = [az |-> Authorized(c0)] @@ c0        \* az: the verdict of the documented rule, fixed per case
        /\ pc = "recv" /\ authz = FALSE /\ hdr = "none" /\ body = FALSE /\ effect = FALSE /\ outcome = "none"

Decide == /\ pc = "recv"
          /\ authz' = IF Check(c.f) THEN CodeDecision(c) ELSE TRUE
          /\ pc' = "decided"
          /\ UNCHANGED <<c, hdr, body, effect, outcome>>

(* ordinary handlers: the error response is the whole response *)
Perform == /\ pc = "decided" /\ ~c.str /\ authz
           /\ effect' = c.eff /\ body' = c.con
           /\ outcome' = "performed" /\ pc' = "done"
           /\ UNCHANGED <<c, authz, hdr>>
Deny    == /\ pc = "decided" /\ ~c.str /\ ~authz
           /\ outcome' = "denied" /\ pc' = "done"
           /\ UNCHANGED <<c, authz, hdr, body, effect>>

(* streaming handler: a framed status header first, then the unframed body on the same connection *)
Header  == /\ pc = "decided" /\ c.str
           /\ hdr' = IF authz THEN "ok" ELSE "err"
           /\ pc' = "header"
           /\ UNCHANGED <<c, authz, body, effect, outcome>>
Stream  == /\ pc = "header"
           /\ (NoBodyAfterError => hdr = "ok")
           /\ body' = c.con /\ effect' = c.eff
           /\ outcome' = IF hdr = "ok" THEN "performed" ELSE "denied"
           /\ pc' = "done"
           /\ UNCHANGED <<c, authz, hdr>>
Stop    == /\ pc = "header" /\ hdr = "err" /\ NoBodyAfterError
           /\ outcome' = "denied" /\ pc' = "done"
           /\ UNCHANGED <<c, authz, hdr, body, effect>>

Next == Decide \/ Perform \/ Deny \/ Header \/ Stream \/ Stop
Spec == Init /\ [][Next]_vars

(* ---- the property ---- *)
OnlyIfAuthorized    == outcome = "performed" => c.az
NoEffectUnlessAuth  == ~c.az => ~effect
NoContentUnlessAuth == ~c.az => ~body
DeniedClean         == outcome = "denied" => ~effect /\ ~body
AllowedPerforms     == (pc = "done" /\ c.az) => outcome = "performed"
Decided             == pc = "done" => outcome \in {"performed", "denied"}

(* ---- all per-family negative controls in one run (MutEach = TRUE, -workers 1) ---- *)
Collect    == (outcome = "performed" /\ ~c.az) => TLCSet(2, TLCGet(2) \cup {c.f})
AllCaught  == /\ PrintT(<<"@@NEG", Cardinality(TLCGet(2)), Cardinality(PermFams)>>)
              /\ TLCGet(2) = PermFams

(* ---- generator: one line per case with the expected verdict ---- *)
Emit == pc = "recv" => PrintT(<<"@@", ToJson([f |-> c.f, role |-> c.role, U |-> c.U, S |-> c.S, pres |-> c.pres,
                                               auth |-> c.az, eff |-> c.eff, con |-> c.con, req |-> c.req, sib |-> c.sib])>>)
GenStop == pc = "recv"      \* CONSTRAINT of the generator: do not expand beyond the initial states
=============================================================================
