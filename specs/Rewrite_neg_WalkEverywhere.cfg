SPECIFICATION Spec
CONSTANTS
  PrefilterComplete = TRUE
  ImplicitNow = TRUE
  FormatOnly = TRUE
  SkipOrderBy = TRUE
  LeaveStringsIdents = TRUE
  UntouchedIfNoSite = TRUE
  WalkEverywhere = FALSE
  OnePin = TRUE
  SiteIndependent = TRUE
  Tier = "neg"
INVARIANTS Complete
