SPECIFICATION Spec
CONSTANTS
  AfterTrivia = FALSE
  EveryStatement = TRUE
  CallSyntax = TRUE
  SchemaPrefix = TRUE
  QuotedName = TRUE
INVARIANTS NoBypass
