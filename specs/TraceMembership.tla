--------------------------- MODULE TraceMembership ---------------------------
(* Trace validation for C32 against Membership.tla.  The harness (harness/main/membership.go)   *)
(* performs ONE membership operation at a time on a live cluster (3 stable voters + spare real  *)
(* nodes on fixed ports) and writes one line per operation: the request, its result, and the    *)
(* Raft configuration reported by the leader's Nodes() afterwards (cfg: [[id, addr, suffrage]]).*)
(* Each line is judged with Membership's own operators from the configuration the previous      *)
(* line left: JoinOutcomes / JoinPartials (Store.Join against Raft's configuration rules),      *)
(* RaftNext / RaftOK (Store.Remove), NotifyStep (Store.Notify), ReapGuard (the reaper; hook     *)
(* events reap.check / reap.remove from Store.observe plus the harness' own clock).             *)
(* Every failed rule is recorded as <<line, name>> (register 2) and the model is re-aligned to  *)
(* the observed configuration, so one defect is reported once and the walk continues.           *)
(* Raft refusing a request is accepted only where Membership's environment refuses it.          *)
EXTENDS Membership, Integers

Trace == ndJsonDeserialize("trace.ndjson")
VARIABLES l, bad,
          tp,        \* parameters of the running scenario (reset line): expect, self, tv, tn (microseconds), multi (several real nodes notify each other)
          stops,     \* id -> harness clock (ms) just before the node's process was stopped
          chk        \* id -> dur (microseconds) of the latest reap.check for that id
tvars == <<vars, l, bad, tp, stops, chk>>
(* (the harness writes `gone` 300 ms after it saw the node leave, so the reaper's reap.remove precedes it) *)

Ev == Trace[l]
Is(e) == l <= Len(Trace) /\ Trace[l].ev = e
Step == l' = l + 1
Flag(b, cond, name) == IF cond THEN b ELSE b \cup {<<l, name>>}
CfgOf(seq) == {Srv(seq[k][1], seq[k][2], seq[k][3]) : k \in 1..Len(seq)}
NoMap == [x \in {} |-> 0]
Put(f, k, v) == [x \in DOMAIN f \cup {k} |-> IF x = k THEN v ELSE f[x]]

TInit == /\ Init /\ l = 1 /\ TLCSet(1, 0) /\ TLCSet(2, {}) /\ bad = {}
         /\ tp = [expect |-> 0, self |-> "", tv |-> 0, tn |-> 0, multi |-> FALSE]
         /\ stops = NoMap /\ chk = NoMap

Keep == UNCHANGED <<joins, down, since, reaped, nops, hist>>
KeepBoot == UNCHANGED <<raftBoot, notified, bootFlag, bootCalls>>
KeepT == UNCHANGED <<tp, stops, chk>>

(* the property itself, on what the cluster reports *)
Wellformed(b, seq) ==
  LET c == CfgOf(seq)
      b1 == Flag(b, Cardinality(c) = Len(seq) /\ UniqueIds(c), "duplicate-id-in-configuration")
      b2 == Flag(b1, UniqueAddrs(c), "duplicate-address-in-configuration")
  IN Flag(b2, Ev.agree, "nodes-disagree-on-configuration")

TReset == /\ Is("reset") /\ Step
          /\ config' = CfgOf(Ev.cfg) /\ raftBoot' = Ev.boot /\ notified' = {} /\ bootFlag' = FALSE /\ bootCalls' = 0
          /\ tp' = [expect |-> Ev.expect, self |-> Ev.self, tv |-> Ev.tv, tn |-> Ev.tn, multi |-> Ev.multi]
          /\ stops' = NoMap /\ chk' = NoMap
          /\ Keep /\ UNCHANGED bad
TNote == /\ Is("note") /\ Step /\ UNCHANGED <<vars, bad, tp, stops, chk>>

(* ---- Store.Join on the leader *)
RoleTag(c, i, a, voter) ==
  IF \E s \in c : s.id = i /\ s.addr = a
  THEN (IF Srv(i, a, Want(voter)) \in c THEN ":same-role" ELSE ":other-role") ELSE ""
TJoin ==
  /\ Is("join") /\ Step
  /\ LET obs == CfgOf(Ev.cfg)
         i == Ev.id
         a == Ev.addr
         outs == JoinOutcomes(config, i, a, Ev.voter)
         class == Rel(config, i, a) \o RoleTag(config, i, a, Ev.voter)
         b0 == Wellformed(bad, Ev.cfg)
         b1 == CASE Ev.res = "ok" ->
                      IF Srv(i, a, Want(Ev.voter)) \notin obs
                      THEN (IF \E s \in obs : s.id = i /\ s.addr = a
                            THEN Flag(b0, FALSE, "join-ok-but-role-unchanged:" \o class)
                            ELSE Flag(b0, FALSE, "join-ok-but-node-not-in-configuration:" \o class))
                      ELSE Flag(b0, \E o \in outs : o[1] = "ok" /\ o[3] = obs, "join-ok-but-configuration-differs:" \o class)
                [] Ev.res = "refused" ->
                      IF \E o \in outs : o[1] = "refused"
                      THEN Flag(b0, \E o \in outs : o[1] = "refused" /\ o[3] = obs, "join-refused-configuration-differs:" \o class)
                      ELSE Flag(b0, FALSE, "join-fails:" \o class)
                [] Ev.res = "notleader" ->
                      Flag(b0, obs \in JoinPartials(config, i, a, Ev.voter), "join-notleader-configuration-unexpected:" \o class)
                [] OTHER -> Flag(b0, FALSE, "join-fails-with-error:" \o class)
     IN bad' = b1 /\ config' = obs
  /\ Keep /\ KeepBoot /\ KeepT

(* ---- Store.Remove on the leader *)
TRemove ==
  /\ Is("remove") /\ Step
  /\ LET obs == CfgOf(Ev.cfg)
         nc == RaftNext(config, "remove", Ev.id, "")
         b0 == Wellformed(bad, Ev.cfg)
         b1 == CASE Ev.res = "ok" -> Flag(Flag(b0, RaftOK(nc), "remove-ok-but-raft-must-refuse"), obs = nc, "remove-ok-but-configuration-differs")
                [] Ev.res = "refused" -> Flag(Flag(b0, ~RaftOK(nc), "remove-fails"), obs = config, "remove-refused-configuration-differs")
                [] Ev.res = "notleader" -> Flag(b0, obs \in {config, nc}, "remove-notleader-configuration-unexpected")
                [] OTHER -> Flag(b0, FALSE, "remove-fails-with-error")
     IN bad' = b1 /\ config' = obs
  /\ Keep /\ KeepBoot /\ KeepT

(* ---- Store.Notify on a node that has no cluster yet.  hlb / hla: the node reported a leader  *)
(* just before / just after the call; a leader known before => nothing happens; unknown after   *)
(* => the node took the no-leader path; otherwise either.  A node that knows a leader may also   *)
(* have received the cluster's configuration from that leader (hla and a configuration that     *)
(* Notify itself cannot have produced): accepted as learned, it still has to be well-formed.    *)
TNotify ==
  /\ Is("notify") /\ Step
  /\ LET obs == CfgOf(Ev.cfg)
         n0 == NotifyStep(BootState, Ev.id, Ev.addr, FALSE, tp.expect, tp.self, TRUE)
         n1 == NotifyStep(BootState, Ev.id, Ev.addr, TRUE, tp.expect, tp.self, TRUE)
         n2 == NotifyStep(BootState, Ev.id, Ev.addr, FALSE, tp.expect, tp.self, FALSE)     \* only among several real nodes
         c0 == IF tp.multi THEN <<n0, n2>> ELSE <<n0>>
         cands == IF Ev.hlb THEN <<n1>> ELSE IF Ev.hla THEN c0 \o <<n1>> ELSE c0
         hit == {k \in 1..Len(cands) : cands[k].config = obs}
         learned == Ev.hla /\ obs # {} /\ hit = {}
         n == IF hit = {} THEN cands[1] ELSE cands[CHOOSE k \in hit : \A m \in hit : k <= m]
         b0 == Flag(bad, Ev.res = "ok", "notify-fails")
         b1 == Flag(b0, UniqueIds(obs) /\ Cardinality(obs) = Len(Ev.cfg), "duplicate-id-in-configuration")
         b2 == Flag(b1, UniqueAddrs(obs), "duplicate-address-in-configuration")
         b3 == Flag(b2, hit # {} \/ learned, IF Cardinality(obs) > Cardinality(config) /\ config # {} THEN "notify-bootstrapped-again"
                                  ELSE IF obs = config THEN "notify-did-not-bootstrap" ELSE "notify-configuration-differs")
     IN /\ bad' = b3 /\ config' = obs /\ raftBoot' = (n.raftBoot \/ obs # {}) /\ notified' = n.notified
        /\ bootFlag' = n.bootFlag /\ bootCalls' = n.bootCalls
  /\ Keep /\ KeepT

(* ---- reaping.  stop: the harness is about to stop the process of Ev.id (clock t, ms).        *)
TStop == /\ Is("stop") /\ Step /\ stops' = Put(stops, Ev.id, Ev.t) /\ down' = down \cup {Ev.id}
         /\ UNCHANGED <<config, raftBoot, notified, bootFlag, bootCalls, joins, since, reaped, nops, hist, bad, tp, chk>>
(* reap.check (hook in Store.observe): a failed-heartbeat observation, dur = time since last contact *)
TReapCheck == /\ Is("reap.check") /\ Step /\ chk' = Put(chk, Ev.id, Ev.dur)
              /\ UNCHANGED <<vars, bad, tp, stops>>
(* reap.remove (hook): the reaper removed Ev.id; judged with the role the node has in the configuration *)
TReapRemove ==
  /\ Is("reap.remove") /\ Step
  /\ IF Ev.ok /\ Ev.id \in Ids(config)
     THEN LET s == CHOOSE s \in Entry(config, Ev.id) : TRUE
              role == IF s.suff = "V" THEN "voter" ELSE "non-voter" IN
          /\ bad' = Flag(Flag(bad, Ev.id \in DOMAIN chk, "reaped-without-a-failed-heartbeat-observation:" \o role),
                         Ev.id \in DOMAIN chk => ReapGuard(s.suff, chk[Ev.id] + 1, tp.tv, tp.tn),
                         "reaped-before-timeout-of-its-role:" \o role)
          /\ config' = RaftNext(config, "remove", Ev.id, "")
          /\ reaped' = (reaped \/ ~(Ev.id \in DOMAIN chk /\ ReapGuard(s.suff, chk[Ev.id] + 1, tp.tv, tp.tn)))
     ELSE UNCHANGED <<bad, config, reaped>>
  /\ UNCHANGED <<raftBoot, notified, bootFlag, bootCalls, joins, down, since, nops, hist, tp, stops, chk>>
(* gone: the harness saw (clock t, ms) that Ev.id, role Ev.suff before, left the leader's configuration  *)
(* without any request.  Independent, deliberately coarse and one-sided rule on the harness' own clock:   *)
(* not before HALF the timeout of its role has passed since the harness began to stop the process (the   *)
(* exact rule is the reaper's own duration at reap.remove).                                               *)
TGone ==
  /\ Is("gone") /\ Step
  /\ LET role == IF Ev.suff = "V" THEN "voter" ELSE "non-voter"
         tmo == ReapTimeoutOf(Ev.suff, tp.tv, tp.tn) IN
     /\ bad' = Flag(Flag(bad, Ev.id \in DOMAIN stops, "unstopped-node-disappeared:" \o role),
                    Ev.id \in DOMAIN stops => (tmo > 0 /\ (Ev.t - stops[Ev.id]) * 2000 >= tmo),
                    IF tmo = 0 THEN "reaped-although-reaping-disabled-for-role:" \o role
                    ELSE "reaped-before-timeout-of-its-role(wall-clock):" \o role)
     /\ config' = CfgOf(Ev.cfg)
  /\ UNCHANGED <<raftBoot, notified, bootFlag, bootCalls, joins, down, since, reaped, nops, hist, tp, stops, chk>>
(* kept: at the end of the observation window Ev.id is still in the configuration (cfg re-aligns the model) *)
TKept == /\ Is("kept") /\ Step /\ config' = CfgOf(Ev.cfg)
         /\ bad' = Wellformed(bad, Ev.cfg)
         /\ UNCHANGED <<raftBoot, notified, bootFlag, bootCalls, joins, down, since, reaped, nops, hist, tp, stops, chk>>

(* cluster: after a discovery bootstrap every node reports the configuration made of exactly the notified nodes, all voters *)
TCluster == /\ Is("cluster") /\ Step /\ config' = CfgOf(Ev.cfg)
            /\ bad' = Flag(Wellformed(bad, Ev.cfg), CfgOf(Ev.cfg) = CfgOf(Ev.want), "discovery-bootstrap-configuration-wrong")
            /\ UNCHANGED <<raftBoot, notified, bootFlag, bootCalls, joins, down, since, reaped, nops, hist, tp, stops, chk>>

TNext == TCluster \/ TReset \/ TNote \/ TJoin \/ TRemove \/ TNotify \/ TStop \/ TReapCheck \/ TReapRemove \/ TGone \/ TKept
TSpec == TInit /\ [][TNext]_tvars

HW == /\ TLCSet(1, IF l > TLCGet(1) THEN l ELSE TLCGet(1))
      /\ TLCSet(2, IF Cardinality(bad) >= Cardinality(TLCGet(2)) THEN bad ELSE TLCGet(2))
Accepted == /\ \A b \in TLCGet(2) : PrintT(<<"@@BAD", b[1], b[2]>>)
            /\ IF TLCGet(1) >= Len(Trace) + 1 THEN TRUE ELSE PrintT(<<"@@HW", TLCGet(1) - 1>>) /\ FALSE
            /\ TLCGet(2) = {}
=============================================================================
