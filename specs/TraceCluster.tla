---------------------------- MODULE TraceCluster ----------------------------
(* Trace validation of real rqlite clusters (3 or 5 full nodes in one process on a faulty       *)
(* network) against the node layer of Cluster.tla.  One ordered trace carries                     *)
(*  (1) the client history: c.inv / c.ok / c.fail of writes and reads issued over HTTP to any    *)
(*      node.  The workload is a versioned register store: every write bumps a global counter    *)
(*      n inside its transaction and stamps the register it writes with that n; every read       *)
(*      returns n and all registers in one statement.  So each acknowledged operation names      *)
(*      its own linearization point n, and the sequential specification is:                      *)
(*         state(n) is a function of writes 1..n; a write creates version n once; an operation   *)
(*         sees at least every version acknowledged or observed before it was invoked.           *)
(*  (2) the node events of the linearizable-read protocol (hooks in store/store.go), checked     *)
(*      against Cluster!LrCheck / LrTermOK / LrMayServe with the Raft scalars bound from the     *)
(*      logged values.                                                                           *)
(* Every condition is evaluated at its line; a failed one is recorded in `bad` as <<line, name>>   *)
(* and validation continues, so one pass reports every violation of a trace (register 2).        *)
EXTENDS RqRead, Json, Integers, Sequences, FiniteSets, TLC

Trace == ndJsonDeserialize("trace.ndjson")

CONSTANT OneCluster   \* TRUE: between two `reset` lines all events are of ONE cluster (harness traces).  FALSE: a case may
                      \* build several clusters that reuse node ids (the repository's own tests): nothing is compared
                      \* across nodes, and a node that opens starts from scratch

VARIABLES l,        \* next line
          front,    \* highest version acknowledged / observed by a completed lin|strong op
          pend,     \* op -> [kind, key, val, lvl, lb]
          invd,     \* set of <<key, val>> of every write invoked so far
          acks,     \* set of [n, key, val] of acknowledged writes
          obs,      \* set of [n, regs] observed by reads (any level)
          srtSeen,  \* node -> set of terms stored into strongReadTerm since the node opened
          mfsm,     \* node -> highest index signalled on fsmTarget
          tlb,      \* node -> highest term seen in any event of the node
          vlc,      \* node -> number of successful VerifyLeader calls
          rdst,     \* rid -> [node, rterm, pc, ci, vl, tl]
          fsmx,     \* [pos: node -> FSM position in this life of the node (last index applied or restored),
                    \*  at: index -> term of the command some node's FSM applied there]
          bad
tvars == <<l, front, pend, invd, acks, obs, srtSeen, mfsm, tlb, vlc, rdst, fsmx, bad>>

Max2(a, b) == IF a > b THEN a ELSE b
Ev == Trace[l]
Is(e) == l <= Len(Trace) /\ Trace[l].ev = e
Step == l' = l + 1
Drop(f, k) == [x \in DOMAIN f \ {k} |-> f[x]]
Put(f, k, v) == [x \in DOMAIN f \cup {k} |-> IF x = k THEN v ELSE f[x]]
Get0(f, k) == IF k \in DOMAIN f THEN f[k] ELSE 0
GetS(f, k) == IF k \in DOMAIN f THEN f[k] ELSE {}
Flag(cond, name) == IF cond THEN bad ELSE bad \cup {<<l, name>>}     \* every failed condition, with its line
Keys(regs) == 1..Len(regs)
RV(regs, k) == regs[k][1]
RVer(regs, k) == regs[k][2]
MaxVer(regs) == IF Len(regs) = 0 THEN 0 ELSE
                CHOOSE m \in {RVer(regs, k) : k \in Keys(regs)} : \A k \in Keys(regs) : RVer(regs, k) <= m

(* two observed states o1.n <= o2.n of one sequential history *)
Compat(o1, o2) ==
  IF o1.n = o2.n THEN o1.regs = o2.regs
  ELSE LET a == IF o1.n < o2.n THEN o1 ELSE o2
           b == IF o1.n < o2.n THEN o2 ELSE o1 IN
       \A k \in Keys(a.regs) :
          /\ RVer(b.regs, k) >= RVer(a.regs, k)
          /\ (RVer(b.regs, k) <= a.n => b.regs[k] = a.regs[k])
(* an observed state against an acknowledged write *)
SeesAck(o, a) == o.n >= a.n => /\ RVer(o.regs, a.key) >= a.n
                               /\ (RVer(o.regs, a.key) = a.n => RV(o.regs, a.key) = a.val)
WellFormed(o) == /\ \A k \in Keys(o.regs) : RVer(o.regs, k) <= o.n
                 /\ MaxVer(o.regs) = o.n
                 /\ \A k \in Keys(o.regs) : RVer(o.regs, k) > 0 => <<k, RV(o.regs, k)>> \in invd
                 /\ \A j, k \in Keys(o.regs) : j # k /\ RVer(o.regs, j) > 0 => RVer(o.regs, j) # RVer(o.regs, k)

TInit == /\ l = 1 /\ TLCSet(1, 0) /\ TLCSet(2, {}) /\ front = 0 /\ pend = <<>> /\ invd = {} /\ acks = {} /\ obs = {}
         /\ srtSeen = <<>> /\ mfsm = <<>> /\ tlb = <<>> /\ vlc = <<>> /\ rdst = <<>> /\ bad = {}
         /\ fsmx = [pos |-> <<>>, at |-> <<>>]

TReset == /\ Is("reset") /\ Step /\ front' = 0 /\ pend' = <<>> /\ invd' = {} /\ acks' = {} /\ obs' = {}
          /\ srtSeen' = <<>> /\ mfsm' = <<>> /\ tlb' = <<>> /\ vlc' = <<>> /\ rdst' = <<>> /\ bad' = bad
          /\ fsmx' = [pos |-> <<>>, at |-> <<>>]

(* ------------------------------ client history ------------------------------ *)
CInv == /\ Is("c.inv") /\ Step
        /\ pend' = Put(pend, Ev.op, [kind |-> Ev.kind, key |-> Ev.key, val |-> Ev.val, lvl |-> Ev.lvl, lb |-> front])
        /\ invd' = IF Ev.kind = "w" THEN invd \cup {<<Ev.key, Ev.val>>} ELSE invd
        /\ UNCHANGED <<front, acks, obs, srtSeen, mfsm, tlb, vlc, rdst, bad, fsmx>>

CFail == /\ Is("c.fail") /\ Step /\ pend' = Drop(pend, Ev.op)
         /\ UNCHANGED <<front, invd, acks, obs, srtSeen, mfsm, tlb, vlc, rdst, bad, fsmx>>

COkW == /\ Is("c.ok") /\ Ev.op \in DOMAIN pend /\ pend[Ev.op].kind = "w" /\ Step
        /\ LET p == pend[Ev.op]
               a == [n |-> Ev.n, key |-> p.key, val |-> p.val] IN
           /\ acks' = acks \cup {a}
           /\ front' = Max2(front, Ev.n)
           /\ bad' = IF Ev.n <= p.lb THEN Flag(FALSE, "write-version-not-after-earlier-ops")
                     ELSE IF \E b \in acks : b.n = Ev.n THEN Flag(FALSE, "two-writes-same-version")
                     ELSE IF \E o \in obs : ~SeesAck(o, a) THEN Flag(FALSE, "earlier-read-missed-or-contradicts-acked-write")
                     ELSE bad
        /\ pend' = Drop(pend, Ev.op)
        /\ UNCHANGED <<invd, obs, srtSeen, mfsm, tlb, vlc, rdst, fsmx>>

COkR == /\ Is("c.ok") /\ Ev.op \in DOMAIN pend /\ pend[Ev.op].kind = "r" /\ Step
        /\ LET p == pend[Ev.op]
               o == [n |-> Ev.n, regs |-> Ev.regs]
               strict == p.lvl \in {"lin", "strong"} IN
           /\ obs' = obs \cup {o}
           /\ front' = IF strict THEN Max2(front, Ev.n) ELSE front
           /\ bad' = IF strict /\ Ev.n < p.lb THEN Flag(FALSE, "stale-read:" \o p.lvl)
                     ELSE IF ~WellFormed(o) THEN Flag(FALSE, "read-state-not-wellformed")
                     ELSE IF \E a \in acks : ~SeesAck(o, a) THEN Flag(FALSE, "read-contradicts-acked-write")
                     ELSE IF \E o2 \in obs : ~Compat(o, o2) THEN Flag(FALSE, "reads-not-one-history")
                     ELSE bad
        /\ pend' = Drop(pend, Ev.op)
        /\ UNCHANGED <<invd, acks, srtSeen, mfsm, tlb, vlc, rdst, fsmx>>

(* ------------------------------ node events ------------------------------ *)
NodeT(t) == tlb' = Put(tlb, Ev.inst, Max2(Get0(tlb, Ev.inst), t))

FsmReset == /\ Is("fsm.reset") /\ Step
            /\ srtSeen' = Put(srtSeen, Ev.inst, {}) /\ mfsm' = Put(mfsm, Ev.inst, 0)
            /\ rdst' = [r \in {x \in DOMAIN rdst : rdst[x].node # Ev.inst} |-> rdst[r]]
            /\ fsmx' = [fsmx EXCEPT !.pos = Put(@, Ev.inst, 0)]
            /\ tlb' = IF OneCluster THEN tlb ELSE Put(tlb, Ev.inst, 0)
            /\ UNCHANGED <<front, pend, invd, acks, obs, vlc, bad>>

(* Cluster.tla ApplyOne / InstallSnapshot / Restart on the real FSM: within one life of a node the FSM        *)
(* position only moves forward (an index is applied once; a snapshot is installed only ahead of it), and   *)
(* what is applied at an index is the same entry on every node (StateMachineSafety, seen at the FSMs)      *)
FsmApply == /\ (Is("fsm.apply") \/ Is("fsm.restore") \/ Is("fsm.signal")) /\ Step
            /\ mfsm' = Put(mfsm, Ev.inst, Max2(Get0(mfsm, Ev.inst), Ev.idx))
            /\ NodeT(IF Is("fsm.signal") THEN 0 ELSE Ev.term)
            /\ IF Is("fsm.signal") THEN UNCHANGED <<fsmx, bad>>
               ELSE LET pos == Get0(fsmx.pos, Ev.inst) IN
                    /\ fsmx' = [pos |-> Put(fsmx.pos, Ev.inst, Max2(pos, Ev.idx)),
                                at |-> IF Is("fsm.apply") /\ Ev.idx \notin DOMAIN fsmx.at THEN Put(fsmx.at, Ev.idx, Ev.term) ELSE fsmx.at]
                    /\ bad' = IF Is("fsm.apply") /\ Ev.idx <= pos THEN Flag(FALSE, "fsm-applied-index-at-or-below-its-position")
                              ELSE IF Is("fsm.restore") /\ Ev.idx < pos THEN Flag(FALSE, "snapshot-restored-behind-fsm-position")
                              ELSE IF OneCluster /\ Is("fsm.apply") /\ Ev.idx \in DOMAIN fsmx.at /\ fsmx.at[Ev.idx] # Ev.term
                                   THEN Flag(FALSE, "different-entries-applied-at-one-index")
                              ELSE bad
            /\ UNCHANGED <<front, pend, invd, acks, obs, srtSeen, vlc, rdst>>

SrtStore == /\ Is("srt.store") /\ Step
            /\ srtSeen' = Put(srtSeen, Ev.inst, GetS(srtSeen, Ev.inst) \cup {Ev.t})
            /\ NodeT(Ev.t)
            /\ UNCHANGED <<front, pend, invd, acks, obs, mfsm, vlc, rdst, bad, fsmx>>

VerifyDone == /\ Is("vl.done") /\ Step
              /\ vlc' = IF Ev.ok THEN Put(vlc, Ev.inst, Get0(vlc, Ev.inst) + 1) ELSE vlc
              /\ UNCHANGED <<front, pend, invd, acks, obs, srtSeen, mfsm, tlb, rdst, bad, fsmx>>

LrBegin == /\ Is("lr.begin") /\ Step
           /\ rdst' = Put(rdst, Ev.rid, [node |-> Ev.inst, rterm |-> Ev.rterm, pc |-> "chk", ci |-> 0, vl |-> 0, tl |-> 0])
           /\ NodeT(Ev.rterm)
           /\ UNCHANGED <<front, pend, invd, acks, obs, srtSeen, mfsm, vlc, bad, fsmx>>

(* Cluster!NoStuckRead on the real values: the wait timed out although Raft had already handed *)
(* every entry up to the read index to the FSM goroutine (AppliedIndex >= target)               *)
LrGone == /\ (Is("lr.upgrade") \/ Is("lr.abort")) /\ Step /\ rdst' = Drop(rdst, Ev.rid)
          /\ bad' = IF Is("lr.abort") /\ Ev.why = "fsmtimeout"
                    THEN Flag(~(Ev.applied >= Ev.target), "lin-read-stuck-although-read-index-applied") ELSE bad
          /\ UNCHANGED <<front, pend, invd, acks, obs, srtSeen, mfsm, tlb, vlc, fsmx>>

Known == Ev.rid \in DOMAIN rdst
R == rdst[Ev.rid]
Adv(pc2, ci2, vl2, tl2) == rdst' = Put(rdst, Ev.rid, [R EXCEPT !.pc = pc2, !.ci = ci2, !.vl = vl2, !.tl = tl2])

(* passed the strong-read-term check and the leader check: LrCheck = "index" for some value   *)
(* strongReadTerm held, i.e. the read's term was stored by a strong read on this node          *)
LrLeader == /\ Is("lr.leader") /\ Step
            /\ IF ~Known THEN UNCHANGED <<rdst, bad, fsmx>>
               ELSE /\ Adv("leader", 0, 0, 0)
                    /\ bad' = Flag(R.pc = "chk" /\ \E sv \in GetS(srtSeen, R.node) \cup {0} : LrCheck(R.rterm, sv, TRUE) = "index",
                                   "lin-read-not-upgraded-in-term-without-strong-read")
            /\ UNCHANGED <<front, pend, invd, acks, obs, srtSeen, mfsm, tlb, vlc, fsmx>>

LrIndex == /\ Is("lr.index") /\ Step
           /\ IF ~Known THEN UNCHANGED <<rdst, bad, fsmx>>
              ELSE /\ Adv("verify", Ev.ci, Get0(vlc, R.node), 0)
                   /\ bad' = Flag(R.pc = "leader", "read-index-out-of-order")
           /\ UNCHANGED <<front, pend, invd, acks, obs, srtSeen, mfsm, tlb, vlc, fsmx>>

(* leadership confirmed AFTER the read index was taken: a VerifyLeader succeeded on the node in between *)
LrVerified == /\ Is("lr.verified") /\ Step
              /\ IF ~Known THEN UNCHANGED <<rdst, bad, fsmx>>
                 ELSE /\ Adv("term", R.ci, R.vl, Get0(tlb, R.node))
                      /\ bad' = Flag(R.pc = "verify" /\ (VerifyQuorum => Get0(vlc, R.node) > R.vl), "served-without-quorum-check-after-read-index")
              /\ UNCHANGED <<front, pend, invd, acks, obs, srtSeen, mfsm, tlb, vlc, fsmx>>

(* the node had already shown a higher term before the verification finished => the re-check must fail *)
LrTermOk == /\ Is("lr.termok") /\ Step
            /\ IF ~Known THEN UNCHANGED <<rdst, bad, fsmx>>
               ELSE /\ Adv("wait", R.ci, R.vl, R.tl)
                    /\ bad' = Flag(R.pc = "term" /\ LrTermOK(R.rterm, Max2(R.tl, R.rterm)), "term-changed-but-read-continued")
            /\ UNCHANGED <<front, pend, invd, acks, obs, srtSeen, mfsm, tlb, vlc, fsmx>>

LrWait == /\ Is("lr.wait") /\ Step
          /\ IF ~Known THEN UNCHANGED <<rdst, bad, fsmx>>
             ELSE /\ Adv("waiting", R.ci, R.vl, R.tl)
                  /\ bad' = Flag(R.pc = "wait" /\ Ev.target = R.ci, "wait-target-is-not-the-read-index")
          /\ UNCHANGED <<front, pend, invd, acks, obs, srtSeen, mfsm, tlb, vlc, fsmx>>

LrServed == /\ Is("lr.served") /\ Step
            /\ IF ~Known THEN UNCHANGED <<rdst, bad, fsmx>>
               ELSE /\ rdst' = Drop(rdst, Ev.rid)
                    /\ bad' = Flag(R.pc = "waiting" /\ LrMayServe(Get0(mfsm, R.node), R.ci), "served-before-fsm-reached-read-index")
            /\ UNCHANGED <<front, pend, invd, acks, obs, srtSeen, mfsm, tlb, vlc, fsmx>>

Note == /\ Is("note") /\ Step /\ UNCHANGED <<front, pend, invd, acks, obs, srtSeen, mfsm, tlb, vlc, rdst, bad, fsmx>>

TNext == TReset \/ CInv \/ CFail \/ COkW \/ COkR \/ FsmReset \/ FsmApply \/ SrtStore \/ VerifyDone
         \/ LrBegin \/ LrGone \/ LrLeader \/ LrIndex \/ LrVerified \/ LrTermOk \/ LrWait \/ LrServed \/ Note
TSpec == TInit /\ [][TNext]_tvars

HW == /\ TLCSet(1, IF l > TLCGet(1) THEN l ELSE TLCGet(1))
      /\ TLCSet(2, IF Cardinality(bad) >= Cardinality(TLCGet(2)) THEN bad ELSE TLCGet(2))
Accepted == /\ \A b \in TLCGet(2) : PrintT(<<"@@BAD", b[1], b[2]>>)
            /\ IF TLCGet(1) >= Len(Trace) + 1 THEN TRUE ELSE PrintT(<<"@@HW", TLCGet(1) - 1>>) /\ FALSE
            /\ TLCGet(2) = {}
=============================================================================
