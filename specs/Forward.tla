------------------------------- MODULE Forward -------------------------------
(* C20: request forwarding (http/service.go handlers -> proxy/proxy.go -> cluster/client.go ->  *)
(* cluster/service.go -> store).  One request at a time is followed through its steps while     *)
(* leadership may move.  Kinds that need the leader: execute, strong/weak/linearizable query,   *)
(* unified request.  Switches (TRUE = design): LocalOnlyIfLeader, ForwardWithCreds,              *)
(* RedirectWhenAsked, ReturnLeaderIndex.                                                         *)
EXTENDS Naturals, Sequences, FiniteSets, TLC

CONSTANTS Node, Cred, Allowed,      \* Allowed \subseteq Cred: credentials the (uniform) credential store accepts
          MaxMoves, MaxReq,
          LocalOnlyIfLeader, ForwardWithCreds, RedirectWhenAsked, ReturnLeaderIndex
NoCred == "anonymous"

VARIABLES leader,     \* current leader
          known,      \* node -> who the node believes is leader (may lag)
          moves,
          idx,        \* commit index of the cluster (advances with each execution)
          req,        \* [pc, at, redirect, cred, target, sentCred, execIdx]
          execs,      \* sequence of [node, cred, idx]: every execution of the request against a database
          resp        \* [kind, idx, by, loc]
vars == <<leader, known, moves, idx, req, execs, resp>>

Idle == [pc |-> "idle", at |-> CHOOSE n \in Node : TRUE, redirect |-> FALSE, cred |-> NoCred, target |-> CHOOSE n \in Node : TRUE, sentCred |-> NoCred]
NoResp == [kind |-> "none", idx |-> 0, by |-> CHOOSE n \in Node : TRUE, loc |-> CHOOSE n \in Node : TRUE]

Init == /\ leader \in Node /\ known = [n \in Node |-> leader] /\ moves = 0 /\ idx = 0
        /\ req = Idle /\ execs = <<>> /\ resp = NoResp

LeaderMove(n) == /\ moves < MaxMoves /\ n # leader /\ leader' = n /\ moves' = moves + 1
                 /\ known' = [known EXCEPT ![n] = n]
                 /\ UNCHANGED <<idx, req, execs, resp>>
Learn(n) == /\ known[n] # leader /\ known' = [known EXCEPT ![n] = leader]
            /\ UNCHANGED <<leader, moves, idx, req, execs, resp>>

(* the HTTP layer of the receiving node has already authenticated the caller (uniform store) *)
Send(n, rd, c) == /\ req.pc = "idle" /\ resp.kind = "none" /\ c \in Allowed /\ idx < MaxReq
                  /\ req' = [Idle EXCEPT !.pc = "local", !.at = n, !.redirect = rd, !.cred = c]
                  /\ UNCHANGED <<leader, known, moves, idx, execs, resp>>

Exec(n, c) == /\ idx' = idx + 1 /\ execs' = Append(execs, [node |-> n, cred |-> c, idx |-> idx + 1])

(* proxy: p.store.X(...) on the receiving node *)
TryLocal ==
  /\ req.pc = "local"
  /\ IF req.at = leader \/ ~LocalOnlyIfLeader
     THEN /\ Exec(req.at, req.cred)
          /\ resp' = [kind |-> "ok", idx |-> idx + 1, by |-> req.at, loc |-> req.at]
          /\ req' = [req EXCEPT !.pc = "done"]
     ELSE /\ req' = [req EXCEPT !.pc = IF req.redirect /\ RedirectWhenAsked THEN "redirect" ELSE "fwd"]
          /\ UNCHANGED <<idx, execs, resp>>
  /\ UNCHANGED <<leader, known, moves>>

Redirect == /\ req.pc = "redirect"
            /\ resp' = [kind |-> "redirect", idx |-> 0, by |-> req.at, loc |-> known[req.at]]
            /\ req' = [req EXCEPT !.pc = "done"]
            /\ UNCHANGED <<leader, known, moves, idx, execs>>

(* proxy: p.cluster.X(ctx, r, addr, creds, ...) to the leader as known by the receiving node *)
Forward == /\ req.pc = "fwd"
           /\ req' = [req EXCEPT !.pc = "remote", !.target = known[req.at],
                                 !.sentCred = IF ForwardWithCreds THEN req.cred ELSE NoCred]
           /\ UNCHANGED <<leader, known, moves, idx, execs, resp>>

(* cluster service on the target: permission check with the carried credentials, then db.X *)
RemoteRx ==
  /\ req.pc = "remote"
  /\ IF req.sentCred \notin Allowed
     THEN /\ resp' = [kind |-> "unauthorized", idx |-> 0, by |-> req.target, loc |-> req.target] /\ UNCHANGED <<idx, execs>>
     ELSE IF req.target = leader
     THEN /\ Exec(req.target, req.sentCred)
          /\ resp' = [kind |-> "ok", idx |-> IF ReturnLeaderIndex THEN idx + 1 ELSE 0, by |-> req.target, loc |-> req.target]
     ELSE /\ resp' = [kind |-> "notleader", idx |-> 0, by |-> req.target, loc |-> req.target] /\ UNCHANGED <<idx, execs>>
  /\ req' = [req EXCEPT !.pc = "done"]
  /\ UNCHANGED <<leader, known, moves>>

Finish == /\ req.pc = "done" /\ req' = Idle /\ execs' = <<>> /\ resp' = NoResp
          /\ UNCHANGED <<leader, known, moves, idx>>

Next == \/ \E n \in Node : LeaderMove(n) \/ Learn(n)
        \/ \E n \in Node, rd \in BOOLEAN, c \in Cred : Send(n, rd, c)
        \/ TryLocal \/ Redirect \/ Forward \/ RemoteRx \/ Finish
Spec == Init /\ [][Next]_vars

(* ---- properties ---- *)
AtMostOnce == Len(execs) <= 1
(* executed only on the node that is leader at that moment, never against the receiving follower's own database *)
NeverOnFollower == \A i \in 1..Len(execs) : execs[i].idx = idx => execs[i].node = leader
OnlyLeaderExec == [][\A i \in 1..Len(execs') : i > Len(execs) => execs'[i].node = leader]_vars
CallerCreds == \A i \in 1..Len(execs) : execs[i].cred = req.cred
Transparent == resp.kind = "ok" => Len(execs) = 1 /\ resp.idx = execs[1].idx /\ resp.by = execs[1].node
RedirectHonoured == (req.redirect /\ req.pc = "done" /\ req.at # resp.by) => FALSE
RedirectOnly == req.redirect /\ resp.kind # "none" /\ resp.by # req.at => FALSE
=============================================================================
