SPECIFICATION Spec
CONSTANTS
  MaxLevel = 3
  ReleaseRate = 2
  HasIdle = TRUE
  ClampHigh = FALSE
  ClampLow = TRUE
  UseReleaseRate = TRUE
  IdleReset = TRUE
INVARIANTS InRange IdleCovers
PROPERTY StepSizes
CONSTRAINT Bound
