SPECIFICATION Spec
CONSTANTS
  Node = {n1, n2}
  MaxIdx = 3
  Multi = {2}
  BatchSz = 2
  InCap = 0
  AsyncHWM = FALSE
  SigCap = 2
  MaxFlips = 3
  MaxLeaders = 1
  MaxRestarts = 0
  MaxSnaps = 0
  MaxDowns = 0
  OneGroupPerEntry = TRUE
  LabelEveryGroup = TRUE
  KeyByHighest = FALSE
  SyncFlushBeforeSnapshot = TRUE
  DrainInBeforeSync = TRUE
  HWMAfterSendOK = TRUE
  PruneToHWMOnly = TRUE
  RewindCursor = TRUE
  ParkedKeptUntilSent = TRUE
  RestartHWMBelowLowest = TRUE
  DropReapplied = TRUE
SYMMETRY Sym
INVARIANTS TypeOK Labelled NoSkip TenureOrder TakenStored KeysBounded LoopShape
