SPECIFICATION Spec
CONSTANTS
  WeakNeedsLeader = TRUE
  AutoOnQuery = TRUE
  AutoOnUnified = TRUE
  StaleByContact = TRUE
  StrictByAppendLag = TRUE
  MaxT = 3
INVARIANT Inv
