SPECIFICATION Spec
CONSTANTS
  Unchecked = {}
  FullStar = TRUE
  MutEach = FALSE
  NoBodyAfterError = TRUE
  Roles = {"leader"}
INVARIANTS OnlyIfAuthorized NoEffectUnlessAuth NoContentUnlessAuth DeniedClean AllowedPerforms Decided
