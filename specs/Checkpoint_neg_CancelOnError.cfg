SPECIFICATION Spec
CONSTANTS
  NPages = 2
  Readers = {r1, r2}
  MaxWrites = 3
  MaxCkpt = 3
  MaxReaderStarts = 2
  ReaderPoints = {"idle", "sqlite"}
  CanonicalPages = TRUE
  DisarmOnTruncate = TRUE
  ArmOnAllMoved = TRUE
  ResumeFromArmed = TRUE
  ResetBySalt = TRUE
  CancelOnError = FALSE
  BusyKeepsState = TRUE
SYMMETRY ReaderSym
INVARIANTS RebuildOK NoSegmentAfterFailure ResetDetected NoSpuriousReset NoRecapture
