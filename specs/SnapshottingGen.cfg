SPECIFICATION GSpec
CONSTANTS
  Page = {"1", "2"}
  MaxIdx = 3
  MaxSnapOps = 2
  MaxCrashes = 1
  AllowRecover = TRUE
  FingerprintGate = TRUE
  FPVouchesForVisible = TRUE
  CleanStagingOnNewBase = TRUE
  FullAfterLoad = TRUE
  RecoverDiscardsFile = TRUE
  ClearFlagOnlyIfCovers = TRUE
INVARIANTS LiveOK Rebuild
CONSTRAINT Emit
VIEW View
