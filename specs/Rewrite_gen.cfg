SPECIFICATION Spec
CONSTANTS
  PrefilterComplete = TRUE
  ImplicitNow = TRUE
  FormatOnly = TRUE
  SkipOrderBy = TRUE
  LeaveStringsIdents = TRUE
  UntouchedIfNoSite = TRUE
  WalkEverywhere = TRUE
  OnePin = TRUE
  SiteIndependent = TRUE
  Tier = "quick"
INVARIANTS Complete Minimal Unchanged OnePinPerStatement ExclusionsExact ResidualOnlyExcluded Emit
