SPECIFICATION Spec
CONSTANTS
  ROPool = TRUE
  ClassifyWholeText = FALSE
  LocalReadsOnROPool = TRUE
  StrongQueryOnROPool = TRUE
  Nodes = {n1, n2, n3}
INVARIANT NoChangeByRead
