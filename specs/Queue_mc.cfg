SPECIFICATION Spec
CONSTANTS
  Writers = {w1, w2, w3}
  MaxWrites = 5
  MaxSize = 2
  BatchSize = 2
  HasTimeout = TRUE
  MaxFlush = 1
  SeqUnderLock = TRUE
  BatchOnSize = TRUE
  BatchSeqIsMax = TRUE
INVARIANTS FIFOExactlyOnce BatchBound SeqIncreasing
