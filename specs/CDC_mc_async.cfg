\* thorough: 2 nodes, 3 entries, asynchronous HWM updates (stale values), in-channel, <=3 leadership changes
SPECIFICATION Spec
CONSTANTS
  Node = {n1, n2}
  MaxIdx = 3
  Multi = {2}
  BatchSz = 2
  InCap = 2
  AsyncHWM = TRUE
  MaxFlips = 3
  MaxLeaders = 1
  MaxRestarts = 0
  MaxSnaps = 0
  MaxDowns = 99
  OneGroupPerEntry = TRUE
  LabelEveryGroup = TRUE
  KeyByHighest = TRUE
  SyncFlushBeforeSnapshot = TRUE
  DrainInBeforeSync = TRUE
  HWMAfterSendOK = TRUE
  PruneToHWMOnly = TRUE
  RewindCursor = TRUE
  RestartHWMBelowLowest = TRUE
  DropReapplied = TRUE
SYMMETRY Sym
INVARIANTS TypeOK Labelled NoSkip TenureOrder TakenStored KeysBounded
