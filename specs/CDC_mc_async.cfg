\* thorough: 2 nodes, 3 entries, asynchronous HWM updates (stale values), in-channel, <=4 leadership signals
SPECIFICATION Spec
CONSTANTS
  Node = {n1, n2}
  MaxIdx = 3
  Multi = {2}
  BatchSz = 2
  InCap = 2
  AsyncHWM = TRUE
  SigCap = 2
  MaxFlips = 4
  MaxLeaders = 1
  MaxRestarts = 0
  MaxSnaps = 0
  MaxDowns = 99
  OneGroupPerEntry = TRUE
  LabelEveryGroup = TRUE
  KeyByHighest = TRUE
  SyncFlushBeforeSnapshot = TRUE
  DrainInBeforeSync = TRUE
  HWMAfterSendOK = TRUE
  PruneToHWMOnly = TRUE
  RewindCursor = TRUE
  ParkedKeptUntilSent = TRUE
  RestartHWMBelowLowest = TRUE
  DropReapplied = TRUE
SYMMETRY Sym
INVARIANTS TypeOK Labelled NoSkip TenureOrder TakenStored KeysBounded LoopShape
