------------------------------- MODULE Queue -------------------------------
(* rqlite queue/queue.go: batching queue.  Write = take seqMu, seqNum++, blocking send  *)
(* on batchCh, release (two steps: the send can block on a full channel).  run loop:     *)
(* Recv (item or flush marker), TimerFire, writeFn = merge + blocking send on the 1-slot *)
(* sendCh (the loop is stuck in `pending` until the consumer makes room).                *)
(* Switches (TRUE = design): SeqUnderLock, BatchOnSize, BatchSeqIsMax.                   *)
EXTENDS Naturals, Sequences, FiniteSets, TLC, SequencesExt

CONSTANTS Writers, MaxWrites, MaxSize, BatchSize, HasTimeout, MaxFlush,
          SeqUnderLock, BatchOnSize, BatchSeqIsMax

VARIABLES mu,       \* holder of seqMu or "none"
          seqNum,   \* last sequence number handed out
          wpc,      \* writer -> "idle" | "locked"
          wseq,     \* writer -> sequence number it is about to send
          chan,     \* batchCh: sequence of [seq, flush]  (flush marker has seq 0)
          qobjs,    \* run loop's accumulated items
          timer,    \* timer armed
          pending,  \* request the run loop is blocked sending, or <<>>
          sendCh,   \* sequence of requests, capacity 1
          out,      \* history: requests taken by the consumer, in order
          acc,      \* history: sequence numbers in the order they were assigned
          nflush

vars == <<mu, seqNum, wpc, wseq, chan, qobjs, timer, pending, sendCh, out, acc, nflush>>
Marker == [seq |-> 0, flush |-> TRUE]
Item(s) == [seq |-> s, flush |-> FALSE]

Init == /\ mu = "none" /\ seqNum = 0 /\ wpc = [w \in Writers |-> "idle"] /\ wseq = [w \in Writers |-> 0]
        /\ chan = <<>> /\ qobjs = <<>> /\ timer = FALSE /\ pending = <<>> /\ sendCh = <<>>
        /\ out = <<>> /\ acc = <<>> /\ nflush = 0

MaxOf(S) == CHOOSE x \in S : \A y \in S : y <= x
Merge(q) == [seq |-> IF BatchSeqIsMax THEN MaxOf({q[i].seq : i \in 1..Len(q)}) ELSE q[1].seq, items |-> q]

WLock(w) == /\ wpc[w] = "idle" /\ seqNum < MaxWrites
            /\ IF SeqUnderLock THEN mu = "none" /\ mu' = w ELSE UNCHANGED mu
            /\ seqNum' = seqNum + 1 /\ wseq' = [wseq EXCEPT ![w] = seqNum + 1]
            /\ wpc' = [wpc EXCEPT ![w] = "locked"] /\ acc' = Append(acc, seqNum + 1)
            /\ UNCHANGED <<chan, qobjs, timer, pending, sendCh, out, nflush>>
WSend(w) == /\ wpc[w] = "locked" /\ Len(chan) < MaxSize
            /\ chan' = Append(chan, Item(wseq[w]))
            /\ IF SeqUnderLock THEN mu' = "none" ELSE UNCHANGED mu
            /\ wpc' = [wpc EXCEPT ![w] = "idle"]
            /\ UNCHANGED <<seqNum, wseq, qobjs, timer, pending, sendCh, out, acc, nflush>>
FlushReq == /\ nflush < MaxFlush /\ Len(chan) < MaxSize /\ chan' = Append(chan, Marker) /\ nflush' = nflush + 1
            /\ UNCHANGED <<mu, seqNum, wpc, wseq, qobjs, timer, pending, sendCh, out, acc>>

(* writeFn applied to the item list q *)
DoWrite(q) == IF q = <<>> THEN pending' = <<>> /\ qobjs' = <<>>
              ELSE pending' = <<Merge(q)>> /\ qobjs' = <<>>

RecvItem == /\ pending = <<>> /\ chan # <<>> /\ ~Head(chan).flush
            /\ chan' = Tail(chan)
            /\ LET q == Append(qobjs, Head(chan)) IN
               IF BatchOnSize /\ Len(q) = BatchSize
               THEN timer' = FALSE /\ DoWrite(q)
               ELSE /\ qobjs' = q /\ pending' = <<>>
                    /\ timer' = IF Len(q) = 1 /\ HasTimeout THEN TRUE ELSE timer
            /\ UNCHANGED <<mu, seqNum, wpc, wseq, sendCh, out, acc, nflush>>
RecvFlush == /\ pending = <<>> /\ chan # <<>> /\ Head(chan).flush
             /\ chan' = Tail(chan) /\ timer' = FALSE /\ DoWrite(qobjs)
             /\ UNCHANGED <<mu, seqNum, wpc, wseq, sendCh, out, acc, nflush>>
TimerFire == /\ pending = <<>> /\ timer /\ timer' = FALSE /\ DoWrite(qobjs)
             /\ UNCHANGED <<mu, seqNum, wpc, wseq, chan, sendCh, out, acc, nflush>>
PushSend == /\ pending # <<>> /\ sendCh = <<>> /\ sendCh' = pending /\ pending' = <<>>
            /\ UNCHANGED <<mu, seqNum, wpc, wseq, chan, qobjs, timer, out, acc, nflush>>
Consume == /\ sendCh # <<>> /\ out' = Append(out, Head(sendCh)) /\ sendCh' = <<>>
           /\ UNCHANGED <<mu, seqNum, wpc, wseq, chan, qobjs, timer, pending, acc, nflush>>

Next == \/ \E w \in Writers : WLock(w) \/ WSend(w)
        \/ FlushReq \/ RecvItem \/ RecvFlush \/ TimerFire \/ PushSend \/ Consume
Spec == Init /\ [][Next]_vars
FairSpec == Spec /\ WF_vars(Next)

----------------------------------------------------------------------------
Seqs(reqs) == FlattenSeq([i \in 1..Len(reqs) |-> [j \in 1..Len(reqs[i].items) |-> reqs[i].items[j].seq]])
NonFlush(c) == SelectSeq(c, LAMBDA x : ~x.flush)
SeqNums(q) == [i \in 1..Len(q) |-> q[i].seq]
InFlight == Seqs(out) \o Seqs(sendCh) \o Seqs(pending) \o SeqNums(qobjs) \o SeqNums(NonFlush(chan))

(* every accepted write is on its way exactly once and in acceptance order *)
FIFOExactlyOnce == IsPrefix(InFlight, acc) /\ Len(acc) - Len(InFlight) = Cardinality({w \in Writers : wpc[w] = "locked"})
BatchBound == \A i \in 1..Len(out) : Len(out[i].items) >= 1 /\ Len(out[i].items) <= BatchSize
SeqIncreasing == /\ \A i \in 1..Len(out) : out[i].seq = MaxOf({out[i].items[j].seq : j \in 1..Len(out[i].items)})
                 /\ \A i \in 1..(Len(out) - 1) : out[i].seq < out[i + 1].seq
(* nothing is stranded: with a timeout or a flush everything accepted is eventually emitted *)
Drained == <>[](Len(acc) = MaxWrites => Seqs(out) = acc)
=============================================================================
