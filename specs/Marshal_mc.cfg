SPECIFICATION Spec
CONSTANTS
  BatchThreshold = TRUE
  SizeThreshold = TRUE
  OnlyIfSmallerOrForced = TRUE
  DecompressOnFlag = TRUE
  CountFlagOverhead = FALSE
  ParamKinds = {"p", "badutf8"}
  InvalidKinds = {"badutf8"}
  OtherKinds = {"d", "badutf8"}
  MaxReqs = 2
INVARIANTS TypeOK RoundTrip UsefulOnly FlagTable FlagOnlyForRequests FlagMatchesBody StatsPartition
