---------------------------- MODULE Snapshotting ----------------------------
(* One rqlite node's storage stack (store/store.go fsmSnapshot / fsmRestore / Open, store/fsm.go, *)
(* store/state.go RecoverNode, snapshot store) in "versioned pages" terms, with a process crash   *)
(* possible between any two steps.                                                                *)
(*   A database is Page -> Nat.  A write INCREMENTS its pages (not idempotent: a double           *)
(*   application shows), a load at log index i sets every page to 10*i.                           *)
(*   dbfile = main SQLite file, wal = live WAL (0 = page absent), staging = compacted WAL         *)
(*   segments waiting for the next incremental snapshot, snaps = the visible snapshot catalog,    *)
(*   fp = the clean-snapshot fingerprint, fullNeeded = the FULL_NEEDED flag file.                 *)
(* Raft's snapshot sequence is modelled with its real call order:                                 *)
(*   SnapTake (fsm.Snapshot, on the FSM goroutine) -> PersistData -> Finalize (fingerprint)       *)
(*   -> SinkClose (snapshot becomes visible, flag cleared) -> Release, while writes and loads     *)
(*   continue to be applied between the steps after SnapTake.                                     *)
(* Switches (TRUE = the design that makes the properties hold):                                   *)
(*   FingerprintGate        fast path on open only if the fingerprint matches the database file   *)
(*   FPVouchesForVisible    the fingerprint names the snapshot it vouches for, and the fast path  *)
(*                          is taken only if that snapshot is the newest visible one              *)
(*   CleanStagingOnNewBase  a full snapshot, a load and an install discard staged segments        *)
(*   FullAfterLoad          a load sets FULL_NEEDED                                               *)
(*   RecoverDiscardsFile    manual recovery never keeps the old database file                     *)
(*   ClearFlagOnlyIfCovers  closing a sink clears FULL_NEEDED only if no load was applied since   *)
(*                          the snapshot was taken                                                *)
EXTENDS Naturals, Sequences, FiniteSets, TLC

CONSTANTS Page, MaxIdx, MaxSnapOps, MaxCrashes, AllowRecover,
          FingerprintGate, FPVouchesForVisible, CleanStagingOnNewBase, FullAfterLoad,
          RecoverDiscardsFile, ClearFlagOnlyIfCovers

VARIABLES log,        \* committed, durable Raft log: Seq([k, pages])
          logLo,      \* entries <= logLo have been deleted from the log (manual recovery)
          up, dbfile, wal,
          modS,       \* dbModifiedTime vs the file's mtime: "zero" (not yet recorded), "same", "diff" (file changed since)
          staging, snaps, fullNeeded, fp, pend, nsnap, ncrash
vars == <<log, logLo, up, dbfile, wal, modS, staging, snaps, fullNeeded, fp, pend, nsnap, ncrash>>

Empty == [p \in Page |-> 0]
Over(base, seg) == [p \in Page |-> IF seg[p] # 0 THEN seg[p] ELSE base[p]]
RECURSIVE OverAll(_, _)
OverAll(base, segs) == IF segs = <<>> THEN base ELSE OverAll(Over(base, Head(segs)), Tail(segs))
Live == Over(dbfile, wal)
Const(v) == [p \in Page |-> v]

(* logical application of one log entry to a (file, wal) pair *)
ApplyFW(fw, op, i) ==
  IF op.k = "w" THEN [f |-> fw.f, w |-> [p \in Page |-> IF p \in op.pages THEN Over(fw.f, fw.w)[p] + 1 ELSE fw.w[p]], ld |-> fw.ld]
  ELSE [f |-> Const(op.v), w |-> Empty, ld |-> TRUE]
RECURSIVE ReplayL(_, _, _, _)
ReplayL(lg, fw, from, to) == IF from > to THEN fw ELSE ReplayL(lg, ApplyFW(fw, lg[from], from), from + 1, to)
ReplayFW(fw, from, to) == ReplayL(log, fw, from, to)
(* the logical database after the first i entries of a log: each applied exactly once, in order *)
ExpectedL(lg, i) == LET r == ReplayL(lg, [f |-> Empty, w |-> Empty, ld |-> FALSE], 1, i) IN Over(r.f, r.w)
Expected(i) == ExpectedL(log, i)

NewestIdx == IF snaps = <<>> THEN 0 ELSE snaps[Len(snaps)].idx
LastFullPos == LET S == {i \in 1..Len(snaps) : snaps[i].kind = "full"} IN
               IF S = {} THEN 0 ELSE CHOOSE i \in S : \A j \in S : j <= i
RECURSIVE Chain(_, _)
Chain(db, i) == IF i > Len(snaps) THEN db ELSE Chain(OverAll(db, snaps[i].segs), i + 1)
(* restore of the newest snapshot: its full base plus every incremental after it *)
Restored == IF snaps = <<>> THEN Empty ELSE LET f == LastFullPos IN Chain(snaps[f].db, f + 1)
NoFP == [ok |-> FALSE, db |-> Empty, snap |-> 0]
NoPend == [ph |-> "none", kind |-> "full", idx |-> 0, db |-> Empty, loaded |-> FALSE]

Init == /\ log = <<>> /\ logLo = 0 /\ up = TRUE /\ dbfile = Empty /\ wal = Empty /\ modS = "zero"
        /\ staging = <<>> /\ snaps = <<>> /\ fullNeeded = FALSE /\ fp = NoFP /\ pend = NoPend /\ nsnap = 0 /\ ncrash = 0

(* ------------------------------- applying entries ------------------------------- *)
Write(S) ==
  /\ up /\ Len(log) < MaxIdx /\ S # {}
  /\ log' = Append(log, [k |-> "w", pages |-> S, v |-> 0])
  /\ wal' = [p \in Page |-> IF p \in S THEN Live[p] + 1 ELSE wal[p]]
  /\ UNCHANGED <<logLo, up, dbfile, modS, staging, snaps, fullNeeded, fp, pend, nsnap, ncrash>>

Load ==
  /\ up /\ Len(log) < MaxIdx
  /\ log' = Append(log, [k |-> "load", pages |-> {}, v |-> 10 * (Len(log) + 1)])
  /\ dbfile' = Const(10 * (Len(log) + 1)) /\ wal' = Empty /\ modS' = IF modS = "zero" THEN "zero" ELSE "diff"
  /\ fullNeeded' = (fullNeeded \/ FullAfterLoad)
  /\ pend' = IF pend.ph = "none" THEN pend ELSE [pend EXCEPT !.loaded = TRUE]
  /\ UNCHANGED <<logLo, up, staging, snaps, fp, nsnap, ncrash>>   \* a stale fingerprint no longer matches the file

(* ------------------------------- snapshotting ------------------------------- *)
DbModified == modS = "diff"
SnapTake ==
  /\ up /\ pend.ph = "none" /\ nsnap < MaxSnapOps /\ Len(log) > NewestIdx
  /\ nsnap' = nsnap + 1
  /\ IF fullNeeded \/ snaps = <<>> \/ DbModified
     THEN /\ dbfile' = Live /\ wal' = Empty
          /\ staging' = IF CleanStagingOnNewBase THEN <<>> ELSE staging
          /\ pend' = [ph |-> "taken", kind |-> "full", idx |-> Len(log), db |-> Live, loaded |-> FALSE]
          /\ modS' = "same"
     ELSE /\ wal # Empty                                  \* else ErrNoWALToSnapshot
          /\ staging' = Append(staging, wal)
          /\ dbfile' = Live /\ wal' = Empty
          /\ pend' = [ph |-> "taken", kind |-> "inc", idx |-> Len(log), db |-> Empty, loaded |-> FALSE]
          /\ modS' = "same"
  /\ UNCHANGED <<log, logLo, up, snaps, fullNeeded, fp, ncrash>>

(* Persist: the sink accepts the stream (an incremental header is refused while FULL_NEEDED is set) *)
PersistData ==
  /\ up /\ pend.ph = "taken"
  /\ IF pend.kind = "inc" /\ fullNeeded
     THEN pend' = NoPend                                   \* persist fails, staging dir still there: retry incremental
     ELSE pend' = [pend EXCEPT !.ph = "persisted"]
  /\ UNCHANGED <<log, logLo, up, dbfile, wal, modS, staging, snaps, fullNeeded, fp, nsnap, ncrash>>

(* the finalizer runs inside Persist, before Raft closes the sink *)
Finalize ==
  /\ up /\ pend.ph = "persisted"
  /\ fp' = [ok |-> TRUE, db |-> dbfile, snap |-> pend.idx]
  /\ pend' = [pend EXCEPT !.ph = "finalized"]
  /\ UNCHANGED <<log, logLo, up, dbfile, wal, modS, staging, snaps, fullNeeded, nsnap, ncrash>>

SinkClose ==
  /\ up /\ pend.ph = "finalized"
  /\ snaps' = Append(snaps, [kind |-> pend.kind, idx |-> pend.idx, db |-> pend.db,
                             segs |-> IF pend.kind = "inc" THEN staging ELSE <<>>])
  /\ staging' = IF pend.kind = "inc" THEN <<>> ELSE staging
  /\ fullNeeded' = IF ClearFlagOnlyIfCovers /\ pend.loaded THEN fullNeeded ELSE FALSE
  /\ pend' = NoPend
  /\ UNCHANGED <<log, logLo, up, dbfile, wal, modS, fp, nsnap, ncrash>>

(* Raft could not create the sink / lost leadership: Release(invoked = false), staging kept *)
PersistNotInvoked ==
  /\ up /\ pend.ph = "taken" /\ pend' = NoPend
  /\ UNCHANGED <<log, logLo, up, dbfile, wal, modS, staging, snaps, fullNeeded, fp, nsnap, ncrash>>

(* Reaping consolidates the catalog: the newest snapshot's full base and every incremental after it become *)
(* one full snapshot with the same index (snapshot store reap; its crash-safety is C07's SnapStore.tla)    *)
Reap ==
  /\ up /\ pend.ph = "none" /\ Len(snaps) > 1
  /\ snaps' = <<[kind |-> "full", idx |-> NewestIdx, db |-> Restored, segs |-> <<>>]>>
  /\ UNCHANGED <<log, logLo, up, dbfile, wal, modS, staging, fullNeeded, fp, pend, nsnap, ncrash>>

(* ------------------------------- crash and restart ------------------------------- *)
Crash == /\ up /\ ncrash < MaxCrashes /\ up' = FALSE /\ pend' = NoPend /\ ncrash' = ncrash + 1
         /\ UNCHANGED <<log, logLo, dbfile, wal, modS, staging, snaps, fullNeeded, fp, nsnap>>
Stop == /\ up /\ pend.ph = "none" /\ up' = FALSE          \* graceful close without the close-time snapshot
        /\ UNCHANGED <<log, logLo, dbfile, wal, modS, staging, snaps, fullNeeded, fp, pend, nsnap, ncrash>>

FastOK == /\ snaps # <<>> /\ fp.ok
          /\ (FingerprintGate => fp.db = dbfile)
          /\ (FPVouchesForVisible => fp.snap = NewestIdx)

(* Store.Open: fast-path decision, [manual recovery], database opened (WAL discarded), staging removed, *)
(* Raft restores the newest snapshot unless told not to, then replays the log after it                *)
Open(recover) ==
  /\ ~up /\ (recover => AllowRecover /\ Len(log) > logLo)
  /\ LET fast == FastOK
         n == Len(log) IN
     IF ~recover
     THEN LET base == IF snaps = <<>> THEN Empty ELSE IF fast THEN dbfile ELSE Restored
              r == ReplayFW([f |-> base, w |-> Empty, ld |-> FALSE], (IF NewestIdx > logLo THEN NewestIdx ELSE logLo) + 1, n) IN
          /\ dbfile' = r.f /\ wal' = r.w
          /\ fp' = IF snaps = <<>> \/ fast THEN fp
                   ELSE [ok |-> TRUE, db |-> Restored, snap |-> NewestIdx]      \* fsmRestore writes a new fingerprint
          /\ modS' = IF fast \/ snaps = <<>> THEN "zero" ELSE IF r.ld THEN "diff" ELSE "same"
          /\ fullNeeded' = (fullNeeded \/ (r.ld /\ FullAfterLoad))
          /\ UNCHANGED <<snaps, logLo>>
     ELSE \* RecoverNode: recovery snapshot = newest snapshot + log, at the last index; the log is deleted
          LET rec0 == ReplayFW([f |-> Restored, w |-> Empty, ld |-> FALSE], (IF NewestIdx > logLo THEN NewestIdx ELSE logLo) + 1, n)
              rec == Over(rec0.f, rec0.w)
              keep == fast /\ ~RecoverDiscardsFile IN
          /\ snaps' = Append(snaps, [kind |-> "full", idx |-> n, db |-> rec, segs |-> <<>>])
          /\ logLo' = n
          /\ dbfile' = IF keep THEN dbfile ELSE rec
          /\ wal' = Empty
          /\ fp' = IF keep THEN NoFP ELSE [ok |-> TRUE, db |-> rec, snap |-> n]
          /\ modS' = IF keep THEN "zero" ELSE "same"
          /\ fullNeeded' = FALSE
  /\ up' = TRUE /\ staging' = <<>> /\ pend' = NoPend
  /\ UNCHANGED <<log, nsnap, ncrash>>

Next == \/ \E S \in SUBSET Page : Write(S)
        \/ Load \/ SnapTake \/ PersistData \/ Finalize \/ SinkClose \/ PersistNotInvoked \/ Reap
        \/ Crash \/ Stop \/ \E r \in BOOLEAN : Open(r)
Spec == Init /\ [][Next]_vars

(* ------------------------------- properties ------------------------------- *)
(* C03 / C22 / C33: whenever the node is up its database is exactly the committed log applied once *)
LiveOK == up => Live = Expected(Len(log))
(* C04: the snapshot store plus the log after it always rebuild the applied state *)
Rebuild == (snaps # <<>> /\ NewestIdx >= logLo) =>
             LET r == ReplayFW([f |-> Restored, w |-> Empty, ld |-> FALSE], NewestIdx + 1, Len(log)) IN
               Over(r.f, r.w) = Expected(Len(log))
=============================================================================
