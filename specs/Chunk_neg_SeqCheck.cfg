SPECIFICATION Spec
CONSTANTS
  MaxS = 3
  EofWithDataSeen = FALSE
  LastWhenFinished = FALSE
  StreamIdCheck = TRUE
  SeqCheck = FALSE
INVARIANTS NoWrongContent
