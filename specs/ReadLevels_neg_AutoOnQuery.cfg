SPECIFICATION Spec
CONSTANTS
  WeakNeedsLeader = TRUE
  AutoOnQuery = FALSE
  AutoOnUnified = TRUE
  StaleByContact = TRUE
  StrictByAppendLag = TRUE
  MaxT = 3
INVARIANT Inv
