# Regenerates the CDC_*.cfg files (exhaustive configurations, negative controls, liveness): python3 specs/CDC_gencfg.py
import os
D=os.path.dirname(os.path.abspath(__file__))
SW=["OneGroupPerEntry","LabelEveryGroup","KeyByHighest","SyncFlushBeforeSnapshot","DrainInBeforeSync","HWMAfterSendOK","PruneToHWMOnly","RewindCursor","RestartHWMBelowLowest","DropReapplied"]
base=dict(Node="{n1, n2}",MaxIdx=3,Multi="{2}",BatchSz=2,InCap=0,AsyncHWM="FALSE",MaxFlips=99,MaxLeaders=1,MaxRestarts=1,MaxSnaps=1,MaxDowns=99)
def cfg(name, spec="Spec", invs="TypeOK Labelled NoSkip TenureOrder TakenStored KeysBounded", sym=True, props=None, comment="", **kw):
    c=dict(base); c.update({k:v for k,v in kw.items() if k not in SW})
    sw={s:"TRUE" for s in SW}; sw.update({k:v for k,v in kw.items() if k in SW})
    out=[]
    if comment: out.append("\\* "+comment)
    out.append("SPECIFICATION "+spec); out.append("CONSTANTS")
    for k in ["Node","MaxIdx","Multi","BatchSz","InCap","AsyncHWM","MaxFlips","MaxLeaders","MaxRestarts","MaxSnaps","MaxDowns"]:
        out.append("  %s = %s"%(k,c[k]))
    for s in SW: out.append("  %s = %s"%(s,sw[s]))
    if sym and "," in c["Node"]: out.append("SYMMETRY Sym")
    if invs: out.append("INVARIANTS "+invs)
    if props: out.append("PROPERTIES "+props)
    open(os.path.join(D,name),"w").write("\n".join(out)+"\n")
# exhaustive configurations
cfg("CDC_mc.cfg", comment="quick: 2 nodes, 3 entries, batch size 2, endpoint down/up and leadership changes unlimited, no restart", MaxRestarts=0, MaxSnaps=0)
cfg("CDC_mc_restart.cfg", comment="quick: 2 nodes, 2 entries, 1 restart, 1 snapshot sync, <=2 leadership changes, endpoint up", MaxIdx=2, MaxFlips=2, MaxDowns=0)
cfg("CDC_mc_chan.cfg", comment="quick: 2 nodes, 2 entries, separate in-channel, asynchronous HWM updates, <=2 leadership changes, no restart", MaxIdx=2, InCap=2, AsyncHWM="TRUE", MaxRestarts=0, MaxSnaps=0, MaxFlips=2, MaxDowns=0)
cfg("CDC_mc_restart2.cfg", comment="thorough: 2 nodes, 2 entries, 1 restart, 1 snapshot sync, separate in-channel, asynchronous HWM updates", MaxIdx=2, InCap=2, AsyncHWM="TRUE")
cfg("CDC_live1.cfg", spec="LiveSpec", invs="", sym=False, props="Live", comment="quick liveness: 1 node, 2 entries, <=2 tenures, 1 outage, 1 restart", Node="{n1}", MaxIdx=2, MaxFlips=2, MaxDowns=1, MaxRestarts=1, MaxSnaps=1)
cfg("CDC_mc_full.cfg", comment="thorough: 2 nodes, 3 entries, 1 restart, 1 snapshot sync")
cfg("CDC_mc_async.cfg", comment="thorough: 2 nodes, 3 entries, asynchronous HWM updates (stale values), in-channel, <=3 leadership changes", InCap=2, AsyncHWM="TRUE", MaxRestarts=0, MaxSnaps=0, MaxFlips=3)
cfg("CDC_mc_3n.cfg", comment="thorough: 3 nodes, 2 entries, two simultaneous leader loops, no restart", Node="{n1, n2, n3}", MaxIdx=2, MaxLeaders=2, MaxRestarts=0, MaxSnaps=0)
cfg("CDC_mc_4e.cfg", comment="thorough: 2 nodes, 4 entries, <=3 leadership changes, 1 endpoint outage, no restart", MaxIdx=4, MaxRestarts=0, MaxSnaps=0, MaxFlips=3, MaxDowns=1)
cfg("CDC_live.cfg", spec="LiveSpec", invs="", sym=False, props="Live", comment="liveness on a small fair configuration: 2 nodes, 2 entries, <=2 leadership changes, 1 outage, 1 restart", MaxIdx=2, MaxFlips=2, MaxDowns=1, MaxRestarts=1, MaxSnaps=1)
# negative controls: the smallest configuration in which the mechanism matters
one=dict(Node="{n1}")
cfg("CDC_neg_OneGroupPerEntry.cfg", OneGroupPerEntry="FALSE", MaxIdx=2, InCap=2, MaxRestarts=0, MaxSnaps=0, MaxDowns=0, **one)
cfg("CDC_neg_LabelEveryGroup.cfg", OneGroupPerEntry="FALSE", LabelEveryGroup="FALSE", MaxIdx=2, MaxRestarts=0, MaxSnaps=0, MaxDowns=0, **one)
cfg("CDC_neg_KeyByHighest.cfg", KeyByHighest="FALSE", MaxRestarts=0, MaxSnaps=0, MaxDowns=0, MaxFlips=2)
cfg("CDC_neg_SyncFlushBeforeSnapshot.cfg", SyncFlushBeforeSnapshot="FALSE", MaxIdx=2, MaxDowns=0, **one)
cfg("CDC_neg_DrainInBeforeSync.cfg", DrainInBeforeSync="FALSE", MaxIdx=2, InCap=2, MaxDowns=0, **one)
cfg("CDC_neg_HWMAfterSendOK.cfg", HWMAfterSendOK="FALSE", MaxIdx=1, MaxRestarts=0, MaxSnaps=0, **one)
cfg("CDC_neg_PruneToHWMOnly.cfg", PruneToHWMOnly="FALSE", MaxRestarts=0, MaxSnaps=0, MaxDowns=0, **one)
cfg("CDC_neg_RewindCursor.cfg", RewindCursor="FALSE", MaxIdx=2, MaxRestarts=0, MaxSnaps=0, MaxDowns=0, **one)
cfg("CDC_neg_RestartHWMBelowLowest.cfg", RestartHWMBelowLowest="FALSE", MaxIdx=2, MaxSnaps=0, MaxDowns=0, **one)
cfg("CDC_neg_DropReapplied.cfg", DropReapplied="FALSE", MaxSnaps=0, MaxDowns=0, **one)
cfg("CDC_neg_live_RewindCursor.cfg", spec="LiveSpec", invs="", sym=False, props="Live", RewindCursor="FALSE", MaxIdx=2, MaxFlips=2, MaxDowns=0, MaxRestarts=0, MaxSnaps=0, **one)
