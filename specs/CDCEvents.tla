----------------------------- MODULE CDCEvents -----------------------------
(* rqlite change-data-capture event production: db/db.go RegisterPreUpdateHook (conversion,   *)
(* table filter, row-ids-only), db/cdc.go CDCStreamer (PreupdateHook appends to `pending`,     *)
(* CommitHook flushes `pending` as ONE group, Reset per request / log entry), driven by the   *)
(* statement loop of db.Execute / db.Request (request-level transaction flag, rollback on     *)
(* failure) over SQLite's statement- and transaction-level atomicity.                          *)
(*                                                                                             *)
(* A session is a sequence of requests; a request is [tx, s] with s a sequence of statements  *)
(* [op, t, r, r2] over tables "a" (rowid alias, matches the table filter) and "b" (implicit   *)
(* rowid, does not match).  Row contents are abstracted to a token (the number of the          *)
(* statement that wrote the row; 101/201 for the initial rows); 0 = no row.                    *)
(* `Exec` is the step function for one statement (pure, shared by the step-by-step actions,    *)
(* the program evaluator RunSess and TraceCDCEvents).  `gw`/`truth` are ghost variables: the   *)
(* row changes of the surviving (not undone) work of the open transaction / of all commits,    *)
(* kept with perfect undo; `pend`/`out` are the streamer's pending list and delivered groups.  *)
(* Switches (TRUE = design): DropRolledBack (statement rollback, ROLLBACK, ROLLBACK TO drop    *)
(* the pending events of the undone work), GroupPerCommit (every commit flushes one group),    *)
(* FilterTables, IdsOnly.                                                                      *)
EXTENDS Naturals, Sequences, FiniteSets, TLC, Json

CONSTANTS MaxLen, MaxReq, MaxRow,       \* statements per session, requests per session, rowids 1..MaxRow
          AOps, BOps, CtlOps,           \* statement classes generated for table a / table b / control
          TxModes, Trigs, Filters, Idss,\* request tx flags; trigger / filter / ids-only settings explored
          DropRolledBack, GroupPerCommit, FilterTables, IdsOnly

Tables == {"a", "b"}
Match  == {"a"}                         \* tables matching the filter regex when the filter is configured
Rows   == 1..MaxRow
DMLOps == {"ins", "insm", "upd", "updall", "updfail", "updkey", "del", "delall", "repl", "upsert"}
TxCtl  == {"begin", "commit", "rollback"}
SpCtl  == {"savepoint", "release", "rollbackto"}

DB0 == [t \in Tables |-> [r \in Rows |-> IF r = 1 THEN (IF t = "a" THEN 101 ELSE 201) ELSE 0]]
St0 == [db |-> DB0, cdb |-> DB0, open |-> FALSE, mode |-> "none", wr |-> FALSE, sp |-> <<>>,
        pend |-> <<>>, gw |-> <<>>, out |-> <<>>, truth |-> <<>>, n |-> 0, stop |-> FALSE, rtx |-> FALSE,
        sk |-> 0,                 \* statements not executed because the transactional request had failed
        kp |-> {}, stale |-> {}]  \* kinds of undone work whose events are kept in `pend` / were delivered (only when
                                  \* a Drop switch is off; "tx" = in a request with the transaction flag)

E(op, t, o, n, ov, nv) == [op |-> op, t |-> t, o |-> o, n |-> n, ov |-> ov, nv |-> nv]

(* ---- the preupdate hook: filter, ids-only, append to pending ---- *)
Visible(c, ev) == ~(c.cfilter /\ c.filt) \/ ev.t \in Match
Proj(c, ev)    == IF c.cids /\ c.ids THEN [ev EXCEPT !.ov = 0, !.nv = 0] ELSE ev
Hook(c, st, ev) == [st EXCEPT !.gw = Append(@, ev),
                              !.pend = IF Visible(c, ev) THEN Append(@, Proj(c, ev)) ELSE @]

(* ---- row-level changes (each fires the hook once; triggers of table a when configured) ---- *)
Has(st, t, r) == st.db[t][r] # 0
DelRowNoTrig(c, st, t, r) == Hook(c, [st EXCEPT !.db[t][r] = 0], E("D", t, r, 0, st.db[t][r], 0))
(* rep: the statement is INSERT OR REPLACE, which also overrides the OR IGNORE of the trigger's insert *)
InsRow(c, st, t, r, v, rep) ==
  LET s1 == Hook(c, [st EXCEPT !.db[t][r] = v], E("I", t, 0, r, 0, v)) IN
  IF c.trig /\ t = "a"                                      \* AFTER INSERT ON a: INSERT OR IGNORE INTO b
  THEN IF s1.db["b"][r] = 0 THEN Hook(c, [s1 EXCEPT !.db["b"][r] = v], E("I", "b", 0, r, 0, v))
       ELSE IF rep THEN LET s2 == DelRowNoTrig(c, s1, "b", r) IN
                        Hook(c, [s2 EXCEPT !.db["b"][r] = v], E("I", "b", 0, r, 0, v))
       ELSE s1
  ELSE s1
DelRow(c, st, t, r) ==
  LET s1 == DelRowNoTrig(c, st, t, r) IN
  IF c.trig /\ t = "a" /\ s1.db["b"][r] # 0                \* AFTER DELETE ON a: DELETE FROM b WHERE rowid = old.id
  THEN DelRowNoTrig(c, s1, "b", r) ELSE s1
UpdRow(c, st, t, r, r2, v) ==
  Hook(c, [st EXCEPT !.db[t] = [x \in Rows |-> IF x = r2 THEN v ELSE IF x = r THEN 0 ELSE st.db[t][x]]],
       E("U", t, r, r2, st.db[t][r], v))

OK(st) == [st |-> st, ok |-> TRUE]
KO(st) == [st |-> st, ok |-> FALSE]
RECURSIVE UpdFrom(_, _, _, _, _, _)
(* rows in rowid order; k # 0: the row with the first rowid >= k violates NOT NULL *)
UpdFrom(c, st, t, r, k, v) ==
  IF r > MaxRow THEN OK(st)
  ELSE IF ~Has(st, t, r) THEN UpdFrom(c, st, t, r + 1, k, v)
  ELSE IF k # 0 /\ r >= k THEN KO(st)
  ELSE UpdFrom(c, UpdRow(c, st, t, r, r, v), t, r + 1, k, v)
RECURSIVE DelFrom(_, _, _, _)
DelFrom(c, st, t, r) ==
  IF r > MaxRow THEN st ELSE DelFrom(c, IF Has(st, t, r) THEN DelRow(c, st, t, r) ELSE st, t, r + 1)

(* one DML statement: the state after the rows it touched (events appended) and whether it succeeded *)
RunDML(c, st, s, v) ==
  LET t == s.t  r == s.r  r2 == s.r2 IN
  CASE s.op = "ins"     -> IF Has(st, t, r) THEN KO(st) ELSE OK(InsRow(c, st, t, r, v, FALSE))
    [] s.op = "insm"    -> IF Has(st, t, r) THEN KO(st)
                           ELSE LET s1 == InsRow(c, st, t, r, v, FALSE) IN
                                IF Has(s1, t, r2) THEN KO(s1) ELSE OK(InsRow(c, s1, t, r2, v, FALSE))
    [] s.op = "upd"     -> IF Has(st, t, r) THEN OK(UpdRow(c, st, t, r, r, v)) ELSE OK(st)
    [] s.op = "updall"  -> UpdFrom(c, st, t, 1, 0, v)
    [] s.op = "updfail" -> UpdFrom(c, st, t, 1, r, v)
    [] s.op = "updkey"  -> IF ~Has(st, t, r) THEN OK(st)
                           ELSE IF Has(st, t, r2) THEN KO(st) ELSE OK(UpdRow(c, st, t, r, r2, v))
    [] s.op = "del"     -> IF Has(st, t, r) THEN OK(DelRow(c, st, t, r)) ELSE OK(st)
    [] s.op = "delall"  -> OK(DelFrom(c, st, t, 1))
    [] s.op = "repl"    -> OK(InsRow(c, IF Has(st, t, r) THEN DelRowNoTrig(c, st, t, r) ELSE st, t, r, v, TRUE))
    [] s.op = "upsert"  -> IF Has(st, t, r) THEN OK(UpdRow(c, st, t, r, r, v)) ELSE OK(InsRow(c, st, t, r, v, FALSE))

(* ---- commit hook / transaction end ---- *)
Flush(c, st) == IF c.group THEN [st EXCEPT !.out = IF st.pend # <<>> THEN Append(@, st.pend) ELSE @, !.pend = <<>>,
                                           !.stale = IF st.pend # <<>> THEN @ \cup st.kp ELSE @, !.kp = {}]
                ELSE st
Commit(c, st) ==
  LET s1 == IF st.wr THEN Flush(c, st) ELSE st IN            \* SQLite calls the hook for write transactions only
  [s1 EXCEPT !.truth = IF st.gw # <<>> THEN Append(@, st.gw) ELSE @, !.gw = <<>>,
             !.cdb = st.db, !.open = FALSE, !.mode = "none", !.sp = <<>>, !.wr = FALSE]
Kind(k, st) == IF st.rtx THEN {k, "tx"} ELSE {k}
Rollback(c, st) ==
  [st EXCEPT !.db = st.cdb, !.gw = <<>>, !.pend = IF c.dtxn THEN <<>> ELSE @,
             !.kp = IF c.dtxn THEN {} ELSE IF st.gw # <<>> THEN @ \cup Kind("txn", st) ELSE @,
             !.open = FALSE, !.mode = "none", !.sp = <<>>, !.wr = FALSE]
(* a failed statement: a transactional request rolls back and stops; otherwise the loop carries on *)
Fail(c, st) == IF st.open /\ st.rtx THEN [Rollback(c, st) EXCEPT !.stop = TRUE] ELSE st

ExecDML(c, st, s) ==
  LET r == RunDML(c, st, s, st.n) IN
  IF r.ok
  THEN LET s1 == [r.st EXCEPT !.wr = TRUE] IN IF st.open THEN s1 ELSE Commit(c, s1)
  ELSE LET auto == ~st.open                       \* autocommit: the failure rolls the whole transaction back,
           keep == IF auto THEN ~c.dstmt /\ ~c.dtxn  \* which also runs SQLite's rollback hook
                   ELSE ~c.dstmt IN
       Fail(c, [st EXCEPT !.pend = IF keep THEN r.st.pend ELSE IF auto /\ c.dtxn THEN <<>> ELSE @,
                          !.kp = IF keep /\ r.st.gw # st.gw
                                 THEN @ \cup Kind(IF auto THEN "statement-autocommit" ELSE "statement-in-txn", st)
                                 ELSE IF auto /\ c.dtxn THEN {} ELSE @,
                          !.wr = st.open])

Exec(c, st0, s) ==
  LET st == [st0 EXCEPT !.n = @ + 1] IN
  IF st.stop THEN [st EXCEPT !.sk = @ + 1]
  ELSE CASE s.op \in DMLOps     -> ExecDML(c, st, s)
         [] s.op = "failprep"   -> Fail(c, st)
         [] s.op = "begin"      -> IF st.open THEN Fail(c, st)
                                   ELSE [st EXCEPT !.open = TRUE, !.mode = "tx", !.wr = FALSE]
         [] s.op = "commit"     -> IF st.open THEN Commit(c, st) ELSE Fail(c, st)
         [] s.op = "rollback"   -> IF st.open THEN Rollback(c, st) ELSE Fail(c, st)
         [] s.op = "savepoint"  -> LET snap == [db |-> st.db, pl |-> Len(st.pend), gl |-> Len(st.gw)] IN
                                   IF st.open THEN [st EXCEPT !.sp = Append(@, snap)]
                                   ELSE [st EXCEPT !.open = TRUE, !.mode = "sp", !.wr = FALSE, !.sp = <<snap>>]
         [] s.op = "release"    -> IF st.sp = <<>> THEN Fail(c, st)
                                   ELSE IF Len(st.sp) = 1 /\ st.mode = "sp" THEN Commit(c, st)
                                   ELSE [st EXCEPT !.sp = SubSeq(@, 1, Len(@) - 1)]
         [] s.op = "rollbackto" -> IF st.sp = <<>> THEN Fail(c, st)
                                   ELSE LET top == st.sp[Len(st.sp)] IN
                                        [st EXCEPT !.db = top.db, !.gw = SubSeq(@, 1, top.gl),
                                                   !.pend = IF c.dsp THEN SubSeq(@, 1, top.pl) ELSE @,
                                                   !.kp = IF ~c.dsp /\ Len(st.gw) > top.gl THEN @ \cup Kind("savepoint", st) ELSE @]

StartReq(c, st, tx) == [st EXCEPT !.pend = <<>>, !.kp = {},      \* Reset(index)
                                  !.rtx = tx, !.stop = FALSE, !.open = tx, !.mode = IF tx THEN "tx" ELSE "none",
                                  !.wr = FALSE, !.sp = <<>>]
EndReq(c, st) ==
  LET s1 == IF st.rtx /\ st.open THEN Commit(c, st) ELSE st
      s2 == IF ~c.group /\ s1.pend # <<>> THEN [s1 EXCEPT !.out = Append(@, s1.pend), !.pend = <<>>] ELSE s1
  IN [s2 EXCEPT !.rtx = FALSE, !.stop = FALSE]

(* ---- evaluator of a whole session (used by the trace spec and for programs given from outside) ---- *)
RECURSIVE RunStmts(_, _, _, _)
RunStmts(c, st, ss, i) == IF i > Len(ss) THEN st ELSE RunStmts(c, Exec(c, st, ss[i]), ss, i + 1)
RECURSIVE RunReqs(_, _, _, _)
RunReqs(c, st, rs, i) ==
  IF i > Len(rs) THEN st
  ELSE RunReqs(c, EndReq(c, RunStmts(c, StartReq(c, st, rs[i].tx), rs[i].s, 1)), rs, i + 1)
RunSess(c, rs) == RunReqs(c, St0, rs, 1)
Ctx(dstmt, dtxn, dsp, group, filt, ids, cf) ==
  [dstmt |-> dstmt, dtxn |-> dtxn, dsp |-> dsp, group |-> group, filt |-> filt, ids |-> ids,
   trig |-> cf.trig, cfilter |-> cf.filter, cids |-> cf.ids]
(* db/cdc.go as written: which kinds of undone work have their pending events dropped.       *)
(* RollbackHook (whole-transaction rollback, including the automatic one after a statement    *)
(* fails in autocommit mode) drops them; nothing tells the streamer about a statement that     *)
(* fails inside an open transaction or about ROLLBACK TO.                                      *)
AsIsStmt == FALSE
AsIsTxn  == TRUE
AsIsSp   == FALSE

----------------------------------------------------------------------------
(* step-by-step exploration: every session within the bounds is one behaviour *)
VARIABLES st,      \* the design (switches as configured)
          sa,      \* the same session with the streamer as written in db/cdc.go (AsIs* below)
          sess, cfg, phase
vars == <<st, sa, sess, cfg, phase>>
View == <<st, sa, cfg, phase, Len(sess)>>
CD == Ctx(DropRolledBack, DropRolledBack, DropRolledBack, GroupPerCommit, FilterTables, IdsOnly, cfg)
CA == Ctx(AsIsStmt, AsIsTxn, AsIsSp, GroupPerCommit, FilterTables, IdsOnly, cfg)

Init == /\ st = St0 /\ sa = St0 /\ sess = <<>> /\ phase = "idle"
        /\ cfg \in [trig : Trigs, filter : Filters, ids : Idss]

StartRequest == /\ phase = "idle" /\ Len(sess) < MaxReq /\ st.n < MaxLen
                /\ \E tx \in TxModes : /\ st' = StartReq(CD, st, tx) /\ sa' = StartReq(CA, sa, tx)
                                       /\ sess' = Append(sess, [tx |-> tx, s |-> <<>>])
                /\ phase' = "req" /\ UNCHANGED cfg
Do(s) == /\ phase = "req" /\ st.n < MaxLen
         /\ st' = Exec(CD, st, s) /\ sa' = Exec(CA, sa, s)
         /\ sess' = [sess EXCEPT ![Len(sess)].s = Append(@, s)]
         /\ UNCHANGED <<cfg, phase>>
S(op, t, r, r2) == [op |-> op, t |-> t, r |-> r, r2 |-> r2]
OpsOf(t) == IF t = "a" THEN AOps ELSE BOps
Live == phase = "req" /\ ~st.stop
DoIns     == Live /\ \E t \in Tables, r \in Rows : "ins" \in OpsOf(t) /\ Do(S("ins", t, r, 0))
DoInsMany == Live /\ \E t \in Tables, r \in Rows, r2 \in Rows : "insm" \in OpsOf(t) /\ r # r2 /\ Do(S("insm", t, r, r2))
DoUpd     == Live /\ \E t \in Tables, r \in Rows : "upd" \in OpsOf(t) /\ Do(S("upd", t, r, 0))
DoUpdAll  == Live /\ \E t \in Tables : "updall" \in OpsOf(t) /\ Do(S("updall", t, 0, 0))
DoUpdFail == Live /\ \E t \in Tables, r \in Rows : "updfail" \in OpsOf(t) /\ Do(S("updfail", t, r, 0))
DoUpdKey  == Live /\ \E t \in Tables, r \in Rows, r2 \in Rows : "updkey" \in OpsOf(t) /\ r # r2 /\ Do(S("updkey", t, r, r2))
DoDel     == Live /\ \E t \in Tables, r \in Rows : "del" \in OpsOf(t) /\ Do(S("del", t, r, 0))
DoDelAll  == Live /\ \E t \in Tables : "delall" \in OpsOf(t) /\ Do(S("delall", t, 0, 0))
DoReplace == Live /\ \E t \in Tables, r \in Rows : "repl" \in OpsOf(t) /\ Do(S("repl", t, r, 0))
DoUpsert  == Live /\ \E t \in Tables, r \in Rows : "upsert" \in OpsOf(t) /\ Do(S("upsert", t, r, 0))
DoFailPrep == Live /\ "failprep" \in CtlOps /\ Do(S("failprep", "a", 0, 0))
DoTxCtl   == Live /\ ~st.rtx /\ \E op \in TxCtl \cap CtlOps : Do(S(op, "a", 0, 0))
DoSpCtl   == Live /\ \E op \in SpCtl \cap CtlOps : (op = "savepoint" => Len(st.sp) < 2) /\ Do(S(op, "a", 0, 0))
(* statements after the failure of a transactional request are not executed *)
Skipped   == phase = "req" /\ st.stop /\ Do(S("ins", "a", MaxRow, 0))
EndRequest == /\ phase = "req" /\ sess[Len(sess)].s # <<>> /\ (st.rtx \/ ~st.open)
              /\ st' = EndReq(CD, st) /\ sa' = EndReq(CA, sa) /\ phase' = "idle" /\ UNCHANGED <<sess, cfg>>
Next == \/ StartRequest \/ EndRequest \/ Skipped
        \/ DoIns \/ DoInsMany \/ DoUpd \/ DoUpdAll \/ DoUpdFail \/ DoUpdKey \/ DoDel \/ DoDelAll
        \/ DoReplace \/ DoUpsert \/ DoFailPrep \/ DoTxCtl \/ DoSpCtl
Spec == Init /\ [][Next]_vars

----------------------------------------------------------------------------
(* the property *)
PD == [cfilter |-> cfg.filter, filt |-> TRUE, cids |-> cfg.ids, ids |-> TRUE]     \* projection as designed
ProjSeq(c, g) == LET vis == SelectSeq(g, LAMBDA e : Visible(c, e)) IN [i \in 1..Len(vis) |-> Proj(c, vis[i])]
ProjGroups(c, gs) == SelectSeq([i \in 1..Len(gs) |-> ProjSeq(c, gs[i])], LAMBDA g : g # <<>>)

(* delivered groups = the row changes of the committed work, per commit, in order; nothing else *)
Exact   == st.out = ProjGroups(PD, st.truth)
(* the pending list holds exactly the changes of the surviving work of the open transaction *)
NoStale == st.pend = ProjSeq(PD, st.gw)
(* the ghost is sound: replaying the committed changes over the initial rows gives the committed rows *)
RECURSIVE Replay(_, _, _)
Replay(d, evs, i) ==
  IF i > Len(evs) \/ ~d.ok THEN d
  ELSE LET e == evs[i]  cur == d.db[e.t] IN
       Replay(CASE e.op = "I" -> [ok |-> cur[e.n] = 0, db |-> [d.db EXCEPT ![e.t][e.n] = e.nv]]
                [] e.op = "D" -> [ok |-> cur[e.o] = e.ov /\ e.ov # 0, db |-> [d.db EXCEPT ![e.t][e.o] = 0]]
                [] e.op = "U" -> [ok |-> cur[e.o] = e.ov /\ e.ov # 0 /\ (e.n = e.o \/ cur[e.n] = 0),
                                  db |-> [d.db EXCEPT ![e.t] = [x \in Rows |-> IF x = e.n THEN e.nv ELSE IF x = e.o THEN 0 ELSE cur[x]]]],
              evs, i + 1)
RECURSIVE Flat(_, _)
Flat(gs, i) == IF i > Len(gs) THEN <<>> ELSE gs[i] \o Flat(gs, i + 1)
DiffSound == LET d == Replay([ok |-> TRUE, db |-> DB0], Flat(st.truth, 1), 1) IN d.ok /\ d.db = st.cdb
Quiescent == ~st.open => st.db = st.cdb /\ st.gw = <<>>
(* the transaction structure does not depend on the switch *)
SameShape == st.db = sa.db /\ st.cdb = sa.cdb /\ st.open = sa.open /\ st.truth = sa.truth /\ st.stop = sa.stop

(* generator: every completed session with the delivered groups under the design and as written *)
EmitCase == (phase = "idle" /\ sess # <<>>) =>
              PrintT(<<"@@", ToJson([trig |-> cfg.trig, sess |-> sess, want |-> st.out, asis |-> sa.out, stale |-> sa.stale, sk |-> st.sk])>>)
=============================================================================
