SPECIFICATION Spec
CONSTANTS
  NWals = 2
  VerifyBeforeFirstUse = TRUE
  VerifyAtStartRestore = TRUE
  HeaderCarriesRecordedCRC = FALSE
  ReceiverRecomputes = TRUE
  VerifyBeforeConsolidate = TRUE
INVARIANTS RunCorruptionNeverServed
