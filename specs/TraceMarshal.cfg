SPECIFICATION TSpec
CONSTANTS
  BatchThreshold = TRUE
  SizeThreshold = TRUE
  OnlyIfSmallerOrForced = TRUE
  DecompressOnFlag = TRUE
  CountFlagOverhead = FALSE
  ParamKinds = {"none", "int-zero", "int-pos", "int-neg", "int-min", "int-max", "float", "float-nan", "float-inf", "float-neginf", "float-negzero", "float-tiny", "bool-true", "bool-false", "bytes-nil", "bytes-empty", "bytes-small", "bytes-large", "string-empty", "string-ascii", "string-emoji", "string-nul", "string-quote", "named", "named-novalue", "unset", "mixed", "many", "badutf8-sql", "badutf8-param", "badutf8-name"}
  InvalidKinds = {"badutf8-sql", "badutf8-param", "badutf8-name", "badutf8"}
  OtherKinds = {"empty", "small", "large-compressible", "large-random", "gzip-lookalike", "extremes", "badutf8"}
  MaxReqs = 1000000
INVARIANTS RoundTrip UsefulOnly FlagOnlyForRequests FlagMatchesBody StatsPartition
CONSTRAINT HW
POSTCONDITION Accepted
CHECK_DEADLOCK FALSE
