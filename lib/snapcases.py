"""Turn behaviours of SnapshottingGen.tla (history of action labels) into cases for the harness
`snap-replay` (process lives with scripts).  Behaviours the harness cannot realise exactly
(operations between fsm.Snapshot and the data persist, or at two different points of one snapshot)
return None and are counted as skipped."""


def hist_to_case(hist, cid, final_restore=False):
    phases, ops = [], []
    pend = None
    recover_next = False

    def end_phase():
        nonlocal ops, recover_next
        phases.append({"script": ",".join(ops), "crash": "", "recover": recover_next, "rmfp": False})
        ops = []
        recover_next = False

    def render(stage, kill=False):
        # stage: where the snapshot is when it ends (close) or when the process is killed
        pre, mid, post = pend["pre"], pend["mid"], pend["post"]
        if pre:
            return None
        if mid and (post or (kill and stage == "finalized")):
            return None
        if kill:
            if stage in ("taken", "persisted"):
                return "s[snap.persisted:%s]" % ";".join(mid + ["x"])
            return "s[snap.finalized:%s]" % ";".join(post + ["x"])
        if mid:
            return "s[snap.persisted:%s]" % ";".join(mid)
        if post:
            return "s[snap.finalized:%s]" % ";".join(post)
        return "s"

    for h in hist:
        a = h["a"]
        if a in ("w", "L"):
            op = "L" if a == "L" else "w:" + "".join(sorted(h["pages"]))
            if pend is None:
                ops.append(op)
            else:
                pend[{"taken": "pre", "persisted": "mid", "finalized": "post"}[pend["stage"]]].append(op)
        elif a == "take":
            pend = {"stage": "taken", "pre": [], "mid": [], "post": []}
        elif a == "persist":
            if not h.get("ok", True):
                if pend["pre"]:
                    return None
                ops.append("s")          # the sink refuses the incremental stream: Persist fails
                pend = None
            else:
                pend["stage"] = "persisted"
        elif a == "final":
            pend["stage"] = "finalized"
        elif a == "close":
            r = render("closed")
            if r is None:
                return None
            ops.append(r)
            pend = None
        elif a == "notinv":
            if pend["pre"]:
                return None
            ops.append("sn")
            pend = None
        elif a == "reap":
            if pend is not None:
                return None
            ops.append("r")
        elif a == "crash":
            if pend is None:
                ops.append("x")
            else:
                r = render(pend["stage"], kill=True)
                if r is None:
                    return None
                ops.append(r)
                pend = None
            end_phase()
        elif a == "stop":
            ops.append("c")
            end_phase()
        elif a == "open":
            recover_next = bool(h.get("recover"))
    if pend is not None:
        return None
    ops.append("c")
    end_phase()
    if final_restore:
        phases.append({"script": "c", "crash": "", "recover": False, "rmfp": True})
    return {"id": cid, "phases": phases}


def describe(case):
    return " | ".join(("R:" if p.get("recover") else "") + ("F:" if p.get("rmfp") else "") + p["script"] + (("!" + p["crash"]) if p["crash"] else "")
                      for p in case["phases"])


# ---------------------------------------------------------------- running cases on the real store
import json, os, random, re


def kill_kind(script):
    m = re.search(r"s\[snap\.(persisted|finalized):[^\]]*x\]", script)
    if m:
        return "in-snapshot-after-" + m.group(1)
    return "at-op-boundary" if script.endswith("x") else "none"


def run_cases(ctx, vlib, cases, what, prefix, selftest=True):
    """Replay cases on real single-node stores (child processes) and validate the trace with
    TraceSnapshotting.tla.  Violation keys: <prefix>:<condition>:after=<how the previous life ended>:
    recover=..:fast=.."""
    inp = os.path.join(ctx.scratch, "%s.cases.ndjson" % prefix)
    tr = os.path.join(ctx.scratch, "%s.trace.ndjson" % prefix)
    vlib.write_nd(inp, cases)
    port = 21000 + (os.getpid() % 300) * 24
    p = ctx.run_harness(["snap-replay", "-in", inp, "-out", tr, "-dir", ctx.sub(prefix + "-work"), "-par", str(ctx.pick(5, 8)),
                         "-port", str(port)], timeout=3300)
    st = json.loads(p.stdout.strip().splitlines()[-1])
    rows = vlib.read_nd(tr)
    byid = {c["id"]: c for c in cases}
    # harness faults (worker died for another reason than the scripted kill) make the run undecided, not a violation
    broken = [r for r in rows if r.get("ev") == "end" and r.get("exit") not in (0, 86)]
    hard = [r for r in broken if "openfail" not in [x.get("ev") for x in rows[max(0, rows.index(r) - 3):rows.index(r)]]]
    # ... unless the trace of what did run already shows a violation (judged below; every verdict there is about
    # what the real store returned)
    too_many = len(hard) > max(2, len(cases) // 20)

    def key(bad, name):
        i = rows.index(bad) if bad in rows else 0
        cid, ph = None, bad.get("phase", 0)
        while i >= 0:
            if rows[i].get("ev") == "reset":
                cid = rows[i].get("case")
                break
            i -= 1
        c = byid.get(cid, {"phases": []})
        prev = c["phases"][ph - 1]["script"] if 0 < ph <= len(c["phases"]) else ""
        hadload = any("L" in p["script"].replace("LB", "") or "B" in p["script"].replace("LB", "").split(",") for p in c["phases"][:ph + 1])
        k = "%s:%s:after=%s:recover=%s:fast=%s:load=%s" % (prefix, name or "rejected", kill_kind(prev), bool(bad.get("recover")),
                                                     bool(bad.get("fast")), hadload)
        if bad.get("ev") == "openfail":
            e = str(bad.get("err", ""))
            cause = ("reap-lock" if "MSRW conflict" in e else "leftover-wal" if "existing WAL file present" in e
                     else "restore-failed" if "failed to load any existing snapshots" in e else "other")
            # is this life a recovery (peers.json written before it)?
            rec = bool(c["phases"][ph].get("recover")) if 0 <= ph < len(c["phases"]) else False
            k = "%s:node-does-not-start:cause=%s:recovering=%s:after=%s" % (prefix, cause, rec, kill_kind(prev))
        return k

    def corrupt(rs):
        # a restart that comes back with one write applied twice
        for r in rs:
            if r.get("ev") == "open" and r.get("phase", 0) > 0 and r.get("rows", 0) > 0:
                r["rows"] += 1
                r["pages"] = [v + 1 for v in r["pages"]]
                return rs
        raise vlib.Undecided("no reopen to corrupt")
    vlib.trace_check(ctx, "TraceSnapshotting", "TraceSnapshotting.cfg", tr, what, key_fn=key,
                     selftest=corrupt if selftest else None, timeout=1800)
    if too_many and not ctx.violations:
        raise vlib.Undecided("%d worker lives ended abnormally, e.g. %s" % (len(hard), hard[0]))
    st["lives"] = sum(len(c["phases"]) for c in cases)
    st["reopens"] = sum(1 for r in rows if r.get("ev") == "open" and r.get("phase", 0) > 0)
    st["fast_reopens"] = sum(1 for r in rows if r.get("ev") == "open" and r.get("fast"))
    st["kills"] = sum(1 for r in rows if r.get("ev") == "end" and r.get("exit") == 86)
    st["abnormal_lives"] = len(broken)
    return st, rows


def generated(ctx, vlib, cfg, want, pred, final_restore=False, seed_extra=0):
    """TLC-generated behaviours (SnapshottingGen) converted to cases; `pred(hist)` selects the family."""
    raw, r = vlib.tlc_cases(ctx, "SnapshottingGen", cfg, timeout=1500, heap="8g")
    conv, skipped = [], 0
    for i, x in enumerate(raw):
        if not pred(x["hist"]):
            continue
        c = hist_to_case(x["hist"], "g%d" % i, final_restore=final_restore)
        if c is None:
            skipped += 1
        else:
            conv.append(c)
    rnd = random.Random(ctx.seed * 7919 + seed_extra)
    # de-duplicate by rendered script, keep a seeded sample
    uniq = {}
    for c in conv:
        uniq.setdefault(describe(c), c)
    pool = sorted(uniq.values(), key=lambda c: c["id"])
    sample = pool if len(pool) <= want else rnd.sample(pool, want)
    return sample, {"tlc_behaviours": len(raw), "in_family": len(conv) + skipped, "unrealisable_skipped": skipped,
                    "distinct_cases": len(pool), "replayed": len(sample)}
