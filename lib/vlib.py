"""Shared machinery for /verif checks: harness build, TLC runs, trace validation,
evidence, known findings, violation reporting.  Python 3 stdlib only."""
import fcntl
import hashlib
import json
import os
import re
import shutil
import subprocess
import sys
import tempfile
import time

ROOT = os.path.dirname(os.path.dirname(os.path.abspath(__file__)))
REPO = os.environ.get("VERIF_REPO", "/repo")
if os.path.exists(os.path.join(ROOT, ".verif_repo")) and "VERIF_REPO" not in os.environ:
    # development worktrees of /verif are paired with their own worktree of /repo
    REPO = open(os.path.join(ROOT, ".verif_repo")).read().strip()
SPECS = os.path.join(ROOT, "specs")
BUILD = os.environ.get("VERIF_BUILD", os.path.join(ROOT, ".build"))
OUT = os.environ.get("VERIF_OUT", ROOT)      # evidence/ and replays/ go here (seed tests redirect them)
SCRATCH_BASE = os.environ.get("VERIF_SCRATCH", "/var/tmp/verif-scratch")
JAR = "/opt/veriftools/tla/tla2tools.jar:/opt/veriftools/tla/CommunityModules-deps.jar"


class Undecided(Exception):
    """The check could not decide (exit 2): spec error, dead driver, timeout."""


def goenv():
    e = dict(os.environ)
    e["GOFLAGS"] = "-mod=mod"
    e["GOPROXY"] = "off"
    e.pop("GOSUMDB", None)
    e.pop("GOTOOLCHAIN", None)
    return e


def log(*a):
    print("[verif]", *a, file=sys.stderr, flush=True)


# ---------------------------------------------------------------- harness build

def overlay_map():
    rep = {}
    hm = os.path.join(ROOT, "harness", "main")
    for f in sorted(os.listdir(hm)):
        if f.endswith(".go"):
            rep[os.path.join(REPO, "cmd", "verifh", f)] = os.path.join(hm, f)
    ov = os.path.join(ROOT, "harness", "overlay")
    if os.path.isdir(ov):
        for d, _, files in os.walk(ov):
            rel = os.path.relpath(d, ov)
            for f in sorted(files):
                if f.endswith(".go"):
                    rep[os.path.join(REPO, rel, "zz_verif_" + f)] = os.path.join(d, f)
    return rep


def build_harness(race=False):
    """Build the harness binary from /repo's *current working tree* with -tags verif.
    Harness sources live in /verif/harness and are overlaid (go build -overlay), so
    /repo is not touched.  Returns the path of the binary."""
    os.makedirs(BUILD, exist_ok=True)
    name = "verifh-race" if race else "verifh"
    out = os.path.join(BUILD, name)
    lock = open(os.path.join(BUILD, ".lock"), "w")
    fcntl.flock(lock, fcntl.LOCK_EX)
    try:
        ovf = os.path.join(BUILD, "overlay.json")
        with open(ovf, "w") as f:
            json.dump({"Replace": overlay_map()}, f)
        cmd = ["go", "build", "-tags", "verif", "-overlay", ovf, "-o", out]
        if race:
            cmd.append("-race")
        cmd.append("./cmd/verifh")
        t0 = time.time()
        p = subprocess.run(cmd, cwd=REPO, env=goenv(), capture_output=True, text=True)
        if p.returncode != 0:
            raise Undecided("harness build failed:\n" + p.stdout + p.stderr)
        log("harness built in %.1fs" % (time.time() - t0))
    finally:
        fcntl.flock(lock, fcntl.LOCK_UN)
        lock.close()
    return out


# ---------------------------------------------------------------- context

class Ctx:
    def __init__(self, pid, tier, seed, level):
        self.pid = pid
        self.tier = tier
        self.seed = seed
        self.level = level
        self.t0 = time.time()
        os.makedirs(SCRATCH_BASE, exist_ok=True)
        self.scratch = tempfile.mkdtemp(prefix="%s-" % pid, dir=SCRATCH_BASE)
        self.cov = {"samples": []}
        self.assumptions = []
        self.violations = []      # (key, what, artefact dict)
        self.known_printed = []
        self.tlc_runs = []
        self.bin = None

    @property
    def thorough(self):
        return self.tier == "thorough"

    def pick(self, quick, thorough):
        return thorough if self.thorough else quick

    def harness(self, race=False):
        if self.bin is None or race:
            b = build_harness(race)
            if race:
                return b
            self.bin = b
        return self.bin

    def cleanup(self):
        shutil.rmtree(self.scratch, ignore_errors=True)

    def sub(self, name):
        d = os.path.join(self.scratch, name)
        os.makedirs(d, exist_ok=True)
        return d

    # ---- running the Go harness
    def run_harness(self, args, timeout=600, env=None, input=None, check=True, race=False):
        e = goenv()
        e["VERIF_SEED"] = str(self.seed)
        e["VERIF_TIER"] = self.tier
        e["TMPDIR"] = self.sub("tmp")
        if env:
            e.update(env)
        pr = subprocess.Popen([self.harness(race)] + list(args), env=e, stdout=subprocess.PIPE, stderr=subprocess.PIPE,
                              stdin=subprocess.PIPE if input is not None else None, text=True, cwd=self.scratch)
        try:
            so, se = pr.communicate(input=input, timeout=timeout)
            p = subprocess.CompletedProcess(pr.args, pr.returncode, so, se)
        except subprocess.TimeoutExpired:
            # SIGQUIT makes the Go runtime print every goroutine's stack: keep it, a hang has to be explainable
            import signal
            pr.send_signal(signal.SIGQUIT)
            try:
                so, se = pr.communicate(timeout=30)
            except subprocess.TimeoutExpired:
                pr.kill()
                so, se = pr.communicate()
            dump = os.path.join(SCRATCH_BASE, "hang-%s-%s-%d.txt" % (self.pid, args[0], int(time.time())))
            with open(dump, "w") as f:
                f.write(se or "")
            raise Undecided("harness %s timed out after %ss (goroutine dump: %s)" % (args[:2], timeout, dump))
        if check and p.returncode != 0:
            raise Undecided("harness %s failed rc=%d:\n%s\n%s" % (args[:2], p.returncode, p.stdout[-3000:], p.stderr[-6000:]))
        return p

    # ---- coverage bookkeeping
    def add(self, key, n=1):
        self.cov[key] = self.cov.get(key, 0) + n

    def sample(self, s, limit=6):
        if len(self.cov["samples"]) < limit:
            self.cov["samples"].append(s)

    # ---- violations
    def violation(self, key, what, artefact):
        """Record a violation observed on the REAL code.  key identifies the failing
        input / call site / history class for matching against known_findings.json."""
        self.violations.append((key, what, artefact))



# ---------------------------------------------------------------- the repository's own tests as a trace source

def repo_test_traces(ctx, pkg, pattern, out_path, keep=lambda ev: True, par=8, per_test_timeout=300, limit=None, skip=()):
    """Build <pkg>'s test binary from REPO's working tree with -tags verif and run every test whose name
    matches `pattern` in a process of its own with VERIF_TRACE set (internal/vhook's file sink), so each
    test is one trace.  Writes `{"ev":"reset","case":<test>}` + the test's events (filtered by keep(ev))
    to out_path.  A test that fails or times out with the hooks on contributes its trace but no verdict.
    Returns stats."""
    import concurrent.futures
    os.makedirs(BUILD, exist_ok=True)
    binp = os.path.join(BUILD, "repotest-%s.test" % pkg.strip("./").replace("/", "_"))
    lock = open(os.path.join(BUILD, ".lock-" + os.path.basename(binp)), "w")
    fcntl.flock(lock, fcntl.LOCK_EX)
    try:
        p = subprocess.run(["go", "test", "-tags", "verif", "-vet=off", "-c", "-o", binp, pkg], cwd=REPO, env=goenv(),
                           capture_output=True, text=True)
        if p.returncode != 0:
            raise Undecided("building the test binary of %s with -tags verif failed:\n%s" % (pkg, p.stdout + p.stderr))
        # a private copy: another check may rebuild while tests still run
        mine = os.path.join(ctx.sub("repotest"), os.path.basename(binp))
        shutil.copy2(binp, mine)
    finally:
        fcntl.flock(lock, fcntl.LOCK_UN)
        lock.close()
    cwd = os.path.join(REPO, pkg.lstrip("./"))
    p = subprocess.run([mine, "-test.list", pattern], cwd=cwd, env=goenv(), capture_output=True, text=True, timeout=120)
    names = [l.strip() for l in p.stdout.splitlines() if l.startswith("Test") and l.strip() not in skip]
    if limit and len(names) > limit:
        rng = __import__("random").Random(ctx.seed)
        names = sorted(rng.sample(names, limit))
    tdir = ctx.sub("repotest-traces")

    def one(name):
        tf = os.path.join(tdir, name + ".ndjson")
        e = goenv()
        e["VERIF_TRACE"] = tf
        e["TMPDIR"] = ctx.sub("tmp")
        try:
            q = subprocess.run([mine, "-test.run", "^%s$" % name, "-test.count", "1", "-test.timeout", "%ds" % per_test_timeout],
                               cwd=cwd, env=e, capture_output=True, text=True, timeout=per_test_timeout + 30)
            return name, tf, q.returncode
        except subprocess.TimeoutExpired:
            return name, tf, -1
    stats = {"pkg": pkg, "tests": len(names), "failed_with_hooks_on": [], "events": 0, "tests_with_events": 0}
    with concurrent.futures.ThreadPoolExecutor(par) as ex:
        res = list(ex.map(one, names))
    with open(out_path, "a") as f:
        for name, tf, rc in res:
            if rc != 0:
                stats["failed_with_hooks_on"].append(name)
            if not os.path.exists(tf):
                continue
            rows = [r for r in read_nd(tf) if keep(r.get("ev", ""))]
            os.remove(tf)
            if not rows:
                continue
            stats["tests_with_events"] += 1
            stats["events"] += len(rows)
            f.write(json.dumps({"ev": "reset", "case": "%s:%s" % (pkg, name)}) + "\n")
            for r in rows:
                r.pop("seq", None)
                f.write(json.dumps(r) + "\n")
    return stats

# ---------------------------------------------------------------- TLC

_COV_RE = re.compile(r"^<(\w+) line (\d+), col (\d+) to line (\d+), col (\d+) of module (\w+)>: (\d+):(\d+)")


def tlc(ctx, module, cfg, workers="auto", simulate=None, depth=None, timeout=1800, coverage=True,
        extra=None, heap="8g", deadlock=False, files=None, dfs=False, seed=None, expect_violation=False):
    """Run TLC on specs/<module>.tla with specs/<cfg> in a scratch copy.  Returns a dict:
    ok, generated, distinct, depth, actions{name:count}, out, violated, printed[]"""
    d = tempfile.mkdtemp(prefix="tlc-", dir=ctx.scratch)
    for f in os.listdir(SPECS):
        if f.endswith(".tla") or f.endswith(".cfg"):
            shutil.copy(os.path.join(SPECS, f), d)
    for src, dst in (files or {}).items():
        shutil.copy(src, os.path.join(d, dst))
    jopts = "-Xmx%s -Xss64m" % heap
    if dfs:
        jopts += " -Dtlc2.tool.queue.IStateQueue=StateDeque"
    env = dict(os.environ)
    env["JAVA_TOOL_OPTIONS"] = jopts
    cmd = ["java", "-XX:+UseParallelGC", "-cp", JAR, "tlc2.TLC", "-metadir", os.path.join(d, "meta"),
           "-workers", str(workers), "-config", cfg, "-noGenerateSpecTE"]
    if coverage and not simulate:
        cmd += ["-coverage", "1"]
    if not deadlock:
        cmd += ["-deadlock"]
    if simulate:
        cmd += ["-simulate", simulate]
        if depth:
            cmd += ["-depth", str(depth)]
    if seed is not None:
        cmd += ["-seed", str(seed)]
    if extra:
        cmd += extra
    cmd.append(module + ".tla")
    t0 = time.time()
    try:
        p = subprocess.run(cmd, cwd=d, env=env, capture_output=True, text=True, timeout=timeout)
        out = p.stdout + p.stderr
        rc = p.returncode
    except subprocess.TimeoutExpired as e:
        out = (e.stdout or b"").decode(errors="replace") if isinstance(e.stdout, bytes) else (e.stdout or "")
        rc = -9
        subprocess.run(["pkill", "-f", d], capture_output=True)
    r = {"module": module, "cfg": cfg, "rc": rc, "out": out, "dir": d, "wall_s": round(time.time() - t0, 2)}
    m = re.search(r"(\d+) states generated, (\d+) distinct states found", out)
    r["generated"] = int(m.group(1)) if m else 0
    r["distinct"] = int(m.group(2)) if m else 0
    m = re.search(r"depth of the complete state graph search is (\d+)", out)
    r["depth"] = int(m.group(1)) if m else 0
    acts = {}
    for line in out.splitlines():
        m = _COV_RE.match(line.strip())
        if m:
            acts[m.group(1)] = acts.get(m.group(1), 0) + int(m.group(8))
    r["actions"] = acts
    r["violated"] = None
    m = re.search(r"Invariant (\S+) is violated", out)
    if m:
        r["violated"] = m.group(1)
    elif re.search(r"Action property (\S+) is violated", out):
        r["violated"] = re.search(r"Action property (\S+) is violated", out).group(1)
    elif "Temporal properties were violated" in out:
        r["violated"] = "temporal"
    elif "Deadlock reached" in out:
        r["violated"] = "deadlock"
    r["postfail"] = "POSTCONDITION" in out and "violated" in out.split("POSTCONDITION")[-1][:200] or \
        bool(re.search(r"[Pp]ost ?condition .* (violated|false)", out))
    r["error"] = None
    if rc == -9:
        r["error"] = "timeout"
    elif rc < 0 or rc >= 128 or "Finished in" not in out:
        # killed from outside / JVM died: never to be mistaken for a clean run (0 states, no violation)
        r["error"] = "TLC did not finish (rc=%d)" % rc
    elif r["violated"] is None and not r["postfail"] and ("Error:" in out and "Model checking completed. No error" not in out
                                                          and not (simulate and rc in (0,))):
        m = re.search(r"Error: (.*)", out)
        r["error"] = m.group(1) if m else "error"
    r["ok"] = (r["error"] is None and r["violated"] is None and not r["postfail"])
    r["printed"] = [l for l in out.splitlines() if l.startswith('"@@') or l.startswith("@@")]
    ctx.tlc_runs.append({k: r[k] for k in ("module", "cfg", "rc", "generated", "distinct", "depth", "wall_s", "violated", "error")})
    if not expect_violation:
        if r["error"]:
            raise Undecided("TLC %s/%s: %s\n%s" % (module, cfg, r["error"], out[-4000:]))
    return r


def tlc_mc(ctx, module, cfg, vacuity_ok=(), **kw):
    """Exhaustive model check of the design; the spec's own invariants must hold and no
    action may be vacuous.  Adds states/transitions to the evidence."""
    r = tlc(ctx, module, cfg, **kw)
    if r["violated"]:
        raise Undecided("design model %s/%s violates %s (spec defect, not a code verdict)\n%s"
                        % (module, cfg, r["violated"], r["out"][-5000:]))
    dead = [a for a, c in r["actions"].items() if c == 0 and a not in vacuity_ok and a not in ("Init",)]
    if dead:
        raise Undecided("vacuous actions in %s/%s: %s" % (module, cfg, dead))
    ctx.add("states", r["distinct"])
    ctx.add("transitions", r["generated"])
    ctx.cov.setdefault("tlc_models", []).append(
        {"module": module, "cfg": cfg, "distinct": r["distinct"], "generated": r["generated"], "depth": r["depth"],
         "wall_s": r["wall_s"], "actions": r["actions"]})
    return r


def tlc_neg(ctx, module, cfg, expect=None, **kw):
    """Negative control: with one mechanism switched off TLC MUST find a counterexample.
    Shows the invariant is not vacuous and the model is sensitive to that mechanism."""
    kw.setdefault("coverage", False)
    r = tlc(ctx, module, cfg, expect_violation=True, **kw)
    if not r["violated"]:
        raise Undecided("negative control %s/%s produced no counterexample (vacuous invariant?)\n%s"
                        % (module, cfg, r["out"][-3000:]))
    if expect and r["violated"] != expect:
        raise Undecided("negative control %s/%s violated %s, expected %s" % (module, cfg, r["violated"], expect))
    ctx.cov.setdefault("negative_controls", []).append({"cfg": cfg, "violated": r["violated"], "wall_s": r["wall_s"]})
    return r


def tlc_cases(ctx, module, cfg, **kw):
    """Run a generator config: the spec prints one JSON object per case on lines starting
    with @@ (PrintT(<<"@@", ToJson(x)>>) or via the Gen helper).  Returns list of dicts."""
    kw.setdefault("coverage", False)
    kw.setdefault("workers", 1)
    r = tlc(ctx, module, cfg, **kw)
    if r["violated"]:
        raise Undecided("generator %s/%s violated %s\n%s" % (module, cfg, r["violated"], r["out"][-3000:]))
    cases = []
    for l in r["out"].splitlines():
        m = re.match(r'^<<"@@", (".*")>>$', l)
        if not m:
            continue
        try:
            cases.append(json.loads(json.loads(m.group(1))))
        except Exception as ex:
            raise Undecided("cannot parse generated case %r: %s" % (l[:200], ex))
    return cases, r


def tlc_trace(ctx, module, cfg, trace_path, trace_name="trace.ndjson", timeout=1800, heap="8g", dfs=True, files=None, **kw):
    """Validate an ndjson trace recorded from the real code against Trace<M>.tla.
    Convention: the trace spec keeps a high-water mark of consumed lines in TLCGet(1) and
    prints it via POSTCONDITION failure text '@@HW <n>'.  Returns dict(accepted, hw, n, out)."""
    n = sum(1 for _ in open(trace_path))
    r = tlc(ctx, module, cfg, workers=1, coverage=False, timeout=timeout, heap=heap, dfs=dfs,
            files=dict(files or {}, **{trace_path: trace_name}), expect_violation=True, **kw)
    hw = None
    for l in r["out"].splitlines():
        m = re.search(r"@@HW[\", ]+(\d+)", l)
        if m:
            hw = int(m.group(1))
    if r["error"]:
        raise Undecided("trace validation %s/%s: TLC error %s\n%s" % (module, cfg, r["error"], r["out"][-4000:]))
    # trace specs that record every failed condition print <<"@@BAD", line, "name">> from their postcondition
    bads = sorted({(int(m.group(1)), m.group(2)) for m in re.finditer(r'<<"@@BAD", (\d+), "([^"]+)">>', r["out"])})
    accepted = r["ok"] and (hw is None or hw >= n) and not bads
    r.update({"accepted": accepted, "hw": hw, "n": n, "bads": bads})
    return r


# ---------------------------------------------------------------- known findings

def load_known():
    p = os.path.join(ROOT, "known_findings.json")
    out = []
    if os.path.exists(p):
        out += json.load(open(p)).get("findings", [])
    d = os.path.join(ROOT, "known_findings.d")      # per-property parts written on development branches;
    if os.path.isdir(d):                             # folded into known_findings.json by bin/fold-known
        for f in sorted(os.listdir(d)):
            if f.endswith(".json"):
                out += json.load(open(os.path.join(d, f))).get("findings", [])
    return out


def match_known(pid, key):
    """A violation key matches a known finding iff property equals and the finding's
    'match' regex fully matches the key.  'fixed' entries never suppress."""
    for f in load_known():
        if f.get("property") != pid or f.get("kind") != "finding":
            continue
        if re.fullmatch(f["match"], key):
            return f
    return None


# ---------------------------------------------------------------- finish

def write_evidence(ctx, nviol):
    cov = dict(ctx.cov)
    if not cov.get("samples"):
        cov["samples"] = ["(no samples recorded)"]
    if ctx.level == "model_checking":
        cov.setdefault("states", 0)
        cov.setdefault("transitions", 0)
        cov.setdefault("traces_validated_against_impl", 0)
    cov["tlc_runs"] = ctx.tlc_runs
    ev = {
        "property_id": ctx.pid, "tier": ctx.tier, "seed": ctx.seed, "level": ctx.level,
        "coverage": cov, "assumptions": ctx.assumptions,
        "wall_s": round(time.time() - ctx.t0, 2), "violations": nviol,
    }
    os.makedirs(os.path.join(OUT, "evidence"), exist_ok=True)
    p = os.path.join(OUT, "evidence", ctx.pid + ".json")
    with open(p + ".tmp", "w") as f:
        json.dump(ev, f, indent=1, default=str)
    os.replace(p + ".tmp", p)


def finish(ctx):
    """Apply the known-findings protocol, write evidence, print verdict lines, return exit code."""
    new = []
    known = {}
    for key, what, art in ctx.violations:
        f = match_known(ctx.pid, key)
        if f:
            known.setdefault(f["id"], (f, []))[1].append(key)
        else:
            new.append((key, what, art))
    for fid, (f, keys) in sorted(known.items()):
        print("KNOWN-FINDING: property=%s %s [%s; %d case(s) in this run, e.g. %s]"
              % (ctx.pid, f["what"], fid, len(keys), keys[0]))
    ctx.cov["known_finding_cases"] = sum(len(k) for _, k in known.values())
    rc = 0
    if new:
        rd = os.path.join(OUT, "replays", ctx.pid)
        os.makedirs(rd, exist_ok=True)
        seen = set()
        for key, what, art in new:
            h = hashlib.sha1(key.encode()).hexdigest()[:10]
            if h in seen:
                continue
            seen.add(h)
            path = os.path.join(rd, "%s-%s.json" % (ctx.tier, h))
            with open(path, "w") as f:
                json.dump({"property": ctx.pid, "key": key, "what": what, "seed": ctx.seed, "tier": ctx.tier,
                           "artefact": art}, f, indent=1, default=str)
            print("VIOLATION property=%s replay=%s" % (ctx.pid, path))
            log("violation:", key, "-", what)
            if len(seen) >= 20:
                break
        rc = 1
    write_evidence(ctx, len(new))
    return rc


# ---------------------------------------------------------------- trace helpers

def read_nd(path):
    return [json.loads(l) for l in open(path) if l.strip()]


def write_nd(path, rows):
    with open(path, "w") as f:
        for r in rows:
            f.write(json.dumps(r) + "\n")


def trace_check(ctx, module, cfg, trace_path, what, key_fn=None, selftest=None, **kw):
    """Validate trace; on rejection record a violation whose key is derived from the first
    line the spec could not consume.  selftest(rows)->rows corrupts the trace: TLC MUST reject
    the corrupted copy (binding demonstration), otherwise the check is undecided."""
    r = tlc_trace(ctx, module, cfg, trace_path, **kw)
    rows = read_nd(trace_path)
    ctx.add("trace_events", r["n"])
    if r["bads"] and (r["hw"] is None or r["hw"] >= r["n"]):
        # whole trace consumed; every failed condition is a violation at its own line
        for line, name in r["bads"]:
            bad = rows[line - 1] if 0 < line <= len(rows) else {}
            key = key_fn(bad, name) if key_fn else "%s:%s" % (bad.get("ev", "?"), name)
            lo = line - 1
            while lo > 0 and rows[lo].get("ev") != "reset":
                lo -= 1
            keep = os.path.join(OUT, "replays", ctx.pid)
            os.makedirs(keep, exist_ok=True)
            dst = os.path.join(keep, "%s-trace-%s.ndjson" % (ctx.tier, hashlib.sha1(key.encode()).hexdigest()[:8]))
            if not os.path.exists(dst) or os.path.getmtime(dst) < ctx.t0:
                write_nd(dst, rows[lo:line])
            ctx.violation(key, "%s: condition %s of %s is false on the real trace at line %d" % (what, name, module, line),
                          {"trace": dst, "line": line, "event": bad, "condition": name, "context": rows[max(0, line - 12):line]})
    elif not r["accepted"]:
        hw = r["hw"] if r["hw"] is not None else 0
        bad = rows[hw] if hw < len(rows) else {}
        inv = r.get("violated")
        if key_fn and key_fn.__code__.co_argcount >= 3:
            key = key_fn(bad, inv, r["out"])     # the TLC output carries the violating state (e.g. a `bad` variable)
        else:
            key = (key_fn(bad, inv) if key_fn else "%s:%s" % (bad.get("ev", "?"), inv or "rejected"))
        art = {"trace": trace_path, "line": hw + 1, "event": bad, "invariant": inv,
               "context": rows[max(0, hw - 15):hw + 1], "tlc_tail": r["out"][-1500:]}
        keep = os.path.join(OUT, "replays", ctx.pid)
        os.makedirs(keep, exist_ok=True)
        dst = os.path.join(keep, "%s-trace-%s.ndjson" % (ctx.tier, hashlib.sha1(key.encode()).hexdigest()[:8]))
        lo = hw
        while lo > 0 and rows[lo].get("ev") != "reset":
            lo -= 1
        write_nd(dst, rows[lo:hw + 1])
        art["trace"] = dst
        ctx.violation(key, "%s: spec %s rejects the real trace at line %d (%s)" % (what, module, hw + 1, inv or "no enabled action"), art)
    elif selftest is not None:
        bad_rows = selftest([dict(x) for x in rows])
        p2 = trace_path + ".corrupt"
        write_nd(p2, bad_rows)
        r2 = tlc_trace(ctx, module, cfg, p2, **kw)
        if r2["accepted"]:
            raise Undecided("binding self-test failed: %s accepted a corrupted trace" % module)
        ctx.cov.setdefault("binding_selftests", []).append({"module": module, "rejected_corrupted_trace": True, "hw": r2["hw"]})
    return r
