// LD_PRELOAD clock shim for the SQLite that is linked (cgo) into the harness.
//
// SQLite's unix VFS reads the wall clock through libc (gettimeofday / clock_gettime /
// time).  This library interposes those three and serves the time found in the file named
// by VERIF_TIME_FILE, re-read on every call so that the harness process can move SQLite's
// clock between statements:
//     "a <sec> <usec>"   absolute: the clock is frozen at exactly that instant
//     "o <sec>"          offset:   real time shifted by <sec> seconds
//     (missing / empty)  real time
// Go's own time.Now uses the vDSO directly and is not affected.
//
// Build: clang -shared -fPIC -O1 -o timeshim.so shim.c -ldl   (checks/C14.py does this).
#define _GNU_SOURCE
#include <dlfcn.h>
#include <fcntl.h>
#include <stdio.h>
#include <stdlib.h>
#include <sys/time.h>
#include <time.h>
#include <unistd.h>

static int (*real_gettimeofday)(struct timeval *, void *);
static int (*real_clock_gettime)(clockid_t, struct timespec *);

// returns 0: real time, 1: offset in *sec, 2: absolute in *sec/*usec
static int directive(long long *sec, long long *usec) {
  const char *p = getenv("VERIF_TIME_FILE");
  if (!p) return 0;
  int fd = open(p, O_RDONLY);
  if (fd < 0) return 0;
  char buf[96];
  ssize_t n = read(fd, buf, sizeof buf - 1);
  close(fd);
  if (n <= 2) return 0;
  buf[n] = 0;
  *sec = 0;
  *usec = 0;
  if (buf[0] == 'a') {
    if (sscanf(buf + 1, "%lld %lld", sec, usec) == 2) return 2;
    return 0;
  }
  if (buf[0] == 'o') {
    if (sscanf(buf + 1, "%lld", sec) == 1) return 1;
  }
  return 0;
}

static void now(long long *sec, long long *nsec) {
  struct timespec ts;
  if (!real_clock_gettime) real_clock_gettime = dlsym(RTLD_NEXT, "clock_gettime");
  real_clock_gettime(CLOCK_REALTIME, &ts);
  long long s = 0, us = 0;
  switch (directive(&s, &us)) {
  case 2:
    *sec = s;
    *nsec = us * 1000;
    return;
  case 1:
    *sec = ts.tv_sec + s;
    *nsec = ts.tv_nsec;
    return;
  }
  *sec = ts.tv_sec;
  *nsec = ts.tv_nsec;
}

int gettimeofday(struct timeval *restrict tv, void *restrict tz) {
  (void)tz;
  (void)real_gettimeofday;
  long long s, ns;
  now(&s, &ns);
  struct timeval out = {.tv_sec = s, .tv_usec = ns / 1000};
  *tv = out;
  return 0;
}

int clock_gettime(clockid_t id, struct timespec *ts) {
  if (!real_clock_gettime) real_clock_gettime = dlsym(RTLD_NEXT, "clock_gettime");
  if (id != CLOCK_REALTIME) return real_clock_gettime(id, ts);
  long long s, ns;
  now(&s, &ns);
  struct timespec out = {.tv_sec = s, .tv_nsec = ns};
  *ts = out;
  return 0;
}

time_t time(time_t *t) {
  long long s, ns;
  now(&s, &ns);
  if (t) *t = (time_t)s;
  return (time_t)s;
}
