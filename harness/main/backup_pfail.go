package main

// backup-trace, phase P (C21): the node PRODUCING a backup fails after streaming has begun.
// On the quiescent small database every format x compress x via (the leader itself, through a
// follower) is requested over HTTP once unarmed (must succeed and restore; counts how often the
// fault point is passed) and then with a fault armed at the k-th arrival at the point:
//   backup.copy  (store.Store.Backup: the source of the copy into the stream is closed right before
//                 the copy, so the real io.Copy statement fails with a read error; binary, vacuumed
//                 binary, DELETE mode; compressed and not),
//   dump.table   (db.DB.Dump: returns an error at the k-th table: k = 1 nothing but the dump header
//                 has been written, k = 2 one table, k = 3 two tables).
// One trace line per case: whether the fault fired, the HTTP status, whether the body was read to its
// end without a transport error, its length, whether it restores.  TraceBackup.tla judges
// Backup!FailedIsErrorP: a request during which the production failed must not be answered as a backup.

import (
	"encoding/json"
	"fmt"
	"os"
	"path/filepath"
	"strings"
	"sync"
	"time"

	"github.com/rqlite/rqlite/v10/internal/vhook"
)

// bkFault is the fault oracle installed with vhook.SetFail: the k-th arrival at `point` after arming fails.
type bkFault struct {
	mu    sync.Mutex
	point string
	k     int // 0: count only
	n     int
	fired bool
}

func (f *bkFault) arm(point string, k int) {
	f.mu.Lock()
	f.point, f.k, f.n, f.fired = point, k, 0, false
	f.mu.Unlock()
}

func (f *bkFault) disarm() (n int, fired bool) {
	f.mu.Lock()
	defer f.mu.Unlock()
	n, fired = f.n, f.fired
	f.point, f.k = "", 0
	return
}

func (f *bkFault) fail(point string) bool {
	f.mu.Lock()
	defer f.mu.Unlock()
	if f.point == "" || point != f.point {
		return false
	}
	f.n++
	if f.k > 0 && f.n == f.k {
		f.fired = true
		return true
	}
	return false
}

type bkFailCase struct {
	point string
	k     int
	at    string
}

func bkPhaseP(c *vCluster, w *ndWriter, st *bkStats, restoreDir, fwdTimeout string) error {
	if !vhook.Enabled {
		return fmt.Errorf("phase P needs the fault points (build tag verif)")
	}
	flt := &bkFault{}
	vhook.SetFail(flt.fail)
	defer vhook.SetFail(nil)
	var l, f *vNode
	roles := func() error {
		for i := 0; i < 50; i++ {
			l = c.Leader(10 * time.Second)
			fl := c.Followers()
			if l != nil && len(fl) > 0 {
				f = fl[0]
				if la, _ := f.Store.LeaderAddr(); la == l.Addr {
					return nil
				}
			}
			time.Sleep(200 * time.Millisecond)
		}
		return fmt.Errorf("no stable leader / follower")
	}
	stable := func() bool {
		if l == nil || f == nil || !l.Store.IsLeader() {
			return false
		}
		la, _ := f.Store.LeaderAddr()
		return la == l.Addr
	}
	// a failed stream leaves a dead connection in the follower's pool: a forwarded strong read retries through it
	flush := func() {
		for i := 0; i < 3; i++ {
			f.httpSQL("query", "level=strong&timeout=5s", []string{"SELECT 1"})
		}
	}
	if err := roles(); err != nil {
		return err
	}
	name := func(cb bkCombo) string {
		if cb.Vacuum {
			return "vacuum"
		}
		return cb.Fmt
	}
	for _, via := range []string{"leader", "follower"} {
		for _, fv := range []struct {
			f string
			v bool
		}{{"binary", false}, {"binary", true}, {"sql", false}, {"delete", false}} {
			for _, z := range []bool{false, true} {
				cb := bkCombo{Fmt: fv.f, Vacuum: fv.v, Compress: z, Via: via}
				to := ""
				if via == "follower" {
					to = fwdTimeout
				}
				q := cb.query(to)
				cases := []bkFailCase{{"backup.copy", 1, "copy"}}
				if cb.Fmt == "sql" {
					cases = []bkFailCase{{"dump.table", 1, "first-table"}, {"dump.table", 2, "middle-table"}, {"dump.table", 3, "last-table"}}
				}
				// unarmed: the request itself works, and passes the fault point
				var refBytes, passes int
				for try := 0; ; try++ {
					if err := roles(); err != nil {
						return err
					}
					at := l
					if via == "follower" {
						at = f
						flush()
					}
					flt.arm(cases[0].point, 0)
					r := bkGet(at, q)
					passes, _ = flt.disarm()
					var rerr error
					if r.Status == 200 && r.Clean {
						_, rerr = bkRestore(restoreDir, r.Body, cb.Fmt, cb.Compress)
					}
					if r.Status == 200 && r.Clean && rerr == nil && passes >= cases[len(cases)-1].k && stable() {
						refBytes = len(r.Body)
						break
					}
					if try >= 8 {
						return fmt.Errorf("phase P: unarmed backup %v: status %d clean=%v %s %v, fault point passed %d times", cb, r.Status, r.Clean, r.Err, rerr, passes)
					}
					time.Sleep(300 * time.Millisecond)
				}
				for _, fc := range cases {
					var r bkResp
					var fired bool
					var hits int
					for try := 0; try < 5; try++ {
						if err := roles(); err != nil {
							return err
						}
						at := l
						if via == "follower" {
							at = f
							flush()
						}
						flt.arm(fc.point, fc.k)
						r = bkGet(at, q)
						hits, fired = flt.disarm()
						if fired && stable() {
							break
						}
						// the request did not reach the point on the node it was meant for (roles moved): not a case
						fired = false
						st.PFNotFired++
						time.Sleep(200 * time.Millisecond)
					}
					st.PFCases++
					if fired {
						st.PFFired++
					}
					success := r.Status == 200 && r.Clean
					p := bkProj{NA: -1, NZ: -1, NM: -1}
					rerr := ""
					if success {
						pp, e := bkRestore(restoreDir, r.Body, cb.Fmt, cb.Compress)
						p = pp
						if e != nil {
							rerr = e.Error()
						}
					}
					oc := "error"
					if success {
						oc = "success"
					}
					st.PFOutcomes[fmt.Sprintf("%s/compress=%v/%s/%s/%s", name(cb), z, via, fc.at, oc)]++
					errText := r.Err
					if r.Status != 200 {
						errText = strings.TrimSpace(string(r.Body))
					}
					if len(errText) > 200 {
						errText = errText[:200]
					}
					w.Write(map[string]any{"ev": "pf", "format": name(cb), "fmt": cb.Fmt, "vacuum": cb.Vacuum, "compress": z, "via": via,
						"point": fc.point, "k": fc.k, "at": fc.at, "fired": fired, "hits": hits,
						"status": r.Status, "clean": r.Clean, "err": errText, "bytes": len(r.Body), "refbytes": refBytes,
						"restored": success && rerr == "", "rerr": rerr, "na": p.NA, "nz": p.NZ, "nm": p.NM})
				}
			}
		}
	}
	flush()
	return nil
}

// bkRing keeps the most recent gate / checkpoint hook events of all nodes (cas.*, ckpt.*, snap.*) and the
// harness's own backup markers, so that a backup that does not restore can be explained afterwards:
// the events and the body of such a backup are written next to the trace (bad-<op>.events.ndjson, .body).
type bkRing struct {
	mu  sync.Mutex
	buf []map[string]any
	n   int
	t0  time.Time
}

func newBkRing(size int) *bkRing { return &bkRing{buf: make([]map[string]any, size), t0: time.Now()} }

func (r *bkRing) add(m map[string]any) {
	r.mu.Lock()
	m["us"] = time.Since(r.t0).Microseconds()
	r.buf[r.n%len(r.buf)] = m
	r.n++
	r.mu.Unlock()
}

func (r *bkRing) sink(e vhook.Event) {
	if !strings.HasPrefix(e.Ev, "cas.") && !strings.HasPrefix(e.Ev, "ckpt.") && !strings.HasPrefix(e.Ev, "snap.") {
		return
	}
	m := map[string]any{"inst": e.Inst, "ev": e.Ev}
	for k, v := range e.KV {
		m[k] = v
	}
	r.add(m)
}

func (r *bkRing) dump(dir, name string, body []byte) {
	os.MkdirAll(dir, 0755)
	r.mu.Lock()
	var out []byte
	lo := 0
	if r.n > len(r.buf) {
		lo = r.n - len(r.buf)
	}
	for i := lo; i < r.n; i++ {
		b, _ := json.Marshal(r.buf[i%len(r.buf)])
		out = append(append(out, b...), '\n')
	}
	r.mu.Unlock()
	os.WriteFile(filepath.Join(dir, name+".events.ndjson"), out, 0644)
	os.WriteFile(filepath.Join(dir, name+".body"), body, 0644)
}
