package main

// ckpt-store: the store-level stage of C06.  The same schedules as ckpt-replay, but on a REAL
// single-node store.Store: writes go through Store.Execute (raft log -> FSM -> SQLite), an attempt
// is Store.Snapshot(0), i.e. raft's snapshot -> the real Store.fsmSnapshot (which creates, cancels
// or closes the segment) -> Persist into the real snapshot store.  Readers are read transactions
// on separate read-only connections to the store's database file.  The ckpt.* hook events of the
// store's own CheckpointManager are recorded in the same trace, and after every attempt:
//   the watch state, every *.wal / *.crc32 file under the WAL staging directory and the snapshot
//   store (a cancelled segment must not leave a file behind), the frames of the newly captured
//   segment, the live database and the database RESTORED FROM THE SNAPSHOT STORE's newest
//   snapshot (snapshot.Store.Open + snapshot.Restore: the full snapshot with every incremental
//   WAL segment applied in order).
// The trace has the vocabulary of ckpt-replay and is judged by the same TraceCheckpoint.tla.

import (
	"context"
	"flag"
	"fmt"
	"io"
	"io/fs"
	"log"
	"net"
	"os"
	"path/filepath"
	"sort"
	"strings"
	"time"

	"github.com/rqlite/rqlite/v10/cluster"
	"github.com/rqlite/rqlite/v10/command/proto"
	"github.com/rqlite/rqlite/v10/db"
	"github.com/rqlite/rqlite/v10/db/wal"
	"github.com/rqlite/rqlite/v10/internal/fsutil"
	"github.com/rqlite/rqlite/v10/internal/vhook"
	"github.com/rqlite/rqlite/v10/snapshot"
	"github.com/rqlite/rqlite/v10/store"
	"github.com/rqlite/rqlite/v10/tcp"
)

func init() { register("ckpt-store", ckptStore) }

type ckStoreRun struct {
	ckRun
	node *store.Store
	mux  *tcp.Mux
	ln   net.Listener
	last map[string]any // fields of the manager's hook events of the current attempt
	nop  int
}

func (c *ckStoreRun) exec(req *proto.Request) error {
	res, _, err := c.node.Execute(context.Background(), &proto.ExecuteRequest{Request: req})
	if err != nil {
		return err
	}
	for _, r := range res {
		if e := r.GetError(); e != "" {
			return fmt.Errorf("%s", e)
		}
		if e := r.GetE().GetError(); e != "" {
			return fmt.Errorf("%s", e)
		}
	}
	return nil
}

// walFiles lists every staged or persisted segment file (and sidecar) of the node.
func (c *ckStoreRun) walFiles() (wals []string, nfiles int, err error) {
	for _, root := range []string{c.node.VerifWALStagingDir(), c.node.VerifSnapshotStore().Dir()} {
		err = filepath.WalkDir(root, func(p string, d fs.DirEntry, e error) error {
			if e != nil {
				if os.IsNotExist(e) {
					return nil
				}
				return e
			}
			if d.IsDir() {
				return nil
			}
			switch {
			case strings.HasSuffix(p, ".wal"):
				wals = append(wals, p)
				nfiles++
			case strings.HasSuffix(p, ".wal.crc32"):
				nfiles++
			}
			return nil
		})
		if err != nil {
			return nil, 0, err
		}
	}
	sort.Strings(wals)
	return wals, nfiles, nil
}

func (c *ckStoreRun) open() error {
	var err error
	c.dir, err = os.MkdirTemp("", "ckst")
	if err != nil {
		return err
	}
	c.ln, err = net.Listen("tcp", "127.0.0.1:0")
	if err != nil {
		return err
	}
	c.mux, err = tcp.NewMux(c.ln, nil)
	if err != nil {
		return err
	}
	go c.mux.Serve()
	raftLn := c.mux.Listen(cluster.MuxRaftHeader)
	raftTn := tcp.NewLayer(raftLn, tcp.NewDialer(cluster.MuxRaftHeader, nil))
	st := store.New(&store.Config{DBConf: store.NewDBConfig(), Dir: filepath.Join(c.dir, "node"), ID: "n1",
		Logger: log.New(io.Discard, "", 0)}, raftTn)
	st.RaftLogLevel = "ERROR"
	st.SnapshotThreshold = 1 << 40 // snapshots only when the schedule says so
	st.SnapshotInterval = time.Hour
	st.SnapshotReapThreshold = 1000
	st.NoSnapshotOnClose = true
	c.node = st
	if err := st.Open(); err != nil {
		return fmt.Errorf("store open: %v", err)
	}
	if err := st.Bootstrap(store.NewServer(st.ID(), st.Addr(), true)); err != nil {
		return fmt.Errorf("bootstrap: %v", err)
	}
	if _, err := st.WaitForLeader(20 * time.Second); err != nil {
		return fmt.Errorf("no leader: %v", err)
	}
	c.sdb = nil // the store owns the database
	c.path = st.VerifSwappableDB().Path()
	req := &proto.Request{Transaction: true}
	for k := 1; k <= c.np; k++ {
		req.Statements = append(req.Statements,
			&proto.Statement{Sql: fmt.Sprintf("CREATE TABLE p_%d (v INTEGER, pad TEXT)", k)},
			&proto.Statement{Sql: fmt.Sprintf("INSERT INTO p_%d VALUES(0, '')", k)})
	}
	if err := c.exec(req); err != nil {
		return err
	}
	// the previous snapshot: the node's first snapshot is a full one
	if err := st.Snapshot(0); err != nil {
		return fmt.Errorf("initial full snapshot: %v", err)
	}
	c.root = map[uint32]int{}
	d := st.VerifSwappableDB().VerifDB()
	for k := 1; k <= c.np; k++ {
		s, err := d.VerifRWQuery(fmt.Sprintf("SELECT rootpage FROM sqlite_master WHERE name='p_%d'", k))
		if err != nil {
			return err
		}
		var pg uint32
		fmt.Sscan(s, &pg)
		c.root[pg] = k
	}
	c.salts = map[[2]uint32]int{}
	c.readers = map[int]*ckReader{}
	_, has, fr, err := ckReadWAL(c.path+"-wal", c.root)
	if err != nil {
		return err
	}
	if has || len(fr) != 0 {
		return fmt.Errorf("WAL not empty after the full snapshot (%d frames)", len(fr))
	}
	if wals, _, err := c.walFiles(); err != nil || len(wals) != 0 {
		return fmt.Errorf("segment files before the first incremental snapshot: %v %v", wals, err)
	}
	return nil
}

func (c *ckStoreRun) close() {
	for r := range c.readers {
		c.stopReader(r)
	}
	if c.node != nil {
		c.node.Close(true)
	}
	if c.mux != nil {
		c.mux.Close()
	}
	if c.ln != nil {
		c.ln.Close()
	}
	os.RemoveAll(c.dir)
}

func (c *ckStoreRun) write(pages []int) error {
	sort.Ints(pages)
	c.nw++
	req := &proto.Request{Transaction: true}
	for _, k := range pages {
		req.Statements = append(req.Statements, &proto.Statement{Sql: fmt.Sprintf("UPDATE p_%d SET v=%d", k, c.nw)})
	}
	if err := c.exec(req); err != nil {
		return err
	}
	return c.observeWrite(pages)
}

// restoreNewest restores the newest snapshot of the node's snapshot store into a scratch file
// and returns its versioned pages.
func (c *ckStoreRun) restoreNewest() ([]int, error) {
	ss := c.node.VerifSnapshotStore()
	metas, err := ss.List()
	if err != nil {
		return nil, err
	}
	if len(metas) == 0 {
		return nil, fmt.Errorf("snapshot store is empty")
	}
	_, rc, err := ss.Open(metas[0].ID)
	if err != nil {
		return nil, err
	}
	tmp := filepath.Join(c.dir, "restore")
	os.RemoveAll(tmp)
	if err := os.MkdirAll(tmp, 0755); err != nil {
		rc.Close()
		return nil, err
	}
	defer os.RemoveAll(tmp)
	p := filepath.Join(tmp, "db.sqlite")
	_, err = snapshot.Restore(rc, p)
	rc.Close()
	if err != nil {
		return nil, fmt.Errorf("restore: %w", err)
	}
	d, err := db.Open(p, false, true)
	if err != nil {
		return nil, err
	}
	defer d.Close()
	return c.project(d)
}

func (c *ckStoreRun) attempt() error {
	c.st.Attempts++
	walPath := c.path + "-wal"
	has := fsutil.PathExistsWithData(walPath)
	before, _, err := c.walFiles()
	if err != nil {
		return err
	}
	// raft refuses to snapshot when its log has nothing new: a no-op entry (it does not touch the database)
	c.nop++
	f, err := c.node.Noop(fmt.Sprintf("ck-%d", c.nop))
	if err != nil {
		return err
	}
	if err := f.Error(); err != nil {
		return err
	}
	c.w.Write(map[string]any{"ev": "att.begin", "haswal": has})
	c.last = map[string]any{}
	serr := c.node.Snapshot(0)
	after, nfiles, err := c.walFiles()
	if err != nil {
		return err
	}
	if serr == store.ErrNoWALToSnapshot {
		c.w.Write(map[string]any{"ev": "att.end", "out": "nowal", "nstaged": len(after)})
		c.st.Outcomes["nowal"]++
		return nil
	}
	errc := ""
	if serr != nil {
		if strings.Contains(serr.Error(), db.ErrDatabaseCheckpointBusy.Error()) {
			errc = "busy"
		} else {
			errc = "other:" + serr.Error()
		}
	}
	line := map[string]any{"ev": "att.end", "ok": serr == nil, "errc": errc}
	for _, k := range []string{"code", "pages", "moved", "reset"} {
		v, ok := c.last[k]
		if !ok {
			return fmt.Errorf("the manager's %s was not observed (snapshot error: %v)", k, serr)
		}
		line[k] = v
	}
	if line["reset"] == true {
		c.st.ResetsSeen++
	}
	armed, asalt, aidx := c.node.VerifSwappableDB().VerifWatch()
	line["armed"], line["asalt"], line["aidx"] = armed, c.saltID(asalt), aidx
	line["nstaged"], line["nfiles"] = len(after), nfiles
	salt, whas, fr, err := ckReadWAL(walPath, c.root)
	if err != nil {
		return err
	}
	c.prevHas, c.prevSalt, c.prevN = whas, salt, len(fr)
	line["walhas"] = whas
	live, err := c.project(c.node.VerifSwappableDB().VerifDB())
	if err != nil {
		return err
	}
	line["live"] = live
	if serr == nil {
		seen := map[string]bool{}
		for _, p := range before {
			seen[filepath.Base(p)] = true
		}
		var fresh []string
		for _, p := range after {
			if !seen[filepath.Base(p)] {
				fresh = append(fresh, p)
			}
		}
		if len(fresh) != 1 {
			line["segmissing"] = true
		} else {
			_, _, sfr, err := ckReadWAL(fresh[0], c.root)
			if err != nil {
				return fmt.Errorf("captured segment unreadable: %w", err)
			}
			line["seg"] = ckPages(sfr)
			line["seglast"] = len(sfr) == 0 || sfr[len(sfr)-1].Commit
			if len(sfr) == 0 {
				c.st.EmptySegs++
			}
		}
		rb, rerr := c.restoreNewest()
		if rerr != nil {
			line["replayerr"] = rerr.Error()
			rb = make([]int, c.np)
			for i := range rb {
				rb[i] = -1
			}
		}
		line["rebuilt"] = rb
		c.st.Rebuilds++
	}
	c.w.Write(line)
	ckFlush(c.w) // the store may log.Fatal on a later step: what was observed so far must survive
	return nil
}

// ckFlush pushes the buffered trace lines to the file.
func ckFlush(n *ndWriter) {
	n.mu.Lock()
	n.w.Flush()
	n.mu.Unlock()
}

func ckStoreRunOne(w *ndWriter, st *ckStats, s ckSched, np int) (err error) {
	c := &ckStoreRun{}
	c.w, c.st, c.np = w, st, np
	// hook events of the store's manager (the initial full snapshot passes w == nil: not part of the trace)
	vhook.SetSink(func(e vhook.Event) {
		if c.last == nil {
			return
		}
		switch e.Ev {
		case "ckpt.begin":
			w.Write(map[string]any{"ev": e.Ev, "walsz": e.KV["walsz"], "armed": e.KV["armed"], "w": e.KV["w"]})
		case "ckpt.check":
			s0, _ := e.KV["salt0"].(uint32)
			s1, _ := e.KV["salt1"].(uint32)
			if n, _ := e.KV["start"].(int64); n > 0 {
				st.Resumed++
			}
			c.last["reset"] = e.KV["reset"]
			w.Write(map[string]any{"ev": e.Ev, "salt": c.saltID([2]uint32{s0, s1}), "start": e.KV["start"], "reset": e.KV["reset"]})
		case "ckpt.compact":
			b, _ := e.KV["bytes"].(int64)
			w.Write(map[string]any{"ev": e.Ev, "nfr": (b - wal.WALHeaderSize) / (wal.WALFrameHeaderSize + ckPageSize), "empty": e.KV["empty"]})
		case "ckpt.result":
			c.last["code"], c.last["pages"], c.last["moved"] = e.KV["code"], e.KV["pages"], e.KV["moved"]
			w.Write(map[string]any{"ev": "ckpt.sqlite", "code": e.KV["code"], "pages": e.KV["pages"], "moved": e.KV["moved"]})
			w.Write(map[string]any{"ev": "ckpt.classify", "outcome": e.KV["outcome"]})
			st.Outcomes[fmt.Sprint(e.KV["outcome"])]++
		}
	})
	defer vhook.SetSink(nil)
	if err := c.open(); err != nil {
		c.close()
		return fmt.Errorf("open: %w", err)
	}
	defer c.close()
	w.Write(map[string]any{"ev": "reset", "run": s.ID, "np": np, "ops": s.Ops, "layer": "store"})
	for i, op := range s.Ops {
		st.Steps++
		switch op.Op {
		case "w":
			err = c.write(append([]int(nil), op.Pages...))
		case "rs":
			err = c.startReader(op.R)
		case "re":
			err = c.stopReader(op.R)
		case "ck":
			err = c.attempt()
		default:
			err = fmt.Errorf("unknown op %q", op.Op)
		}
		if err != nil {
			return fmt.Errorf("step %d (%s): %w", i, op.Op, err)
		}
	}
	return nil
}

func ckptStore(args []string) error {
	fs := flag.NewFlagSet("ckpt-store", flag.ExitOnError)
	in := fs.String("in", "", "ndjson of schedules {id, ops} (optional)")
	out := fs.String("out", "ckpt.store.trace.ndjson", "trace file")
	nrand := fs.Int("random", 0, "number of seeded random schedules")
	rlen := fs.Int("len", 12, "maximum length of a random schedule")
	np := fs.Int("np", 4, "number of versioned pages (tables)")
	nreaders := fs.Int("readers", 3, "readers of random schedules")
	shard := fs.Int("shard", 0, "this shard")
	of := fs.Int("of", 1, "number of shards")
	fs.Parse(args)
	log.SetOutput(io.Discard) // the store's components log through the default logger
	w, err := newND(*out)
	if err != nil {
		return err
	}
	st := &ckStats{Outcomes: map[string]int{}}
	run := func(s ckSched) {
		if len(s.Ops) > st.MaxLen {
			st.MaxLen = len(s.Ops)
		}
		st.Runs++
		if err := ckStoreRunOne(w, st, s, *np); err != nil {
			w.Write(map[string]any{"ev": "harness-error", "run": s.ID, "err": err.Error()})
			if len(st.HarnessErrs) < 10 {
				st.HarnessErrs = append(st.HarnessErrs, s.ID+": "+err.Error())
			}
		}
	}
	scheds, err := ckLoadScheds(*in, *shard, *of)
	if err != nil {
		return err
	}
	for _, s := range scheds {
		st.FromSpec++
		run(s)
	}
	rng := newRand(int64(104729 * (*shard + 1)))
	for i := 0; i < *nrand; i++ {
		n := 5 + rng.Intn(*rlen-4)
		st.Random++
		run(ckRandom(rng, fmt.Sprintf("srand-%d-%d-%d", seedFromEnv(), *shard, i), *np, *nreaders, n))
	}
	st.Lines = w.n
	if err := w.Close(); err != nil {
		return err
	}
	return ckPrintStats(st)
}
