package main

// queued-trace (C23): concurrent HTTP clients post sequence-tagged INSERTs on the queued-write
// path (/db/execute?queue, with and without wait, single and multi-statement bodies, empty
// "checkpoint" bodies) to ANY node of a live 3-node cluster, in bursts that cross the batch size
// and with pauses that cross the queue timeout, while a fault injector steps the leader down,
// transfers leadership and isolates the leader or a follower for a short while.  The hooks of
// queue.Write / the queue's run loop (q.write, q.sending) and of runQueue (hq.take, hq.try,
// hq.done), the clients' responses and -- once the cluster is healthy again and every queue has
// drained -- the table content in rowid (= apply) order are written as one projection per
// accepting node.  See TraceQueuedWrites.tla.

import (
	"encoding/json"
	"errors"
	"flag"
	"fmt"
	"math/rand"
	"os"
	"path/filepath"
	"strings"
	"sync"
	"sync/atomic"
	"time"

	"github.com/rqlite/rqlite/v10/command/proto"
	"github.com/rqlite/rqlite/v10/internal/vhook"
)

func init() { register("queued-trace", queuedTrace) }

const qwPrefix = "qw:"

// qwErrClass names the class of a runQueue try outcome (stable across runs: used in violation keys).
func qwErrClass(v any) string {
	s := ""
	switch x := v.(type) {
	case nil:
	case string:
		s = x
	case error:
		s = x.Error()
	default:
		s = fmt.Sprint(x)
	}
	l := strings.ToLower(s)
	switch {
	case s == "":
		return "ok"
	case strings.Contains(l, "leader not found"):
		return "leader-not-found"
	case strings.Contains(l, "leadership lost"):
		return "leadership-lost"
	case strings.Contains(l, "transfer in progress"):
		return "leadership-transfer"
	case strings.Contains(l, "not leader"):
		return "not-leader"
	case strings.Contains(l, "not ready"), strings.Contains(l, "not open"):
		return "not-ready"
	case strings.Contains(l, "unauthorized"):
		return "unauthorized"
	case strings.Contains(l, "pragma"):
		return "disallowed-pragma"
	case strings.Contains(l, "partitioned"), strings.Contains(l, "connection"), strings.Contains(l, "eof"),
		strings.Contains(l, "timeout"), strings.Contains(l, "dial"), strings.Contains(l, "closed"),
		strings.Contains(l, "broken pipe"), strings.Contains(l, "reset"), strings.Contains(l, "pool"),
		strings.Contains(l, "handshake"), strings.Contains(l, "i/o"):
		return "network"
	}
	return "other"
}

// qwRecorder is the trace sink: it keeps, per accepting node, the events of the queued-write path.
type qwRecorder struct {
	mu        sync.Mutex
	frozen    bool
	base      map[string]int64
	evs       map[string][]map[string]any
	lastWrite map[string]int64 // rebased sequence number of the last accepted request
	lastDone  map[string]int64 // rebased sequence number of the last batch released
	lastErr   map[string]string
	parseErr  error
	tries     map[string]int
	batches   int
	maxBatch  int
	multiReq  int
	accepted  int
	otherErrs map[string]int
	// probes
	allowUntagged bool
	consecFail    map[string]int    // failed tries of the batch a node's consumer holds, since its last success
	failClass     map[string]string // their class when they all had the same one, else "mixed"
}

func newQwRecorder() *qwRecorder {
	return &qwRecorder{base: map[string]int64{}, evs: map[string][]map[string]any{}, lastWrite: map[string]int64{},
		lastDone: map[string]int64{}, lastErr: map[string]string{}, tries: map[string]int{}, otherErrs: map[string]int{}}
}

func qwParse(sql string) (node string, req, k, n int, err error) {
	// INSERT INTO qw(node, req, k, n) VALUES('n1', 12, 1, 2)
	i := strings.Index(sql, "VALUES(")
	if i < 0 {
		return "", 0, 0, 0, fmt.Errorf("untagged statement %q", sql)
	}
	_, err = fmt.Sscanf(strings.ReplaceAll(sql[i:], "'", " "), "VALUES( %s , %d, %d, %d)", &node, &req, &k, &n)
	return
}

func (r *qwRecorder) reset() {
	r.mu.Lock()
	r.frozen = false
	r.base = map[string]int64{}
	r.evs = map[string][]map[string]any{}
	r.lastWrite = map[string]int64{}
	r.lastDone = map[string]int64{}
	r.lastErr = map[string]string{}
	r.consecFail = map[string]int{}
	r.failClass = map[string]string{}
	r.mu.Unlock()
}

func (r *qwRecorder) sink(e vhook.Event) {
	if !strings.HasPrefix(e.Inst, qwPrefix) {
		return
	}
	node := e.Inst[len(qwPrefix):]
	r.mu.Lock()
	defer r.mu.Unlock()
	if r.frozen {
		return
	}
	m := map[string]any{"ev": e.Ev}
	seq := func() int64 {
		s, _ := e.KV["seq"].(int64)
		return s - r.base[node]
	}
	switch e.Ev {
	case "q.write":
		raw, _ := e.KV["seq"].(int64)
		if _, ok := r.base[node]; !ok {
			r.base[node] = raw - 1
		}
		objs, _ := e.KV["objs"].([]*proto.Statement)
		req := 0
		for i, st := range objs {
			nd, rq, k, n, err := qwParse(st.Sql)
			if err != nil && r.allowUntagged && len(objs) == 1 {
				break // a probe statement: request id 0
			}
			if err != nil || nd != node || k != i+1 || n != len(objs) || (i > 0 && rq != req) {
				if r.parseErr == nil {
					r.parseErr = fmt.Errorf("statement %d of a request accepted at %s is not tagged as sent: %q (%v)", i+1, node, st.Sql, err)
				}
			}
			req = rq
		}
		m["seq"], m["req"], m["n"], m["wait"] = seq(), req, len(objs), e.KV["fc"]
		r.lastWrite[node] = seq()
		r.accepted++
	case "q.sending":
		m["seq"], m["n"], m["nw"] = seq(), e.KV["n"], e.KV["nw"]
		r.batches++
		if n, _ := e.KV["n"].(int); n > r.maxBatch {
			r.maxBatch = n
		}
		if nw, _ := e.KV["nw"].(int); nw > 1 {
			r.multiReq++
		}
	case "hq.take":
		m["seq"], m["n"] = seq(), e.KV["n"]
		r.consecFail[node], r.failClass[node] = 0, ""
	case "hq.try":
		cls := qwErrClass(e.KV["err"])
		m["seq"], m["cls"] = seq(), cls
		r.tries[cls]++
		if cls == "ok" {
			r.consecFail[node], r.failClass[node] = 0, ""
		} else {
			if r.consecFail[node]++; r.failClass[node] == "" {
				r.failClass[node] = cls
			} else if r.failClass[node] != cls {
				r.failClass[node] = "mixed"
			}
			r.lastErr[node] = cls
			m["err"] = fmt.Sprint(e.KV["err"])
			if cls == "other" && len(r.otherErrs) < 20 {
				r.otherErrs[fmt.Sprint(e.KV["err"])]++
			}
		}
	case "hq.done":
		m["seq"] = seq()
		r.lastDone[node] = seq()
	case "c.accept", "c.waitret":
		raw, _ := e.KV["seq"].(int64)
		m["req"], m["seq"] = e.KV["req"], raw-r.base[node]
	case "c.waittimeout", "c.reject", "c.fail", "note":
		for k, v := range e.KV {
			m[k] = v
		}
	default:
		return // q.recv, q.timer, ...: the queue's internals are validated by C24
	}
	r.evs[node] = append(r.evs[node], m)
}

func (r *qwRecorder) drained(nodes []string) (bool, string) {
	r.mu.Lock()
	defer r.mu.Unlock()
	for _, n := range nodes {
		if r.lastDone[n] < r.lastWrite[n] {
			return false, n
		}
	}
	return true, ""
}

type qwStats struct {
	Runs, Requests, Accepted, Status200, WaitRet, WaitTimeout, Rejected, Failed, Faults int
	Batches, MaxBatchStmts, MultiRequestBatches, Rows, Events, Projections                int
	Tries                                                                                 map[string]int
	Stuck                                                                                 []string
	ToFollower                                                                            int
	OtherErrors                                                                           map[string]int
	Probes                                                                                map[string]string
	DupRows                                                                               int // rows of a statement already seen: a batch applied again after a try with unknown outcome
}

func queuedTrace(args []string) error {
	fs := flag.NewFlagSet("queued-trace", flag.ExitOnError)
	out := fs.String("out", "queued.ndjson", "trace file")
	runs := fs.Int("runs", 2, "cluster runs")
	clients := fs.Int("clients", 6, "client goroutines")
	reqs := fs.Int("reqs", 25, "minimum requests per client")
	faults := fs.Int("faults", 5, "fault actions per run")
	base := fs.String("dir", "", "scratch dir")
	probes := fs.String("probes", "", "trace file of the permanent-error probes (none when empty)")
	fs.Parse(args)
	if *base == "" {
		*base, _ = os.MkdirTemp("", "vqw")
		defer os.RemoveAll(*base)
	}
	w, err := newND(*out)
	if err != nil {
		return err
	}
	rec := newQwRecorder()
	vhook.SetSink(rec.sink)
	defer vhook.SetSink(nil)
	st := qwStats{Tries: map[string]int{}}
	var reqID atomic.Int64
	for run := 0; run < *runs; run++ {
		if err := queuedRun(run, filepath.Join(*base, fmt.Sprintf("run%d", run)), *clients, *reqs, *faults, rec, w, &st, &reqID); err != nil {
			return fmt.Errorf("run %d: %w", run, err)
		}
		st.Runs++
	}
	if *probes != "" {
		pw, err := newND(*probes)
		if err != nil {
			return err
		}
		if err := queuedProbes(filepath.Join(*base, "probes"), rec, pw, &st, &reqID); err != nil {
			return fmt.Errorf("probes: %w", err)
		}
		if err := pw.Close(); err != nil {
			return err
		}
	}
	vhook.SetSink(nil)
	if err := w.Close(); err != nil {
		return err
	}
	if rec.parseErr != nil {
		return rec.parseErr
	}
	st.Events = w.n
	st.Batches, st.MaxBatchStmts, st.MultiRequestBatches, st.Accepted = rec.batches, rec.maxBatch, rec.multiReq, rec.accepted
	for k, v := range rec.tries {
		st.Tries[k] = v
	}
	st.OtherErrors = rec.otherErrs
	b, _ := json.Marshal(st)
	fmt.Println(string(b))
	return nil
}

type qwResp struct {
	SequenceNumber json.Number `json:"sequence_number"`
	Error          string      `json:"error"`
}

func queuedRun(run int, dir string, nclients, nreqs, nfaults int, rec *qwRecorder, w *ndWriter, st *qwStats, reqID *atomic.Int64) error {
	rng := newRand(int64(run)*7919 + 23)
	rec.reset()
	c, err := newCluster(vClusterOpts{N: 3, Base: dir})
	if err != nil {
		return fmt.Errorf("cluster: %w", err)
	}
	defer c.Close()
	ids := c.IDs()
	for _, n := range c.nodes {
		vhook.Name(n.Service.VerifStmtQueue(), qwPrefix+n.ID)
	}
	l := c.Leader(15 * time.Second)
	if l == nil {
		return errors.New("no leader")
	}
	if _, _, err := sExec(l.Store, false, "CREATE TABLE qw(id INTEGER PRIMARY KEY AUTOINCREMENT, node TEXT, req INTEGER, k INTEGER, n INTEGER)"); err != nil {
		return err
	}
	if err := c.WaitConverged(20 * time.Second); err != nil {
		return err
	}

	var mu sync.Mutex // stats
	var wg sync.WaitGroup
	faultsDone := make(chan struct{})
	seeds := make([]int64, nclients)
	for i := range seeds {
		seeds[i] = rng.Int63()
	}
	post := func(r *rand.Rand, n *vNode) {
		nst := 1 + r.Intn(3)
		wait := r.Intn(100) < 40
		if wait && r.Intn(12) == 0 {
			nst = 0 // a "checkpoint": an empty body that only waits for what was queued before it
		}
		rq := 0
		var body []string
		if nst > 0 {
			rq = int(reqID.Add(1))
			for k := 1; k <= nst; k++ {
				body = append(body, fmt.Sprintf("INSERT INTO qw(node, req, k, n) VALUES('%s', %d, %d, %d)", n.ID, rq, k, nst))
			}
		} else {
			body = []string{}
		}
		q := "queue"
		if wait {
			q += "&wait&timeout=20s"
			if r.Intn(10) == 0 {
				q = "queue&wait&timeout=30ms" // the wait gives up (408), the statements stay queued
			}
		}
		if r.Intn(3) == 0 {
			q += "&noleader" // accepted even while this node knows no leader
		}
		resp, err := n.httpSQL("execute", q, body)
		mu.Lock()
		st.Requests++
		if !n.Store.IsLeader() {
			st.ToFollower++
		}
		mu.Unlock()
		inst := qwPrefix + n.ID
		switch {
		case err != nil:
			emit(inst, "c.fail", "req", rq, "err", err.Error())
			mu.Lock()
			st.Failed++
			mu.Unlock()
		case resp.Status == 200:
			var qr qwResp
			if err := json.Unmarshal(resp.Body, &qr); err != nil {
				emit(inst, "c.fail", "req", rq, "err", "bad body: "+string(resp.Body))
				return
			}
			seq, _ := qr.SequenceNumber.Int64()
			mu.Lock()
			st.Status200++
			if wait {
				st.WaitRet++
			}
			mu.Unlock()
			if wait {
				emit(inst, "c.waitret", "req", rq, "seq", seq)
			} else {
				emit(inst, "c.accept", "req", rq, "seq", seq)
			}
		case resp.Status == 408:
			emit(inst, "c.waittimeout", "req", rq)
			mu.Lock()
			st.WaitTimeout++
			mu.Unlock()
		default:
			emit(inst, "c.reject", "req", rq, "status", resp.Status)
			mu.Lock()
			st.Rejected++
			mu.Unlock()
		}
	}
	// a storm on ONE node before the paced phase: many clients post single-statement requests with no pause, so
	// that requests overlap inside Queue.Write (sequence number and position in the queue are taken together)
	{
		n := c.nodes[rng.Intn(len(c.nodes))]
		var swg sync.WaitGroup
		for g := 0; g < 24; g++ {
			swg.Add(1)
			go func(g int) {
				defer swg.Done()
				inst := qwPrefix + n.ID
				for k := 0; k < 120; k++ {
					rq := int(reqID.Add(1))
					body := []string{fmt.Sprintf("INSERT INTO qw(node, req, k, n) VALUES('%s', %d, 1, 1)", n.ID, rq)}
					resp, err := n.httpSQL("execute", "queue", body)
					mu.Lock()
					st.Requests++
					mu.Unlock()
					if err != nil {
						emit(inst, "c.fail", "req", rq, "err", err.Error())
						continue
					}
					var qr qwResp
					if resp.Status != 200 || json.Unmarshal(resp.Body, &qr) != nil {
						emit(inst, "c.reject", "req", rq, "status", resp.Status)
						continue
					}
					seq, _ := qr.SequenceNumber.Int64()
					mu.Lock()
					st.Status200++
					mu.Unlock()
					emit(inst, "c.accept", "req", rq, "seq", seq)
				}
			}(g)
		}
		swg.Wait()
	}
	for ci := 0; ci < nclients; ci++ {
		wg.Add(1)
		go func(ci int) {
			defer wg.Done()
			r := rand.New(rand.NewSource(seeds[ci]))
			done := 0
			for done < 4*nreqs {
				if done >= nreqs {
					select {
					case <-faultsDone:
						return
					default:
					}
				}
				n := c.nodes[r.Intn(len(c.nodes))]
				if r.Intn(4) == 0 {
					// a burst to one node: crosses the batch size (8 requests)
					for b, nb := 0, 5+r.Intn(10); b < nb; b++ {
						post(r, n)
						done++
					}
				} else {
					post(r, n)
					done++
				}
				// pauses around the queue timeout (100 ms)
				time.Sleep(time.Duration(r.Intn(220)) * time.Millisecond)
			}
		}(ci)
	}
	// fault injector
	frng := rand.New(rand.NewSource(rng.Int63()))
	go func() {
		defer close(faultsDone)
		for f := 0; f < nfaults; f++ {
			time.Sleep(time.Duration(500+frng.Intn(900)) * time.Millisecond)
			l := c.Leader(5 * time.Second)
			mu.Lock()
			st.Faults++
			mu.Unlock()
			switch kind := frng.Intn(5); {
			case kind == 0 && l != nil:
				l.Store.Stepdown(false, "")
			case kind == 1 && l != nil:
				c.nw.Isolate(l.ID, ids)
				time.Sleep(time.Duration(1000+frng.Intn(900)) * time.Millisecond)
				c.nw.Heal()
			case kind == 2 || kind == 3:
				if fl := c.Followers(); len(fl) > 0 {
					v := fl[frng.Intn(len(fl))]
					c.nw.Isolate(v.ID, ids)
					time.Sleep(time.Duration(1400+frng.Intn(1000)) * time.Millisecond)
					c.nw.Heal()
				}
			default:
				if l != nil {
					if fl := c.Followers(); len(fl) > 0 {
						l.Store.Stepdown(false, fl[frng.Intn(len(fl))].ID)
					}
				}
			}
		}
	}()
	wg.Wait()
	<-faultsDone
	c.nw.Heal()

	// the cluster is healthy again: a leader is reachable from every node.  Every queue must drain.
	if c.Leader(60*time.Second) == nil {
		return errors.New("no leader after the faults were healed")
	}
	stuck := map[string]bool{}
	deadline := time.Now().Add(120 * time.Second)
	for {
		ok, _ := rec.drained(ids)
		if ok {
			break
		}
		if time.Now().After(deadline) {
			rec.mu.Lock()
			for _, id := range ids {
				if rec.lastDone[id] < rec.lastWrite[id] {
					stuck[id] = true
					st.Stuck = append(st.Stuck, fmt.Sprintf("run %d node %s: accepted up to %d, released up to %d, last error %s", run, id, rec.lastWrite[id], rec.lastDone[id], rec.lastErr[id]))
				}
			}
			rec.mu.Unlock()
			break
		}
		time.Sleep(50 * time.Millisecond)
	}
	rec.mu.Lock()
	rec.frozen = true
	rec.mu.Unlock()
	if err := c.WaitConverged(60 * time.Second); err != nil {
		return fmt.Errorf("cluster did not converge after the run: %w", err)
	}
	l = c.Leader(30 * time.Second)
	if l == nil {
		return errors.New("no leader for the final read")
	}
	var rows []*proto.QueryRows
	for try := 0; ; try++ {
		rows, err = sQuery(l.Store, proto.ConsistencyLevel_STRONG, "SELECT node, req, k, n FROM qw ORDER BY id")
		if err == nil && rows[0].Error == "" {
			break
		}
		if try == 20 {
			return fmt.Errorf("final read: %v", err)
		}
		time.Sleep(500 * time.Millisecond)
		if l = c.Leader(30 * time.Second); l == nil {
			return errors.New("no leader for the final read")
		}
	}
	for _, id := range ids {
		w.Write(map[string]any{"ev": "reset", "run": run, "node": id})
		for _, e := range rec.evs[id] {
			w.Write(e)
		}
		if !stuck[id] {
			seen := map[[2]int64]bool{}
			for _, v := range rows[0].Values {
				if v.Parameters[0].GetS() != id {
					continue
				}
				if k := [2]int64{v.Parameters[1].GetI(), v.Parameters[2].GetI()}; seen[k] {
					st.DupRows++
				} else {
					seen[k] = true
				}
				w.Write(map[string]any{"ev": "row", "req": v.Parameters[1].GetI(), "k": v.Parameters[2].GetI(), "n": v.Parameters[3].GetI()})
				st.Rows++
			}
		}
		le := rec.lastErr[id]
		if le == "" {
			le = "none"
		}
		w.Write(map[string]any{"ev": "final", "stuck": stuck[id], "lasterr": le})
		st.Projections++
	}
	return nil
}

// queuedProbes: a batch whose execution can never succeed.  runQueue retries a failed request for
// ever, so one such batch blocks every request accepted after it on that node although the node
// keeps running and a leader is reachable.  Two ways to get one through the public API:
//   pragma:  a disallowed PRAGMA posted with ?queue (Store.Execute refuses the whole request)
//   auth:    a cluster with credentials; a queued write accepted by a FOLLOWER is forwarded to the
//            leader without credentials, and refused
// Each probe posts the request, then a tagged INSERT with wait, and watches the node's consumer: the
// queue is stuck when the batch it holds failed 6 times in a row with the same error and that error is
// not one a leader change can explain (count-based, no wall-clock judgement).  No faults are injected.
func queuedProbes(dir string, rec *qwRecorder, w *ndWriter, st *qwStats, reqID *atomic.Int64) error {
	rec.reset()
	rec.mu.Lock()
	rec.allowUntagged = true
	rec.mu.Unlock()
	cs := &credStore{users: map[string]string{"w": "pw"}, perms: map[string]map[string]bool{"w": {"execute": true, "query": true}}}
	c, err := newCluster(vClusterOpts{N: 3, Base: dir, Creds: cs})
	if err != nil {
		return fmt.Errorf("cluster: %w", err)
	}
	defer c.Close()
	for _, n := range c.nodes {
		vhook.Name(n.Service.VerifStmtQueue(), qwPrefix+n.ID)
	}
	l := c.Leader(15 * time.Second)
	if l == nil {
		return errors.New("no leader")
	}
	if _, _, err := sExec(l.Store, false, "CREATE TABLE qw(id INTEGER PRIMARY KEY AUTOINCREMENT, node TEXT, req INTEGER, k INTEGER, n INTEGER)"); err != nil {
		return err
	}
	if err := c.WaitConverged(20 * time.Second); err != nil {
		return err
	}
	fl := c.Followers()
	if len(fl) == 0 {
		return errors.New("no follower")
	}
	f := fl[0]
	st.Probes = map[string]string{}
	postAs := func(n *vNode, q string, body []string) (int, int64) {
		b, _ := json.Marshal(body)
		resp, err := httpDo("POST", "http://"+n.APIAddr+"/db/execute?"+q, b, "application/json", "w", "pw")
		if err != nil {
			return 0, 0
		}
		var qr qwResp
		json.Unmarshal(resp.Body, &qr)
		seq, _ := qr.SequenceNumber.Int64()
		return resp.Status, seq
	}
	tagged := func(n *vNode) (int, []string) {
		rq := int(reqID.Add(1))
		return rq, []string{fmt.Sprintf("INSERT INTO qw(node, req, k, n) VALUES('%s', %d, 1, 1)", n.ID, rq)}
	}
	var wg sync.WaitGroup
	probe := func(name string, n *vNode, poison []string) {
		defer wg.Done()
		inst := qwPrefix + n.ID
		if poison != nil {
			if status, seq := postAs(n, "queue", poison); status == 200 {
				emit(inst, "c.accept", "req", 0, "seq", seq)
			} else {
				emit(inst, "c.reject", "req", 0, "status", status)
			}
		}
		rq, body := tagged(n)
		if status, seq := postAs(n, "queue&wait&timeout=6s", body); status == 200 {
			emit(inst, "c.waitret", "req", rq, "seq", seq)
		} else if status == 408 {
			emit(inst, "c.waittimeout", "req", rq)
		} else {
			emit(inst, "c.reject", "req", rq, "status", status)
		}
	}
	wg.Add(2)
	go probe("pragma", l, []string{"PRAGMA synchronous=OFF"})
	go probe("auth", f, nil)
	// watch both consumers
	stuck := map[string]bool{}
	transient := map[string]bool{"leader-not-found": true, "network": true, "not-leader": true, "leadership-lost": true,
		"leadership-transfer": true, "not-ready": true, "mixed": true}
	deadline := time.Now().Add(120 * time.Second)
	for {
		if c.Leader(60*time.Second) == nil {
			return errors.New("no leader during the probes (no faults are injected): undecided")
		}
		rec.mu.Lock()
		pending := 0
		for _, n := range []*vNode{l, f} {
			if rec.lastDone[n.ID] >= rec.lastWrite[n.ID] && rec.lastWrite[n.ID] > 0 {
				continue
			}
			if rec.consecFail[n.ID] >= 6 && !transient[rec.failClass[n.ID]] {
				stuck[n.ID] = true
				continue
			}
			pending++
		}
		rec.mu.Unlock()
		if pending == 0 {
			break
		}
		if time.Now().After(deadline) {
			return errors.New("probes neither finished nor got stuck in 120 s: undecided")
		}
		time.Sleep(100 * time.Millisecond)
	}
	wg.Wait()
	rec.mu.Lock()
	rec.frozen = true
	rec.mu.Unlock()
	if err := c.WaitConverged(30 * time.Second); err != nil {
		return err
	}
	rows, err := sQuery(l.Store, proto.ConsistencyLevel_STRONG, "SELECT node, req, k, n FROM qw ORDER BY id")
	if err != nil || rows[0].Error != "" {
		return fmt.Errorf("final read: %v", err)
	}
	for name, n := range map[string]*vNode{"pragma": l, "auth": f} {
		w.Write(map[string]any{"ev": "reset", "run": "probe-" + name, "node": n.ID})
		for _, e := range rec.evs[n.ID] {
			w.Write(e)
		}
		if !stuck[n.ID] {
			for _, v := range rows[0].Values {
				if v.Parameters[0].GetS() == n.ID {
					w.Write(map[string]any{"ev": "row", "req": v.Parameters[1].GetI(), "k": v.Parameters[2].GetI(), "n": v.Parameters[3].GetI()})
				}
			}
			st.Probes[name] = "drained"
		} else {
			st.Probes[name] = "stuck after " + rec.failClass[n.ID]
		}
		le := rec.failClass[n.ID]
		if le == "" {
			le = "none"
		}
		w.Write(map[string]any{"ev": "final", "stuck": stuck[n.ID], "lasterr": le})
		st.Projections++
	}
	return nil
}
