package main

// C14 replay: every case enumerated by specs/Rewrite.tla is rendered to SQL text, sent through
// the REAL command/sql.Process exactly as the HTTP layer calls it (one proto.Statement, random and
// time rewriting on), and judged
//
//	(i)  syntactically: the rewritten text is compared token by token with the parser's own
//	     rendering of the original, so every call site is classified retained / pinned (time value
//	     replaced by a number) / literal (call replaced by a literal); replaced iff the spec's
//	     MustRewrite; a statement without such a site must come back byte for byte;
//	(ii) semantically on real SQLite (rqlite's db package, the clock of the linked SQLite moved by
//	     the LD_PRELOAD shim harness/timeshim): the rewritten statement executed with the clock
//	     frozen at the pinned instant and again 400 days later must give identical results and
//	     table contents (deterministic); and identical to the ORIGINAL text (random literals
//	     substituted textually) executed at the pinned instant (faithful: nothing else changed);
//	     the pinned instant lies within the rewrite's resolution of the wall clock at rewrite time,
//	     random literals are 64-bit integers, blob literals have the requested length.
//
// Violations are keyed by the 1-minimal set of grammar features that still fails (delta
// debugging on the real code), e.g. rewrite:miss:time:ctx=ctesel.ctebody.

import (
	"encoding/json"
	"flag"
	"fmt"
	"os"
	"path/filepath"
	"strconv"
	"strings"
	"time"

	"github.com/rqlite/rqlite/v10/command/proto"
	rwsql "github.com/rqlite/rqlite/v10/command/sql"
	"github.com/rqlite/rqlite/v10/db"
	rsql "github.com/rqlite/sql"
)

func init() {
	register("rewrite-replay", rewriteReplay)
	register("rewrite-show", rewriteShow)
}

// ---------------------------------------------------------------- cases

type rwSite struct {
	Slot string `json:"slot"`
	Fn   string `json:"fn"`
	Form string `json:"form"`
	Mod  string `json:"mod"`
	Cs   string `json:"cs"`
	Gap  string `json:"gap"`
	Nest string `json:"nest"`
	Must bool   `json:"must"`
}

type rwCase struct {
	Tpl       string   `json:"tpl"`
	Fill      string   `json:"fill"`
	Sites     []rwSite `json:"sites"`
	SkipFaith bool     `json:"skipfaith"`
	SkipDet   bool     `json:"skipdet"`
	Untouched bool     `json:"untouched"`
}

func (c *rwCase) clone() *rwCase {
	d := *c
	d.Sites = append([]rwSite(nil), c.Sites...)
	return &d
}

type rwTemplate struct {
	text  string
	slots []string // textual order
}

var rwSlotDefault = map[string]string{
	"proj": "'p'", "where": "1", "orderby": "b", "offset": "0", "groupby": "b", "having": "1", "joinon": "1",
	"proj2": "'r'", "subproj": "'s'", "suborderby": "a", "existswhere": "1", "inselect": "'x'", "filter": "1",
	"partition": "a", "winorder": "b", "values": "'v'", "values2": "'w'", "set": "'s'", "upsertset": "'u'",
	"upsertwhere": "1", "returning": "b", "ctebody": "'c'",
}

var rwTemplates = map[string]rwTemplate{
	"select":   {text: "SELECT id, {proj} AS c, {fill} AS f FROM t WHERE {where} ORDER BY {orderby}, id LIMIT 5 OFFSET abs({offset}) % 2", slots: []string{"proj", "where", "orderby", "offset"}},
	"group":    {text: "SELECT a, count(*), {fill} FROM t GROUP BY a, {groupby} HAVING {having} ORDER BY a", slots: []string{"groupby", "having"}},
	"join":     {text: "SELECT t.id, {fill} FROM t JOIN t AS u ON u.id = t.id AND {joinon} ORDER BY t.id", slots: []string{"joinon"}},
	"compound": {text: "SELECT {proj} AS c, {fill} UNION ALL SELECT {proj2}, 1", slots: []string{"proj", "proj2"}},
	"fromsub":  {text: "SELECT v, {fill} FROM (SELECT {subproj} AS v, id FROM t ORDER BY {suborderby}, id LIMIT 2) ORDER BY id", slots: []string{"subproj", "suborderby"}},
	"exists":   {text: "SELECT id, {fill} FROM t WHERE EXISTS (SELECT 1 WHERE {existswhere}) ORDER BY id", slots: []string{"existswhere"}},
	"insel":    {text: "SELECT id, {fill} FROM t WHERE a IN (SELECT {inselect}) OR id = 3 ORDER BY id", slots: []string{"inselect"}},
	"window":   {text: "SELECT id, sum(id) FILTER (WHERE {filter}) OVER (PARTITION BY {partition} ORDER BY {winorder}, id), {fill} FROM t ORDER BY id", slots: []string{"filter", "partition", "winorder"}},
	"values":   {text: "VALUES({values}, {fill})", slots: []string{"values"}},
	"insval":   {text: "INSERT INTO t(a, b) VALUES({values}, {fill})", slots: []string{"values"}},
	"insval2":  {text: "INSERT INTO t(a, b) VALUES('r1', 0), ({values2}, {fill})", slots: []string{"values2"}},
	"inssel":   {text: "INSERT INTO t(a, b) SELECT {proj}, {fill} FROM t WHERE {where} ORDER BY {orderby}, id", slots: []string{"proj", "where", "orderby"}},
	"replace":  {text: "REPLACE INTO t(id, a, b) VALUES(1, {values}, {fill})", slots: []string{"values"}},
	"update":   {text: "UPDATE t SET a = {set}, b = {fill} WHERE {where}", slots: []string{"set", "where"}},
	"updtuple": {text: "UPDATE t SET (a, b) = ({set}, {fill}) WHERE id = 2", slots: []string{"set"}},
	"updfrom":  {text: "UPDATE t SET a = v, b = {fill} FROM (SELECT {subproj} AS v) WHERE {where}", slots: []string{"subproj", "where"}},
	"delete":   {text: "DELETE FROM t WHERE {where} AND b IS NOT {fill}", slots: []string{"where"}},
	"upsert":   {text: "INSERT INTO t(id, a, b) VALUES(1, {values}, {fill}) ON CONFLICT(id) DO UPDATE SET a = {upsertset}, b = excluded.b WHERE {upsertwhere}", slots: []string{"values", "upsertset", "upsertwhere"}},
	"insret":   {text: "INSERT INTO t(a, b) VALUES({values}, {fill}) RETURNING id, a, {returning}", slots: []string{"values", "returning"}},
	"updret":   {text: "UPDATE t SET a = {set}, b = {fill} WHERE id = 1 RETURNING a, {returning}", slots: []string{"set", "returning"}},
	"delret":   {text: "DELETE FROM t WHERE id = 1 AND {where} RETURNING a, {returning}, {fill}", slots: []string{"where", "returning"}},
	"ctesel":   {text: "WITH x AS (SELECT {ctebody} AS v) SELECT v, {proj}, {fill} FROM x", slots: []string{"ctebody", "proj"}},
	"cteins":   {text: "WITH x AS (SELECT {ctebody} AS v) INSERT INTO t(a, b) SELECT v, {proj} FROM x WHERE {fill} IS NOT 'zz'", slots: []string{"ctebody", "proj"}},
	"cteupd":   {text: "WITH x AS (SELECT {ctebody} AS v) UPDATE t SET a = {set}, b = {fill} WHERE id IN (SELECT 1 FROM x)", slots: []string{"ctebody", "set"}},
	"ctedel":   {text: "WITH x AS (SELECT {ctebody} AS v) DELETE FROM t WHERE id IN (SELECT 2 FROM x) AND {where} AND b IS NOT {fill}", slots: []string{"ctebody", "where"}},
	"multi":    {text: "INSERT INTO t(a, b) VALUES({values}, {fill}); INSERT INTO t(a) VALUES('second')", slots: []string{"values"}},
}

var rwFills = map[string]string{
	"none": "0", "str": "'it''s'", "blob": "x'00FF'", "num": "-1.5e3", "null": "NULL", "curts": "CURRENT_TIMESTAMP",
	"collate": "'Ab' COLLATE NOCASE = 'aB'", "cast": "CAST('12abc' AS INTEGER)",
	"caseexpr": "CASE 2 WHEN 1 THEN 'x' WHEN 2 THEN 'y' ELSE 'z' END", "like": "'abc' LIKE 'A_c'",
	"likeesc": `'a_c' LIKE 'a\_c' ESCAPE '\'`, "glob": "'abc' GLOB 'a*'", "isnot": "1 IS NOT NULL", "notnull": "1 NOTNULL",
	"isnull": "NULL ISNULL", "between": "2 NOT BETWEEN 1 AND 3", "notin": "2 NOT IN (1, 3)", "concat": "'a' || 'b' || 1",
	"json": `'{"k":7}' ->> '$.k'`, "bitops": "~5 & 3 | 8 << 1", "arith": "7 / 2 * 1.0 - 3 % 2 - (1 - 2)", "neg": "- - 3",
	"hexint": "0x10", "bool": "TRUE", "ne": "1 != 2", "eqeq": "1 == 1", "exists": "EXISTS (SELECT 1)", "scalar": "(SELECT 5)",
	"rowvalue": "(1, 2) = (1, 2)", "qident": `(SELECT "q q" FROM (SELECT 3 AS "q q"))`,
}

var rwT1 = map[string]bool{"date": true, "time": true, "datetime": true, "julianday": true, "unixepoch": true}
var rwFns = map[string]bool{"random": true, "randomblob": true, "date": true, "time": true, "datetime": true, "julianday": true,
	"unixepoch": true, "strftime": true, "timediff": true}

func rwFormsOf(fn string) []string {
	switch {
	case fn == "random":
		return []string{"call"}
	case fn == "randomblob":
		return []string{"lit", "zero", "expr"}
	case rwT1[fn]:
		return []string{"now", "nowuc", "implicit", "other", "expr", "col"}
	case fn == "strftime":
		return []string{"now", "implicit", "other", "col"}
	case fn == "timediff":
		return []string{"now_other", "other_now", "now_now", "other_other"}
	}
	return nil
}

func rwWellFormed(s rwSite) bool {
	ok := false
	for _, f := range rwFormsOf(s.Fn) {
		if f == s.Form {
			ok = true
		}
	}
	if !ok {
		return false
	}
	if s.Mod != "none" && !((rwT1[s.Fn] || s.Fn == "strftime") && (s.Form == "now" || s.Form == "other")) {
		return false
	}
	return true
}

// --- the property's MustRewrite, mirrored from Rewrite.tla (only used for the variants built
// during minimisation; cross-checked against the spec's verdict on every generated case).
func rwInOrderBy(slot string) bool {
	return slot == "orderby" || slot == "suborderby" || slot == "winorder"
}
func rwCallSite(s rwSite) bool { return s.Nest != "string" && s.Nest != "ident" }
func rwNowArg(s rwSite) bool {
	switch {
	case rwT1[s.Fn]:
		return s.Form == "now" || s.Form == "nowuc" || s.Form == "implicit"
	case s.Fn == "strftime":
		return s.Form == "now" || s.Form == "implicit"
	case s.Fn == "timediff":
		return s.Form != "other_other"
	}
	return false
}
func rwMust(s rwSite) bool {
	if !rwCallSite(s) {
		return false
	}
	switch s.Fn {
	case "random":
		return !rwInOrderBy(s.Slot)
	case "randomblob":
		return s.Form == "lit" || s.Form == "zero"
	}
	return rwNowArg(s)
}
func rwExcluded(s rwSite) bool {
	return rwCallSite(s) && ((s.Fn == "random" && rwInOrderBy(s.Slot)) || (s.Fn == "randomblob" && s.Form == "expr"))
}
func (c *rwCase) reflag() {
	c.Untouched, c.SkipFaith = true, false
	for i := range c.Sites {
		c.Sites[i].Must = rwMust(c.Sites[i])
		if c.Sites[i].Must {
			c.Untouched = false
		}
		if rwExcluded(c.Sites[i]) {
			c.SkipFaith = true
		}
	}
	c.SkipDet = c.SkipFaith || c.Fill == "curts"
}

// ---------------------------------------------------------------- rendering

func rwName(fn, cs string) string {
	switch cs {
	case "upper":
		return strings.ToUpper(fn)
	case "mixed":
		var b strings.Builder
		for i, r := range fn {
			if i%2 == 0 {
				b.WriteString(strings.ToUpper(string(r)))
			} else {
				b.WriteString(string(r))
			}
		}
		return b.String()
	}
	return fn
}

const rwOther = "'2020-01-02 03:04:05'"

func rwCallText(s rwSite) string { return rwCallTextCol(s, "b") }

// rwColName is the column a time function reads its time value from (form "col") in a clause context of C14's templates.
func rwColName(tpl, slot string) string {
	switch tpl + "." + slot {
	case "join.joinon":
		return "u.b"
	case "ctesel.proj", "cteins.proj":
		return "v"
	}
	return "b"
}

// rwJoinSites puts the calls of two sites that share a clause context side by side in one expression of that clause:
// sibling arguments of printf (visited left to right), which keeps either value visible when the other one is NULL.
func rwJoinSites(texts []string) string {
	if len(texts) == 1 {
		return texts[0]
	}
	f := strings.TrimSuffix(strings.Repeat("%s~", len(texts)), "~")
	return "printf('" + f + "', " + strings.Join(texts, ", ") + ")"
}

func rwCallTextCol(s rwSite, col string) string {
	gap := map[string]string{"none": "", "space": " ", "newline": "\n", "comment": "/* c */"}[s.Gap]
	mod := map[string]string{"none": "", "plus": ", '+1 day'", "som2": ", 'start of month', '+12 hours'", "rawunix": ", 'unixepoch'"}[s.Mod]
	tv := map[string]string{"now": "'now'", "nowuc": "'NOW'", "other": rwOther, "expr": "'2021-02-03' || ' 04:05:06'", "col": col}
	var args string
	switch {
	case s.Fn == "random":
		args = ""
	case s.Fn == "randomblob":
		args = map[string]string{"lit": "4", "zero": "0", "expr": "2+2"}[s.Form]
	case rwT1[s.Fn]:
		if s.Form != "implicit" {
			args = tv[s.Form] + mod
		}
	case s.Fn == "strftime":
		args = "'%Y-%m-%d %H:%M:%f %s %J'"
		if s.Form != "implicit" {
			args += ", " + tv[s.Form] + mod
		}
	case s.Fn == "timediff":
		args = map[string]string{"now_other": "'now', " + rwOther, "other_now": rwOther + ", 'now'", "now_now": "'now', 'now'",
			"other_other": rwOther + ", '2019-12-31 23:00:00'"}[s.Form]
	}
	return rwName(s.Fn, s.Cs) + gap + "(" + args + ")"
}

func rwNest(nest, x string) string {
	switch nest {
	case "paren":
		return "(" + x + ")"
	case "call":
		return "coalesce(" + x + ", 0)"
	case "arith":
		return x + " || '~'"
	case "cast":
		return "CAST(" + x + " AS TEXT)"
	case "case":
		return "CASE WHEN 1 THEN " + x + " ELSE 0 END"
	case "isnull":
		return x + " IS NULL"
	case "between":
		return "5 BETWEEN 0 AND " + x
	case "subq":
		return "(SELECT " + x + ")"
	case "string":
		return "'" + strings.ReplaceAll(x, "'", "''") + "'"
	case "ident":
		q := `"` + strings.ReplaceAll(x, `"`, `""`) + `"`
		return "(SELECT " + q + " FROM (SELECT 7 AS " + q + "))"
	}
	return x
}

// rwRender renders the case; subst[i] (if present) replaces the call text of site i.
func rwRender(c *rwCase, subst map[int]string) (string, error) {
	t, ok := rwTemplates[c.Tpl]
	if !ok {
		return "", fmt.Errorf("unknown template %q", c.Tpl)
	}
	fill, ok := rwFills[c.Fill]
	if !ok {
		return "", fmt.Errorf("unknown filler %q", c.Fill)
	}
	out := t.text
	last := -1
	for i := 0; i < len(c.Sites); {
		s := c.Sites[i]
		pos := -1
		for k, sl := range t.slots {
			if sl == s.Slot {
				pos = k
			}
		}
		if pos < 0 || pos <= last {
			return "", fmt.Errorf("template %s: slot %q unknown or out of order", c.Tpl, s.Slot)
		}
		last = pos
		// consecutive sites with the same slot stand side by side in that clause
		var texts []string
		for ; i < len(c.Sites) && c.Sites[i].Slot == s.Slot; i++ {
			x := rwCallTextCol(c.Sites[i], rwColName(c.Tpl, s.Slot))
			if r, ok := subst[i]; ok {
				x = r
			}
			texts = append(texts, rwNest(c.Sites[i].Nest, x))
		}
		out = strings.Replace(out, "{"+s.Slot+"}", rwJoinSites(texts), 1)
	}
	for _, sl := range t.slots {
		out = strings.Replace(out, "{"+sl+"}", rwSlotDefault[sl], 1)
	}
	out = strings.Replace(out, "{fill}", fill, 1)
	return out, nil
}

// ---------------------------------------------------------------- token comparison

type rwTok struct {
	tok rsql.Token
	lit string
}

func rwScan(s string) []rwTok {
	sc := rsql.NewScanner(strings.NewReader(s))
	var out []rwTok
	for {
		_, tok, lit := sc.Scan()
		if tok == rsql.EOF {
			return out
		}
		if tok == rsql.COMMENT {
			continue
		}
		out = append(out, rwTok{tok, lit})
	}
}

func rwMatchParen(t []rwTok, lp int) int {
	depth := 0
	for i := lp; i < len(t); i++ {
		switch t[i].tok {
		case rsql.LP:
			depth++
		case rsql.RP:
			depth--
			if depth == 0 {
				return i
			}
		}
	}
	return -1
}

func rwSplitArgs(t []rwTok) [][]rwTok {
	if len(t) == 0 {
		return nil
	}
	var out [][]rwTok
	depth, start := 0, 0
	for i, x := range t {
		switch x.tok {
		case rsql.LP:
			depth++
		case rsql.RP:
			depth--
		case rsql.COMMA:
			if depth == 0 {
				out = append(out, t[start:i])
				start = i + 1
			}
		}
	}
	return append(out, t[start:])
}

func rwEqToks(a, b []rwTok) bool {
	if len(a) != len(b) {
		return false
	}
	for i := range a {
		if a[i] != b[i] {
			return false
		}
	}
	return true
}

func rwIsSiteStart(t []rwTok, i int) bool {
	return i+1 < len(t) && (t[i].tok == rsql.IDENT || t[i].tok == rsql.QIDENT) && rwFns[strings.ToLower(t[i].lit)] && t[i+1].tok == rsql.LP
}

func rwIsNowArg(a []rwTok) bool {
	return len(a) == 1 && (a[0].tok == rsql.STRING || a[0].tok == rsql.IDENT || a[0].tok == rsql.QIDENT) && strings.EqualFold(a[0].lit, "now")
}

// rwOutcome says what happened to one call site.
type rwOutcome struct {
	Kind string   // retained | pinned | literal
	Lit  string   // SQL text of the literal that replaced the call
	Pins []string // the numbers that replaced 'now' / the absent time value
	Now  int      // how many explicit now arguments the canonical call had
}

// rwAlign walks the parser's rendering of the original (canon) and the rewritten text in step.
// They come from the same syntax tree, so they may differ only where the rewriter changed a node.
func rwAlign(canon, out string) ([]rwOutcome, string) {
	C, O := rwScan(canon), rwScan(out)
	var res []rwOutcome
	i, j := 0, 0
	for i < len(C) {
		if !rwIsSiteStart(C, i) {
			if j >= len(O) || C[i] != O[j] {
				got := "<end>"
				if j < len(O) {
					got = O[j].lit
				}
				return res, fmt.Sprintf("token %d: %q became %q", i, C[i].lit, got)
			}
			i++
			j++
			continue
		}
		end := rwMatchParen(C, i+1)
		if end < 0 {
			return res, "unbalanced parentheses in canonical text"
		}
		argsC := rwSplitArgs(C[i+2 : end])
		oc := rwOutcome{}
		for _, a := range argsC {
			if rwIsNowArg(a) {
				oc.Now++
			}
		}
		switch {
		case j+1 < len(O) && O[j] == C[i] && O[j+1].tok == rsql.LP:
			endO := rwMatchParen(O, j+1)
			if endO < 0 {
				return res, "unbalanced parentheses in rewritten text"
			}
			argsO := rwSplitArgs(O[j+2 : endO])
			oc.Kind = "retained"
			switch {
			case len(argsO) == len(argsC):
				for p := range argsC {
					if rwEqToks(argsC[p], argsO[p]) {
						continue
					}
					if len(argsO[p]) == 1 && argsO[p][0].tok == rsql.FLOAT && rwIsNowArg(argsC[p]) {
						oc.Pins = append(oc.Pins, argsO[p][0].lit)
						continue
					}
					return res, fmt.Sprintf("call %s: argument %d changed unexpectedly", C[i].lit, p+1)
				}
			case len(argsO) == len(argsC)+1 && len(argsO[len(argsC)]) == 1 && argsO[len(argsC)][0].tok == rsql.FLOAT:
				for p := range argsC {
					if !rwEqToks(argsC[p], argsO[p]) {
						return res, fmt.Sprintf("call %s: argument %d changed unexpectedly", C[i].lit, p+1)
					}
				}
				oc.Pins = append(oc.Pins, argsO[len(argsC)][0].lit)
			default:
				return res, fmt.Sprintf("call %s: argument count %d became %d", C[i].lit, len(argsC), len(argsO))
			}
			if len(oc.Pins) > 0 {
				oc.Kind = "pinned"
			}
			i, j = end+1, endO+1
		case j < len(O) && (O[j].tok == rsql.INTEGER || O[j].tok == rsql.FLOAT):
			oc.Kind, oc.Lit = "literal", O[j].lit
			i, j = end+1, j+1
		case j < len(O) && O[j].tok == rsql.BLOB:
			oc.Kind, oc.Lit = "literal", "x'"+O[j].lit+"'"
			i, j = end+1, j+1
		case j+1 < len(O) && O[j].tok == rsql.MINUS && (O[j+1].tok == rsql.INTEGER || O[j+1].tok == rsql.FLOAT) && !(i > 0 && C[i-1].tok == rsql.MINUS):
			oc.Kind, oc.Lit = "literal", "-"+O[j+1].lit
			i, j = end+1, j+2
		default:
			got := "<end>"
			if j < len(O) {
				got = O[j].lit
			}
			return res, fmt.Sprintf("call %s became %q", C[i].lit, got)
		}
		res = append(res, oc)
	}
	if j != len(O) {
		return res, fmt.Sprintf("rewritten text has %d extra token(s), first %q", len(O)-j, O[j].lit)
	}
	return res, ""
}

// ---------------------------------------------------------------- SQLite side

type rwEnv struct {
	d        *db.DB
	timeFile string
	shim     bool
	base     string // dump of the pristine table
	dirty    bool
	runs     int
	delta    int64 // ms
}

const rwUnixEpochMs = int64(210866760000000) // julian-day milliseconds of 1970-01-01

func (e *rwEnv) freeze(ms int64) {
	if e.timeFile == "" {
		return
	}
	if err := os.WriteFile(e.timeFile, []byte(fmt.Sprintf("a %d %d\n", ms/1000, (ms%1000)*1000)), 0644); err != nil {
		panic(err)
	}
}
func (e *rwEnv) thaw() {
	if e.timeFile != "" {
		os.WriteFile(e.timeFile, []byte("\n"), 0644)
	}
}

func rwJDToMs(j float64) int64 { return int64(j*86400000.0+0.5) - rwUnixEpochMs }
func rwTimeToJD(t time.Time) float64 {
	return float64(t.UnixNano())/1e9/86400.0 + 2440587.5
}

const rwSeed = "INSERT INTO t(id, a, b) VALUES(1, 'x', '2020-05-06 07:08:09'), (2, 'p', 'q'), (3, NULL, 5)"
const rwDump = "SELECT id, quote(a), quote(b) FROM t ORDER BY id"

func (e *rwEnv) dump() string {
	rows, err := e.d.QueryStringStmt(rwDump)
	if err != nil {
		panic(err)
	}
	return rwNormRows(rows[0])
}

func (e *rwEnv) reset() {
	if !e.dirty {
		return
	}
	r, err := e.d.Request(&proto.Request{Transaction: true, Statements: []*proto.Statement{{Sql: "DELETE FROM t"}, {Sql: rwSeed}}}, false)
	if err != nil {
		panic(err)
	}
	for _, x := range r {
		if x.GetError() != "" || (x.GetE() != nil && x.GetE().Error != "") {
			panic("reset failed: " + x.String())
		}
	}
	e.dirty = false
}

func rwNormParam(p *proto.Parameter) string {
	if p == nil {
		return "null"
	}
	switch v := p.GetValue().(type) {
	case *proto.Parameter_I:
		return "i:" + strconv.FormatInt(v.I, 10)
	case *proto.Parameter_D:
		return "d:" + strconv.FormatFloat(v.D, 'g', -1, 64)
	case *proto.Parameter_B:
		return "b:" + strconv.FormatBool(v.B)
	case *proto.Parameter_Y:
		return fmt.Sprintf("y:%x", v.Y)
	case *proto.Parameter_S:
		return fmt.Sprintf("s:%x", v.S)
	}
	return "null"
}

func rwNormRows(q *proto.QueryRows) string {
	if q == nil {
		return "nil"
	}
	if q.Error != "" {
		return "ERR"
	}
	var b strings.Builder
	fmt.Fprintf(&b, "cols=%d", len(q.Columns))
	for _, v := range q.Values {
		b.WriteString("[")
		for k, p := range v.Parameters {
			if k > 0 {
				b.WriteString(",")
			}
			b.WriteString(rwNormParam(p))
		}
		b.WriteString("]")
	}
	return b.String()
}

// run executes one text on the scratch database exactly as the FSM would (db.Request) and
// returns the normalised result plus the table contents afterwards.
func (e *rwEnv) run(text string, forceQuery bool) string {
	e.reset()
	e.runs++
	resp, err := e.d.Request(&proto.Request{Statements: []*proto.Statement{{Sql: text, ForceQuery: forceQuery}}}, false)
	var b strings.Builder
	if err != nil {
		b.WriteString("REQERR")
	}
	for _, r := range resp {
		switch {
		case r.GetError() != "":
			b.WriteString("ERR")
		case r.GetQ() != nil:
			b.WriteString("Q:" + rwNormRows(r.GetQ()))
		case r.GetE() != nil:
			if r.GetE().Error != "" {
				b.WriteString("ERR")
			} else {
				fmt.Fprintf(&b, "E:%d/%d", r.GetE().LastInsertId, r.GetE().RowsAffected)
			}
		}
		b.WriteString(";")
	}
	d := e.dump()
	if d != e.base {
		e.dirty = true
	}
	return b.String() + " | " + d
}

// ---------------------------------------------------------------- evaluation of one case

type rwViol struct {
	Kind   string `json:"kind"`
	Site   int    `json:"site"` // -1 = statement level
	Detail string `json:"detail"`
}

type rwResult struct {
	In, Out  string
	Viol     []rwViol
	Rewrote  bool
	Observed bool // the three executions distinguish something (non-trivial)
	SpecGap  string
}

type rwOpts struct {
	noRewrite  bool // self-test: call Process with rewriting off
	perturb    bool // self-test: corrupt the pinned value / literal in the rewritten text
	syntaxOnly bool
}

func rwProcess(in string, opts rwOpts) (string, bool, error, time.Time, time.Time) {
	stmts := []*proto.Statement{{Sql: in}}
	t0 := time.Now()
	err := rwsql.Process(stmts, !opts.noRewrite, !opts.noRewrite)
	t1 := time.Now()
	return stmts[0].Sql, stmts[0].ForceQuery, err, t0, t1
}

func rwCanon(in string) (string, error) {
	st, err := rsql.NewParser(strings.NewReader(in)).ParseStatement()
	if err != nil {
		return "", err
	}
	return st.String(), nil
}

func (e *rwEnv) evaluate(c *rwCase, opts rwOpts) (*rwResult, error) {
	in, err := rwRender(c, nil)
	if err != nil {
		return nil, err
	}
	res := &rwResult{In: in}
	out, fq, perr, t0, t1 := rwProcess(in, opts)
	res.Out = out
	if perr != nil {
		res.Viol = append(res.Viol, rwViol{"error", -1, perr.Error()})
		return res, nil
	}
	res.Rewrote = out != in
	var calls []int // indexes of the sites that are real calls, textual order
	for i, s := range c.Sites {
		if rwCallSite(s) {
			calls = append(calls, i)
		}
	}
	outcomes := make([]rwOutcome, len(c.Sites))
	for i := range outcomes {
		outcomes[i].Kind = "retained"
	}
	mangled := ""
	if res.Rewrote {
		canon, err := rwCanon(in)
		if err != nil {
			mangled = "original does not parse but was changed: " + err.Error()
		} else {
			ocs, why := rwAlign(canon, out)
			switch {
			case why != "":
				mangled = why
			case len(ocs) != len(calls):
				mangled = fmt.Sprintf("the re-rendered statement has %d of the %d call sites", len(ocs), len(calls))
			default:
				for k, i := range calls {
					outcomes[i] = ocs[k]
				}
			}
		}
	}
	if mangled != "" {
		res.Viol = append(res.Viol, rwViol{"mangled", -1, mangled})
		return res, nil
	}
	// (i) syntactic verdicts
	var pins []string
	subst := map[int]string{}
	for i, s := range c.Sites {
		oc := outcomes[i]
		replaced := oc.Kind != "retained"
		if oc.Kind == "pinned" && s.Fn == "timediff" && s.Form == "now_now" && len(oc.Pins) < 2 {
			replaced = false
		}
		switch {
		case s.Must && !replaced:
			res.Viol = append(res.Viol, rwViol{"miss", i, rwCallText(s) + " left as is"})
		case !s.Must && replaced:
			res.Viol = append(res.Viol, rwViol{"over", i, rwCallText(s) + " was replaced: " + oc.Lit + strings.Join(oc.Pins, ",")})
		}
		pins = append(pins, oc.Pins...)
		if oc.Kind == "literal" {
			subst[i] = oc.Lit
			// value checks
			switch s.Fn {
			case "random":
				if _, err := strconv.ParseInt(oc.Lit, 10, 64); err != nil {
					res.Viol = append(res.Viol, rwViol{"badvalue", i, "random() became " + oc.Lit + ", not a 64-bit integer"})
				}
			case "randomblob":
				want := map[string]int{"lit": 4, "zero": 1}[s.Form]
				if !strings.HasPrefix(oc.Lit, "x'") || len(oc.Lit)-3 != 2*want {
					res.Viol = append(res.Viol, rwViol{"badvalue", i, fmt.Sprintf("%s became %s, want a %d-byte blob", rwCallText(s), oc.Lit, want)})
				}
			default:
				res.Viol = append(res.Viol, rwViol{"badvalue", i, rwCallText(s) + " became the literal " + oc.Lit})
			}
		}
	}
	if c.Untouched && res.Rewrote {
		res.Viol = append(res.Viol, rwViol{"touched", -1, "no call had to be replaced, yet the statement was re-rendered"})
	}
	frozen := time.Now().UnixMilli()
	if len(pins) > 0 {
		for _, p := range pins[1:] {
			if p != pins[0] {
				res.Viol = append(res.Viol, rwViol{"pins", -1, "two time values in one statement: " + pins[0] + " and " + p})
			}
		}
		j, err := strconv.ParseFloat(pins[0], 64)
		if err != nil {
			res.Viol = append(res.Viol, rwViol{"badvalue", -1, "pinned value " + pins[0] + " is not a number"})
			return res, nil
		}
		lo, hi := rwTimeToJD(t0)-1.5e-6, rwTimeToJD(t1)+1.5e-6
		if !opts.perturb && (j < lo || j > hi) {
			res.Viol = append(res.Viol, rwViol{"badvalue", -1, fmt.Sprintf("pinned julian day %s outside the rewrite instant [%.6f, %.6f]", pins[0], lo, hi)})
		}
		frozen = rwJDToMs(j)
	}
	if len(res.Viol) > 0 || opts.syntaxOnly || !e.shim {
		return res, nil
	}
	// (ii) semantics on real SQLite
	if opts.perturb && res.Rewrote {
		out = rwPerturb(out)
	}
	e.freeze(frozen)
	rJ := e.run(out, fq)
	if !c.SkipDet {
		e.freeze(frozen + e.delta)
		rD := e.run(out, fq)
		if rD != rJ {
			if c.Untouched {
				res.SpecGap = "statement without a must-rewrite site is time dependent"
			} else {
				res.Viol = append(res.Viol, rwViol{"nondet", -1, "rewritten statement gives different results at different times: " + rwClip(rJ) + " vs " + rwClip(rD)})
			}
		}
	}
	if res.Rewrote && !c.SkipFaith {
		exp, err := rwRender(c, subst)
		if err != nil {
			return nil, err
		}
		e.freeze(frozen)
		eJ := e.run(exp, fq)
		if eJ != rJ {
			res.Viol = append(res.Viol, rwViol{"unfaithful", -1, "original at the pinned instant: " + rwClip(eJ) + "; rewritten: " + rwClip(rJ)})
		}
		// non-trivial: the original really depends on the clock / the random source
		res.Observed = true
	}
	e.thaw()
	return res, nil
}

func rwClip(s string) string {
	if len(s) > 300 {
		return s[:300] + "..."
	}
	return s
}

// rwPerturb corrupts the first pinned number / integer literal of at least 15 digits / blob literal.
func rwPerturb(out string) string {
	toks := rwScan(out)
	for _, t := range toks {
		switch {
		case t.tok == rsql.FLOAT && strings.HasPrefix(t.lit, "24") && strings.Contains(t.lit, "."):
			f, _ := strconv.ParseFloat(t.lit, 64)
			return strings.Replace(out, t.lit, fmt.Sprintf("%f", f+40.25), 1)
		case t.tok == rsql.INTEGER && len(t.lit) >= 15:
			return strings.Replace(out, t.lit, "1"+t.lit[1:len(t.lit)-1], 1)
		case t.tok == rsql.BLOB && len(t.lit) >= 2 && t.lit != "00FF":
			return strings.Replace(out, "x'"+t.lit+"'", "x'"+t.lit+"00'", 1)
		}
	}
	return out
}

// ---------------------------------------------------------------- minimisation -> key

func rwClass(fn string) string {
	switch fn {
	case "random", "randomblob":
		return fn
	}
	return "time"
}

func rwHasKind(r *rwResult, kind string) bool {
	for _, v := range r.Viol {
		if v.Kind == kind {
			return true
		}
	}
	return false
}

func (e *rwEnv) fails(c *rwCase, kind string, opts rwOpts) bool {
	for _, s := range c.Sites {
		if !rwWellFormed(s) {
			return false
		}
	}
	c.reflag()
	r, err := e.evaluate(c, opts)
	return err == nil && rwHasKind(r, kind)
}

// minimise resets one grammar dimension after the other to its plain value and keeps the reset
// whenever the real code still fails in the same way; the remaining non-plain features name the class.
func (e *rwEnv) minimise(c0 *rwCase, kind string, opts rwOpts) string {
	cur := c0.clone()
	try := func(v *rwCase) {
		if e.fails(v, kind, opts) {
			cur = v
		}
	}
	for i := len(cur.Sites) - 1; i >= 0; i-- {
		if i < len(cur.Sites) {
			v := cur.clone()
			v.Sites = append(v.Sites[:i:i], v.Sites[i+1:]...)
			try(v)
		}
	}
	if cur.Fill != "none" {
		v := cur.clone()
		v.Fill = "none"
		try(v)
	}
	for i := range cur.Sites {
		for _, dim := range []string{"gap", "cs", "nest", "mod", "form", "fn"} {
			v := cur.clone()
			s := &v.Sites[i]
			switch dim {
			case "gap":
				s.Gap = "none"
			case "cs":
				s.Cs = "lower"
			case "nest":
				s.Nest = "bare"
			case "mod":
				s.Mod = "none"
			case "form":
				s.Form = rwFormsOf(s.Fn)[0]
				if s.Fn == "timediff" {
					s.Form = "other_now"
				}
			case "fn":
				if rwClass(s.Fn) == "time" && s.Fn != "datetime" {
					if s.Fn == "timediff" {
						if s.Form == "other_other" {
							s.Form = "other"
						} else {
							s.Form = "now"
						}
					}
					s.Fn = "datetime"
				}
			}
			if *s != cur.Sites[i] {
				try(v)
			}
		}
	}
	if len(cur.Sites) == 1 && !(cur.Tpl == "select" && cur.Sites[0].Slot == "proj") {
		v := cur.clone()
		v.Tpl, v.Sites[0].Slot = "select", "proj"
		try(v)
	} else if len(cur.Sites) == 0 && cur.Tpl != "select" {
		v := cur.clone()
		v.Tpl = "select"
		try(v)
	}
	// the key
	var parts []string
	if len(cur.Sites) == 0 {
		parts = append(parts, "nosite")
		if cur.Tpl != "select" {
			parts = append(parts, "tpl="+cur.Tpl)
		}
	}
	if len(cur.Sites) > 1 {
		parts = append(parts, fmt.Sprintf("sites=%d", len(cur.Sites)))
	}
	for _, s := range cur.Sites {
		f := []string{rwClass(s.Fn)}
		if !(cur.Tpl == "select" && s.Slot == "proj") {
			f = append(f, "ctx="+cur.Tpl+"."+s.Slot)
		}
		if rwClass(s.Fn) == "time" && s.Fn != "datetime" {
			f = append(f, "fn="+s.Fn)
		}
		def := rwFormsOf(s.Fn)[0]
		if s.Fn == "timediff" {
			def = "other_now"
		}
		if s.Form != def {
			f = append(f, "form="+s.Form)
		}
		if s.Mod != "none" {
			f = append(f, "mod="+s.Mod)
		}
		if s.Nest != "bare" {
			f = append(f, "nest="+s.Nest)
		}
		if s.Cs != "lower" {
			f = append(f, "cs="+s.Cs)
		}
		if s.Gap != "none" {
			f = append(f, "gap="+s.Gap)
		}
		parts = append(parts, strings.Join(f, ":"))
	}
	if cur.Fill != "none" {
		parts = append(parts, "fill="+cur.Fill)
	}
	return "rewrite:" + kind + ":" + strings.Join(parts, "+")
}

// stepping clock: Rewriter.Do (the code Process runs after parsing) driven with a clock that
// advances one second per reading; every 'now' of one statement must still get one value.
func rwSteppingPins(in string) ([]string, error) {
	st, err := rsql.NewParser(strings.NewReader(in)).ParseStatement()
	if err != nil {
		return nil, nil // unparsable statements are never rewritten
	}
	canon := st.String()
	rw := rwsql.NewRewriter()
	now := time.Now()
	rw.VerifSetClock(func() time.Time { now = now.Add(time.Second); return now })
	st2, err := rsql.NewParser(strings.NewReader(in)).ParseStatement()
	if err != nil {
		return nil, err
	}
	o, _, _, err := rw.Do(st2)
	if err != nil {
		return nil, err
	}
	ocs, why := rwAlign(canon, o.String())
	if why != "" {
		return nil, nil // reported by the main replay
	}
	var pins []string
	for _, oc := range ocs {
		pins = append(pins, oc.Pins...)
	}
	return pins, nil
}

// ---------------------------------------------------------------- the command

func rwOpen(dir string) (*rwEnv, error) {
	d, err := db.Open(filepath.Join(dir, "c14.db"), false, true)
	if err != nil {
		return nil, err
	}
	if err := d.SetSynchronousMode(db.SynchronousOff); err != nil {
		return nil, err
	}
	if _, err := d.ExecuteStringStmt("CREATE TABLE t(id INTEGER PRIMARY KEY, a, b)"); err != nil {
		return nil, err
	}
	if _, err := d.ExecuteStringStmt(rwSeed); err != nil {
		return nil, err
	}
	e := &rwEnv{d: d, timeFile: os.Getenv("VERIF_TIME_FILE"), delta: ((400*24+7)*3600+13*60+17)*1000 + 500}
	e.base = e.dump()
	// is SQLite's clock really under our control, and Go's not?
	if e.timeFile != "" {
		e.freeze(978307200123) // 2001-01-01 00:00:00.123
		rows, err := d.QueryStringStmt("SELECT strftime('%Y-%m-%d %H:%M:%f', 'now'), julianday('now'), julianday(2451910.500001)")
		e.thaw()
		if err != nil {
			return nil, err
		}
		got := rwNormRows(rows[0])
		e.shim = strings.Contains(got, fmt.Sprintf("%x", "2001-01-01 00:00:00.123")) && time.Now().Year() > 2020
	}
	return e, nil
}

func rewriteReplay(args []string) error {
	fs := flag.NewFlagSet("rewrite-replay", flag.ExitOnError)
	in := fs.String("in", "cases.ndjson", "")
	outp := fs.String("out", "mismatch.ndjson", "")
	mode := fs.String("mode", "check", "check | norewrite | perturb")
	needShim := fs.Bool("need-shim", true, "fail when the clock shim is not active")
	keySuffix := fs.String("key-suffix", "", "appended to every violation key (names the environment of this run, e.g. +tz=nonutc)")
	fs.Parse(args)
	raw, err := os.ReadFile(*in)
	if err != nil {
		return err
	}
	w, err := newND(*outp)
	if err != nil {
		return err
	}
	defer w.Close()
	dir, err := os.MkdirTemp("", "rewrite")
	if err != nil {
		return err
	}
	defer os.RemoveAll(dir)
	e, err := rwOpen(dir)
	if err != nil {
		return err
	}
	defer e.d.Close()
	if *needShim && !e.shim {
		return fmt.Errorf("clock shim not active (LD_PRELOAD / VERIF_TIME_FILE)")
	}
	opts := rwOpts{noRewrite: *mode == "norewrite", perturb: *mode == "perturb", syntaxOnly: *mode == "norewrite"}
	st := map[string]int{}
	kinds := map[string]int{}
	texts := map[string]bool{}
	nontrivial := map[string]bool{}
	var samples []map[string]string
	keyCache := map[string]string{}
	for ln, line := range strings.Split(string(raw), "\n") {
		if strings.TrimSpace(line) == "" {
			continue
		}
		var c rwCase
		if err := json.Unmarshal([]byte(line), &c); err != nil {
			return fmt.Errorf("line %d: %v", ln+1, err)
		}
		// the Go mirror of MustRewrite must agree with the spec (it is used for minimisation)
		chk := c.clone()
		chk.reflag()
		if chk.Untouched != c.Untouched || chk.SkipDet != c.SkipDet || chk.SkipFaith != c.SkipFaith {
			return fmt.Errorf("line %d: harness flags disagree with the spec: %s", ln+1, line)
		}
		for i := range c.Sites {
			if chk.Sites[i].Must != c.Sites[i].Must || !rwWellFormed(c.Sites[i]) {
				return fmt.Errorf("line %d: harness MustRewrite disagrees with the spec at site %d: %s", ln+1, i, line)
			}
			st["sites"]++
			if c.Sites[i].Must {
				st["must_sites"]++
			}
		}
		r, err := e.evaluate(&c, opts)
		if err != nil {
			return fmt.Errorf("line %d: %v", ln+1, err)
		}
		st["cases"]++
		texts[r.In] = true
		if r.Rewrote {
			st["rewritten"]++
		}
		if !c.Untouched {
			st["must_cases"]++
		}
		if r.Observed {
			nontrivial[r.In] = true
		}
		if r.SpecGap != "" {
			st["specgap"]++
			w.Write(map[string]any{"specgap": r.SpecGap, "in": r.In, "out": r.Out, "case": c})
		}
		if len(samples) < 6 && r.Rewrote && st["cases"]%997 == 1 {
			samples = append(samples, map[string]string{"in": r.In, "out": r.Out})
		}
		if opts.noRewrite {
			if !c.Untouched && rwHasKind(r, "miss") {
				st["selftest_flagged"]++
			}
			continue
		}
		if opts.perturb {
			if rwHasKind(r, "unfaithful") {
				st["selftest_flagged"]++
			} else if r.Rewrote {
				w.Write(map[string]any{"unflagged": true, "in": r.In, "out": r.Out})
			}
			continue
		}
		// stepping clock for statements with several time sites
		if len(c.Sites) >= 2 {
			pins, err := rwSteppingPins(r.In)
			if err != nil {
				return err
			}
			st["stepping_runs"]++
			for _, p := range pins {
				if p != pins[0] {
					r.Viol = append(r.Viol, rwViol{"pins", -1, "with a clock that advances between readings the 'now' values of one statement differ: " + pins[0] + " and " + p})
					break
				}
			}
		}
		seen := map[string]bool{}
		for _, v := range r.Viol {
			if seen[v.Kind] {
				continue
			}
			seen[v.Kind] = true
			kinds[v.Kind]++
			var key string
			if v.Kind == "pins" {
				key = "rewrite:pins:per-call-clock"
			} else if v.Kind == "error" {
				key = "rewrite:refused:fill=" + c.Fill
			} else {
				cj, _ := json.Marshal(c)
				ck := v.Kind + string(cj)
				if k, ok := keyCache[ck]; ok {
					key = k
				} else {
					key = e.minimise(&c, v.Kind, opts)
					keyCache[ck] = key
				}
			}
			key += *keySuffix
			w.Write(map[string]any{"key": key, "kind": v.Kind, "site": v.Site, "detail": v.Detail, "in": r.In, "out": r.Out, "case": c})
		}
		if len(r.Viol) > 0 {
			st["violating_cases"]++
		}
	}
	st["distinct_texts"] = len(texts)
	st["distinct_nontrivial"] = len(nontrivial)
	st["sqlite_runs"] = e.runs
	res := map[string]any{"stats": st, "kinds": kinds, "samples": samples, "shim": e.shim, "mode": *mode}
	b, _ := json.Marshal(res)
	fmt.Println(string(b))
	return nil
}

// rewriteShow prints, for each case of the input, the rendered text and what Process made of it.
func rewriteShow(args []string) error {
	fs := flag.NewFlagSet("rewrite-show", flag.ExitOnError)
	in := fs.String("in", "cases.ndjson", "")
	fs.Parse(args)
	raw, err := os.ReadFile(*in)
	if err != nil {
		return err
	}
	for _, line := range strings.Split(string(raw), "\n") {
		if strings.TrimSpace(line) == "" {
			continue
		}
		var c rwCase
		if err := json.Unmarshal([]byte(line), &c); err != nil {
			return err
		}
		text, err := rwRender(&c, nil)
		if err != nil {
			return err
		}
		out, fq, perr, _, _ := rwProcess(text, rwOpts{})
		fmt.Printf("IN : %s\nOUT: %s\n     force=%v err=%v\n", text, out, fq, perr)
	}
	return nil
}
