package main

// cdc-trace (C25): N real cdc.Service instances (real batcher, real bbolt FIFO, real HTTP sink) over a
// SCRIPTED implementation of cdc.Cluster - leadership, HWM broadcast delivery and snapshot sync are
// driven by the harness - each fed by a real rqlite database whose preupdate/commit/rollback hooks are
// the real db.CDCStreamer, reset per log entry exactly as store.fsmApply does.  The harness plays the
// FSM: "apply entry k on node n" = streamer.Reset(k) + db.Request(statements of entry k).  A recording
// HTTP endpoint (httptest) can be told to refuse requests.  Hook events (cdcs.*, cdc.*, fifo.*) and
// harness events go into one ordered ndjson trace validated by TraceCDC.tla; the payloads the
// endpoint accepted are resolved to (entry, commit ordinal, label) from the row changes they carry.
//
// cdc-live: one scenario on the shared live 3-node cluster with the real wiring (store.EnableCDC,
// cdc.CDCCluster over the real cluster service / client, leadership from Raft observations).

import (
	"encoding/json"
	"errors"
	"flag"
	"fmt"
	"io"
	"math/rand"
	"net/http"
	"net/http/httptest"
	"os"
	"path/filepath"
	"regexp"
	"sort"
	"strings"
	"sync"
	"sync/atomic"
	"time"

	"github.com/rqlite/rqlite/v10/cdc"
	cdcjson "github.com/rqlite/rqlite/v10/cdc/json"
	"github.com/rqlite/rqlite/v10/command/proto"
	"github.com/rqlite/rqlite/v10/db"
	"github.com/rqlite/rqlite/v10/internal/rsync"
	"github.com/rqlite/rqlite/v10/internal/vhook"
	"github.com/rqlite/rqlite/v10/store"
)

func init() {
	register("cdc-trace", cdcTrace)
}

// ---------------------------------------------------------------- workload (the committed log)

type cdcChange struct {
	Op    string // I U D
	RowID int64
	Tok   int64 // tok after (I, U) or before (D): unique per change
}

func (c cdcChange) sig() string { return fmt.Sprintf("%s/%d/%d", c.Op, c.RowID, c.Tok) }

type cdcEntry struct {
	K      int
	Kind   string
	Tx     bool
	Stmts  []string
	Groups [][]cdcChange // expected commit groups with changes on the captured table, in order
}

const cdcSchema = "CREATE TABLE t(id INTEGER PRIMARY KEY, tok INTEGER, v TEXT);CREATE TABLE u(id INTEGER PRIMARY KEY, tok INTEGER)"

var cdcTableRe = regexp.MustCompile("^t$")

// cdcGen builds entries over a model of table t (rowid -> tok); every statement writes a token unique
// to (entry, statement), and no row is touched twice within one entry.
type cdcGen struct {
	rng    *rand.Rand
	rows   map[int64]int64
	nextID int64
	log    []*cdcEntry
}

func newCDCGen(rng *rand.Rand) *cdcGen {
	return &cdcGen{rng: rng, rows: map[int64]int64{}, nextID: 1}
}

type cdcStmt struct {
	sql string
	chg []cdcChange
}

func (g *cdcGen) stmt(k, s int, used map[int64]bool, kind string) cdcStmt {
	tok := int64(k*100 + s)
	free := []int64{}
	for id := range g.rows {
		if !used[id] {
			free = append(free, id)
		}
	}
	sort.Slice(free, func(i, j int) bool { return free[i] < free[j] })
	if kind == "" {
		kind = []string{"ins", "ins", "upd", "del", "ins2"}[g.rng.Intn(5)]
	}
	if (kind == "upd" || kind == "del") && len(free) == 0 {
		kind = "ins"
	}
	switch kind {
	case "upd":
		id := free[g.rng.Intn(len(free))]
		used[id] = true
		g.rows[id] = tok
		return cdcStmt{fmt.Sprintf("UPDATE t SET tok=%d WHERE id=%d", tok, id), []cdcChange{{"U", id, tok}}}
	case "del":
		id := free[g.rng.Intn(len(free))]
		used[id] = true
		old := g.rows[id]
		delete(g.rows, id)
		return cdcStmt{fmt.Sprintf("DELETE FROM t WHERE id=%d", id), []cdcChange{{"D", id, old}}}
	case "ins2":
		a, b := g.nextID, g.nextID+1
		g.nextID += 2
		used[a], used[b] = true, true
		g.rows[a], g.rows[b] = tok, tok
		return cdcStmt{fmt.Sprintf("INSERT INTO t(id,tok,v) VALUES(%d,%d,'a'),(%d,%d,'b')", a, tok, b, tok),
			[]cdcChange{{"I", a, tok}, {"I", b, tok}}}
	case "other":
		id := g.nextID
		g.nextID++
		return cdcStmt{fmt.Sprintf("INSERT INTO u(id,tok) VALUES(%d,%d)", id, tok), nil}
	case "noop":
		return cdcStmt{fmt.Sprintf("UPDATE t SET tok=%d WHERE id=-1", tok), nil}
	case "dup": // fails: primary key exists (needs an existing row)
		var id int64 = -1
		for r := range g.rows {
			if id < 0 || r < id {
				id = r
			}
		}
		if id < 0 {
			return cdcStmt{fmt.Sprintf("UPDATE t SET tok=%d WHERE id=-1", tok), nil}
		}
		return cdcStmt{fmt.Sprintf("INSERT INTO t(id,tok,v) VALUES(%d,%d,'dup')", id, tok), nil}
	}
	id := g.nextID
	g.nextID++
	used[id] = true
	g.rows[id] = tok
	return cdcStmt{fmt.Sprintf("INSERT INTO t(id,tok,v) VALUES(%d,%d,'x')", id, tok), []cdcChange{{"I", id, tok}}}
}

var cdcKinds = []string{"single", "single", "multi-notx", "multi-notx", "multi-tx", "begin-commit", "noop", "other-table", "mixed-table", "fail-mid"}

// add appends one entry of the given kind ("" = random) and returns it.
func (g *cdcGen) add(kind string) *cdcEntry {
	if kind == "" {
		kind = cdcKinds[g.rng.Intn(len(cdcKinds))]
	}
	k := len(g.log) + 1
	e := &cdcEntry{K: k, Kind: kind}
	used := map[int64]bool{}
	grp := func(ss ...cdcStmt) {
		var c []cdcChange
		for _, s := range ss {
			c = append(c, s.chg...)
		}
		if len(c) > 0 {
			e.Groups = append(e.Groups, c)
		}
	}
	sqls := func(ss ...cdcStmt) {
		for _, s := range ss {
			e.Stmts = append(e.Stmts, s.sql)
		}
	}
	switch kind {
	case "single":
		s := g.stmt(k, 1, used, "")
		sqls(s)
		grp(s)
	case "multi-notx", "multi-notx-2": // one commit, hence one group, per statement
		n := 2 + g.rng.Intn(2)
		if kind == "multi-notx-2" {
			n = 2
		}
		for i := 1; i <= n; i++ {
			s := g.stmt(k, i, used, "")
			sqls(s)
			grp(s)
		}
	case "multi-tx":
		e.Tx = true
		var ss []cdcStmt
		for i := 1; i <= 2+g.rng.Intn(2); i++ {
			ss = append(ss, g.stmt(k, i, used, ""))
		}
		sqls(ss...)
		grp(ss...)
	case "begin-commit": // explicit transaction inside a request without the flag, then one more statement
		a, b, c := g.stmt(k, 1, used, ""), g.stmt(k, 2, used, ""), g.stmt(k, 3, used, "")
		e.Stmts = []string{"BEGIN", a.sql, b.sql, "COMMIT", c.sql}
		grp(a, b)
		grp(c)
	case "noop":
		s := g.stmt(k, 1, used, "noop")
		sqls(s)
	case "other-table":
		s := g.stmt(k, 1, used, "other")
		sqls(s)
	case "mixed-table":
		a, b := g.stmt(k, 1, used, "other"), g.stmt(k, 2, used, "ins")
		sqls(a, b)
		grp(a)
		grp(b)
	case "fail-mid":
		a, f, c := g.stmt(k, 1, used, "ins"), g.stmt(k, 2, used, "dup"), g.stmt(k, 3, used, "")
		sqls(a, f, c)
		grp(a)
		grp(c)
	default:
		panic("unknown entry kind " + kind)
	}
	g.log = append(g.log, e)
	return e
}

func cdcRequest(e *cdcEntry) *proto.Request {
	r := &proto.Request{Transaction: e.Tx}
	for _, s := range e.Stmts {
		r.Statements = append(r.Statements, &proto.Statement{Sql: s})
	}
	return r
}

func cdcDumpT(d *db.DB) (map[int64]int64, error) {
	rows, err := d.QueryStringStmt("SELECT id, tok FROM t ORDER BY id")
	if err != nil {
		return nil, err
	}
	out := map[int64]int64{}
	for _, r := range rows {
		if r.Error != "" {
			return nil, errors.New(r.Error)
		}
		for _, v := range r.Values {
			out[v.Parameters[0].GetI()] = v.Parameters[1].GetI()
		}
	}
	return out, nil
}

// cdcCheckLog runs the log on a reference database without any hooks and compares the row changes
// of every entry (table diff) with the union of the entry's expected groups: the oracle for "the row
// changes implied by the committed log" is the database itself, not the generator.
func cdcCheckLog(dir string, log []*cdcEntry) error {
	p := filepath.Join(dir, "ref.db")
	d, err := db.Open(p, false, true)
	if err != nil {
		return err
	}
	defer d.Close()
	if _, err := d.ExecuteStringStmt(cdcSchema); err != nil {
		return err
	}
	before, err := cdcDumpT(d)
	if err != nil {
		return err
	}
	for _, e := range log {
		if _, err := d.Request(cdcRequest(e), false); err != nil {
			return err
		}
		after, err := cdcDumpT(d)
		if err != nil {
			return err
		}
		want := map[string]bool{}
		for id, tok := range after {
			if old, ok := before[id]; !ok {
				want[cdcChange{"I", id, tok}.sig()] = true
			} else if old != tok {
				want[cdcChange{"U", id, tok}.sig()] = true
			}
		}
		for id, tok := range before {
			if _, ok := after[id]; !ok {
				want[cdcChange{"D", id, tok}.sig()] = true
			}
		}
		got := map[string]bool{}
		for _, g := range e.Groups {
			for _, c := range g {
				got[c.sig()] = true
			}
		}
		if len(got) != len(want) {
			return fmt.Errorf("workload generator and reference database disagree on entry %d (%s): %v vs %v", e.K, e.Kind, got, want)
		}
		for s := range want {
			if !got[s] {
				return fmt.Errorf("workload generator and reference database disagree on entry %d (%s): %v vs %v", e.K, e.Kind, got, want)
			}
		}
		before = after
	}
	return nil
}

// ---------------------------------------------------------------- scripted cluster

type cdcStub struct {
	h        *cdcH
	id       string
	mu       sync.Mutex
	leaderCh chan<- bool
	hwmCh    chan<- uint64
	sync     *rsync.SyncChannels
}

func (c *cdcStub) RegisterLeaderChange(ch chan<- bool) {
	c.mu.Lock()
	c.leaderCh = ch
	c.mu.Unlock()
}
func (c *cdcStub) RegisterSnapshotSync(ch chan<- chan struct{}) { c.sync.Register(ch) }
func (c *cdcStub) RegisterHWMUpdate(ch chan<- uint64) {
	c.mu.Lock()
	c.hwmCh = ch
	c.mu.Unlock()
}
func (c *cdcStub) BroadcastHighWatermark(v uint64) error { return c.h.broadcast(c.id, v) }

// deliver hands v to this node's HWM channel the way cluster.Service does: without blocking.
func (c *cdcStub) deliver(v uint64) bool {
	c.mu.Lock()
	ch := c.hwmCh
	c.mu.Unlock()
	if ch == nil {
		return false
	}
	select {
	case ch <- v:
		return true
	default:
		return false
	}
}

// ---------------------------------------------------------------- endpoint

type cdcAccepted struct {
	From   string
	Groups [][3]int // entry, ordinal, label
}

type cdcEndpoint struct {
	h        *cdcH
	mu       sync.Mutex
	up       bool
	srv      *httptest.Server
	accepted []cdcAccepted
	requests int
	refused  int
}

func (e *cdcEndpoint) setUp(up bool) {
	e.mu.Lock()
	if e.up != up {
		e.up = up
		emit("", "ep.mode", "up", up)
	}
	e.mu.Unlock()
}

func (e *cdcEndpoint) isUp() bool {
	e.mu.Lock()
	defer e.mu.Unlock()
	return e.up
}

func (e *cdcEndpoint) ServeHTTP(w http.ResponseWriter, r *http.Request) {
	body, err := io.ReadAll(r.Body)
	if err != nil {
		w.WriteHeader(400)
		return
	}
	var env cdcjson.CDCMessagesEnvelope
	if err := json.Unmarshal(body, &env); err != nil {
		e.h.payloadBad("payload:not-json", string(body))
		w.WriteHeader(400)
		return
	}
	e.mu.Lock()
	e.requests++
	up := e.up
	groups := make([][3]int, 0, len(env.Payload))
	for _, m := range env.Payload {
		groups = append(groups, e.h.resolve(m))
	}
	emit("", "ep.rx", "from", env.NodeID, "ok", up, "groups", groups)
	if up {
		e.accepted = append(e.accepted, cdcAccepted{env.NodeID, groups})
	} else {
		e.refused++
	}
	e.mu.Unlock()
	if !up {
		w.WriteHeader(http.StatusServiceUnavailable)
		return
	}
	w.WriteHeader(http.StatusOK)
}

// ---------------------------------------------------------------- nodes

type cdcCounters struct {
	commit, dropped, inTotal, inKept, markers, batchedObj, batches, enq atomic.Int64
	lead, holding, parked                                               atomic.Bool
	leadEvents, events                                                  atomic.Int64
}

func (c *cdcCounters) resetPipeline() {
	c.commit.Store(0)
	c.dropped.Store(0)
	c.inTotal.Store(0)
	c.inKept.Store(0)
	c.markers.Store(0)
	c.batchedObj.Store(0)
	c.batches.Store(0)
	c.enq.Store(0)
	c.holding.Store(false)
	c.parked.Store(false)
}

func (c *cdcCounters) pipelineIdle() bool {
	return c.commit.Load()-c.dropped.Load() == c.inTotal.Load() &&
		c.inKept.Load()+c.markers.Load() == c.batchedObj.Load() &&
		c.batches.Load() == c.enq.Load()
}

type cdcNode struct {
	id      string
	dir     string
	d       *db.DB
	st      *db.CDCStreamer
	svc     *cdc.Service
	stub    *cdcStub
	applied int
	snap    int
	want    bool // leadership as last told
}

type cdcParams struct {
	BatchSz     int
	BatchDelay  time.Duration
	HWMInterval time.Duration
	Backoff     time.Duration
}

// cdcFlap is a burst of back-to-back leadership signals in progress on one node.
type cdcFlap struct {
	ch       chan<- bool
	sent     atomic.Int64 // signals put on the channel so far
	arrivals atomic.Int64 // leader loops that reached the gate before their first stop check
	hold     bool
}

func (f *cdcFlap) consumed() int64 { return f.sent.Load() - int64(len(f.ch)) }

type cdcHeld struct {
	to string
	v  uint64
}

type cdcH struct {
	w       *ndWriter
	base    string
	par     cdcParams
	ep      *cdcEndpoint
	nodes   map[string]*cdcNode
	order   []string
	cnt     map[string]*cdcCounters
	log     []*cdcEntry
	sigs    map[string][2]int
	expect  map[[2]int]map[string]bool
	mu      sync.Mutex
	hold    bool
	held    []cdcHeld
	bad     []map[string]any // payload-level mismatches found by the harness itself
	notes   []string
	nevents atomic.Int64
	flapMu  sync.Mutex
	flap    map[string]*cdcFlap
	stuck   string
	// live cluster: entry number of the workload -> Raft log index (known when Execute returns)
	liveMu sync.Mutex
	live   map[int]int
}

// setLog makes the generator's entries the committed log and indexes the row changes of every commit.
func (h *cdcH) setLog(g *cdcGen) {
	h.ep.mu.Lock()
	defer h.ep.mu.Unlock()
	h.log = g.log
	for _, e := range h.log {
		for j, grp := range e.Groups {
			kj := [2]int{e.K, j + 1}
			h.expect[kj] = map[string]bool{}
			for _, c := range grp {
				h.sigs[c.sig()] = kj
				h.expect[kj][c.sig()] = true
			}
		}
	}
}

func (h *cdcH) payloadBad(class string, detail any) {
	h.mu.Lock()
	h.bad = append(h.bad, map[string]any{"class": class, "detail": detail})
	h.mu.Unlock()
}

func cdcNum(v any) int64 {
	switch n := v.(type) {
	case float64:
		return int64(n)
	case int64:
		return n
	case int:
		return int64(n)
	case json.Number:
		i, _ := n.Int64()
		return i
	}
	return -1
}

// resolve maps one payload message to (entry, commit ordinal, label) through the unique tokens of the
// row changes it carries, and checks that it carries exactly the changes of that commit.
func (h *cdcH) resolve(m *cdcjson.CDCMessage) [3]int {
	got := map[string]bool{}
	var first string
	for _, ev := range m.Events {
		var c cdcChange
		switch ev.Op {
		case "INSERT":
			c = cdcChange{"I", ev.NewRowID, cdcNum(ev.After["tok"])}
		case "UPDATE":
			c = cdcChange{"U", ev.NewRowID, cdcNum(ev.After["tok"])}
		case "DELETE":
			c = cdcChange{"D", ev.OldRowID, cdcNum(ev.Before["tok"])}
		}
		if ev.Table != "t" || ev.Error != "" {
			h.payloadBad("payload:unexpected-event", ev)
		}
		got[c.sig()] = true
		if first == "" {
			first = c.sig()
		}
	}
	kj, ok := h.sigs[first]
	if !ok {
		h.payloadBad("payload:unknown-change", m)
		return [3]int{0, 0, int(m.Index)}
	}
	want := h.expect[kj]
	same := len(want) == len(got)
	for s := range want {
		same = same && got[s]
	}
	if !same {
		h.payloadBad("payload:not-the-changes-of-one-commit", map[string]any{"entry": kj[0], "ordinal": kj[1], "got": got})
	}
	return [3]int{h.entryIndex(kj[0]), kj[1], int(m.Index)}
}

// entryIndex is the log index of the workload's k-th entry: k itself in the scripted runs; on the live
// cluster the index Store.Execute returned (the payload may arrive a moment before Execute returns).
func (h *cdcH) entryIndex(k int) int {
	if h.live == nil {
		return k
	}
	idx := 0
	cdcWait(10*time.Second, func() bool {
		h.liveMu.Lock()
		defer h.liveMu.Unlock()
		idx = h.live[k]
		return idx != 0
	})
	return idx
}

func cdcFilter(ev string) bool {
	switch {
	case strings.HasPrefix(ev, "cdc."), strings.HasPrefix(ev, "cdcs."), strings.HasPrefix(ev, "fifo."),
		strings.HasPrefix(ev, "ep."), strings.HasPrefix(ev, "c."), ev == "reset", ev == "note":
		return true
	}
	return false
}

func cdcBool(v any) bool { b, _ := v.(bool); return b }

// sink is called under the hook package's lock: the order of lines is the order of the hooks.
func (h *cdcH) sink(e vhook.Event) {
	if !cdcFilter(e.Ev) {
		return
	}
	if c := h.cnt[e.Inst]; c != nil {
		switch e.Ev {
		case "cdcs.commit":
			c.commit.Add(1)
		case "cdcs.dropped":
			c.dropped.Add(1)
		case "cdc.in":
			c.inTotal.Add(1)
			if !cdcBool(e.KV["ignored"]) {
				c.inKept.Add(1)
			}
		case "cdc.sync":
			if e.KV["phase"] == "begin" {
				c.markers.Add(1)
			}
		case "cdc.batch":
			c.batchedObj.Add(cdcNum(e.KV["n"]))
			if !cdcBool(e.KV["flushonly"]) {
				c.batches.Add(1)
			}
		case "fifo.enq":
			c.enq.Add(1)
		case "cdc.lead":
			c.lead.Store(cdcBool(e.KV["is"]))
			c.leadEvents.Add(1)
			if !cdcBool(e.KV["is"]) {
				if c.holding.Load() {
					c.parked.Store(true) // the loop returned with a batch in hand: it is parked
				}
				c.holding.Store(false)
			}
		case "cdc.take":
			c.parked.Store(false)
			if !cdcBool(e.KV["skipped"]) {
				c.holding.Store(true)
			}
		case "cdc.sent":
			if cdcBool(e.KV["ok"]) {
				c.holding.Store(false)
			}
		}
		if e.Ev != "cdc.bcast" && e.Ev != "cdc.prune" {
			c.events.Add(1)
		}
	}
	if e.Ev != "cdc.bcast" && e.Ev != "cdc.prune" && e.Ev != "cdc.sent" && e.Ev != "ep.rx" {
		h.nevents.Add(1)
	}
	m := make(map[string]any, len(e.KV)+2)
	for k, v := range e.KV {
		if v == nil {
			v = ""
		}
		m[k] = v
	}
	m["ev"] = e.Ev
	m["inst"] = e.Inst
	m["ln"] = h.w.n + 1 // line number: makes every row unique for the check's key function
	h.w.Write(m)
}

func cdcWait(d time.Duration, cond func() bool) bool {
	dl := time.Now().Add(d)
	for {
		if cond() {
			return true
		}
		if time.Now().After(dl) {
			return false
		}
		time.Sleep(3 * time.Millisecond)
	}
}

func (h *cdcH) note(f string, a ...any) {
	s := fmt.Sprintf(f, a...)
	h.notes = append(h.notes, s)
	emit("", "note", "text", s)
}

func (h *cdcH) openDB(n *cdcNode) error {
	p := filepath.Join(n.dir, "node.db")
	for _, sfx := range []string{"", "-wal", "-shm"} {
		os.Remove(p + sfx)
	}
	d, err := db.Open(p, false, true)
	if err != nil {
		return err
	}
	if _, err := d.ExecuteStringStmt(cdcSchema); err != nil {
		return err
	}
	// the snapshot: the state after entry n.snap, restored without any change capture
	for _, e := range h.log[:n.snap] {
		if _, err := d.Request(cdcRequest(e), false); err != nil {
			return err
		}
	}
	n.d = d
	n.applied = n.snap
	return nil
}

func (h *cdcH) startNode(n *cdcNode) error {
	if err := h.openDB(n); err != nil {
		return err
	}
	n.stub = &cdcStub{h: h, id: n.id, sync: rsync.NewSyncChannels()}
	cfg := &cdc.Config{
		Endpoint:              h.ep.srv.URL,
		MaxBatchSz:            h.par.BatchSz,
		MaxBatchDelay:         h.par.BatchDelay,
		HighWatermarkInterval: h.par.HWMInterval,
		TransmitTimeout:       3 * time.Second,
		TransmitRetryPolicy:   cdc.LinearRetryPolicy,
		TransmitMinBackoff:    h.par.Backoff,
		TransmitMaxBackoff:    h.par.Backoff,
	}
	svc, err := cdc.NewService(n.id, n.dir, n.stub, cfg)
	if err != nil {
		return err
	}
	vhook.Name(svc.C(), n.id)
	vhook.Name(svc.VerifFIFO(), n.id)
	st, err := db.NewCDCStreamer(svc.C(), n.d)
	if err != nil {
		return err
	}
	// exactly what store.fsmApply registers
	if err := n.d.RegisterPreUpdateHook(st.PreupdateHook, cdcTableRe, false); err != nil {
		return err
	}
	if err := n.d.RegisterCommitHook(st.CommitHook); err != nil {
		return err
	}
	if err := n.d.RegisterRollbackHook(st.RollbackHook); err != nil {
		return err
	}
	if err := svc.Start(); err != nil {
		return err
	}
	n.svc, n.st, n.want = svc, st, false
	return nil
}

func (h *cdcH) stopNode(n *cdcNode) {
	if n.svc != nil {
		// Service.Stop waits for writeToBatcher, which can sit in batcher.WriteOne for ever once mainLoop has
		// left (batcher channels full, nobody reads batcher.C): only stop a service whose hand-off channel
		// is drained, and do not wait for ever.
		c := h.cnt[n.id]
		svc0 := n.svc
		cdcWait(30*time.Second, func() bool {
			// ... and writeToBatcher has returned from every batcher write it began (cdc.in is logged before the write)
			return c.commit.Load()-c.dropped.Load() == c.inTotal.Load() && int64(svc0.VerifWritesToBatcher()) >= c.inKept.Load()
		})
		done := make(chan struct{})
		svc := n.svc
		go func() { svc.Stop(); close(done) }()
		select {
		case <-done:
		case <-time.After(30 * time.Second):
			h.stuck = fmt.Sprintf("Service.Stop of %s did not return", n.id)
		}
		n.svc = nil
	}
	if n.d != nil {
		n.d.Close()
		n.d = nil
	}
}

// ---- steps

// apply lets node id's FSM apply its next `count` log entries.
func (h *cdcH) apply(id string, count int) error {
	n := h.nodes[id]
	for i := 0; i < count && n.applied < len(h.log); i++ {
		e := h.log[n.applied]
		n.st.Reset(uint64(e.K))
		if _, err := n.d.Request(cdcRequest(e), false); err != nil {
			return fmt.Errorf("apply entry %d on %s: %w", e.K, id, err)
		}
		n.applied = e.K
		// the property excludes a full hand-off channel: keep it from filling
		if !cdcWait(20*time.Second, func() bool { c := h.cnt[id]; return c.commit.Load()-c.inTotal.Load() < 50 }) {
			return fmt.Errorf("hand-off channel of %s not drained", id)
		}
	}
	return nil
}

// settle waits until everything node id's streamer produced has reached the FIFO (or was dropped on the way).
func (h *cdcH) settle(id string) error {
	if !cdcWait(30*time.Second, h.cnt[id].pipelineIdle) {
		c := h.cnt[id]
		return fmt.Errorf("pipeline of %s did not settle: commit=%d in=%d kept=%d markers=%d batched=%d batches=%d enq=%d", id,
			c.commit.Load(), c.inTotal.Load(), c.inKept.Load(), c.markers.Load(), c.batchedObj.Load(), c.batches.Load(), c.enq.Load())
	}
	return nil
}

// ingested waits until writeToBatcher has taken everything out of the hand-off channel.
func (h *cdcH) ingested(id string) error {
	c := h.cnt[id]
	if !cdcWait(30*time.Second, func() bool { return c.commit.Load()-c.dropped.Load() == c.inTotal.Load() }) {
		return fmt.Errorf("hand-off channel of %s not drained", id)
	}
	return nil
}

func (h *cdcH) lead(id string, on bool) error {
	n := h.nodes[id]
	if n.want == on {
		return nil
	}
	n.want = on
	n.stub.mu.Lock()
	ch := n.stub.leaderCh
	n.stub.mu.Unlock()
	ch <- on
	if !cdcWait(30*time.Second, func() bool { return h.cnt[id].lead.Load() == on }) {
		return fmt.Errorf("leader loop of %s did not follow leadership=%v", id, on)
	}
	return nil
}

// flapBurst puts k pairs of back-to-back signals (leader, not leader) on the node's leadership channel
// without waiting for the service in between: the way Raft reports an election won and lost again before
// the service's main loop has handled the first observation.  With hold, every leader loop started
// by the burst is held at its gate (before its first stop check) until the main loop has taken the
// "not leader" signal that follows, so that the loop finds stop closed at its very first step - the
// schedule a loaded machine produces by itself only now and then.  The node must not be leading.
func (h *cdcH) flapBurst(id string, k int, hold bool) error {
	n := h.nodes[id]
	if n.want {
		return fmt.Errorf("flap burst on %s while leading", id)
	}
	c := h.cnt[id]
	n.stub.mu.Lock()
	ch := n.stub.leaderCh
	n.stub.mu.Unlock()
	emit("", "c.flap", "node", id, "k", k, "parked", c.parked.Load(), "up", h.ep.isUp(), "hold", hold)
	f := &cdcFlap{ch: ch, hold: hold}
	h.flapMu.Lock()
	h.flap[id] = f
	h.flapMu.Unlock()
	before := c.leadEvents.Load()
	for i := 0; i < k; i++ {
		ch <- true
		f.sent.Add(1)
		ch <- false
		f.sent.Add(1)
	}
	ok := cdcWait(60*time.Second, func() bool { return c.leadEvents.Load() >= before+int64(2*k) && !c.lead.Load() && len(ch) == 0 })
	h.flapMu.Lock()
	delete(h.flap, id)
	h.flapMu.Unlock()
	if !ok {
		return fmt.Errorf("flap burst on %s: %d of %d leader loops seen", id, (c.leadEvents.Load()-before)/2, k)
	}
	return nil
}

// gate is called by a leader loop goroutine right before its first stop check.
func (h *cdcH) gate(point string, kv ...any) {
	if point != "cdc.leaderloop" || len(kv) == 0 {
		return
	}
	id, _ := kv[0].(string)
	h.flapMu.Lock()
	f := h.flap[id]
	h.flapMu.Unlock()
	if f == nil || !f.hold {
		return
	}
	a := f.arrivals.Add(1)
	cdcWait(3*time.Second, func() bool { return f.consumed() >= 2*a })
	time.Sleep(2 * time.Millisecond) // the main loop closes stop right after it took the signal
}

func (h *cdcH) broadcast(from string, v uint64) error {
	h.mu.Lock()
	defer h.mu.Unlock()
	for _, to := range h.order {
		if h.hold {
			h.held = append(h.held, cdcHeld{to, v})
			continue
		}
		if n := h.nodes[to]; n != nil && n.stub != nil {
			n.stub.deliver(v)
		}
	}
	return nil
}

func (h *cdcH) setHold(on bool) {
	h.mu.Lock()
	h.hold = on
	held := h.held
	if !on {
		h.held = nil
	}
	h.mu.Unlock()
	if !on {
		for _, m := range held {
			if n := h.nodes[m.to]; n != nil && n.stub != nil {
				n.stub.deliver(m.v)
			}
		}
	}
}

// snapshot does what store.fsmSnapshot does first: synchronise with the CDC service; on success the
// log up to the applied index is considered truncated.
func (h *cdcH) snapshot(id string) error {
	n := h.nodes[id]
	if err := h.ingestedForSnapshot(id); err != nil {
		return err
	}
	if _, _, err := n.stub.sync.Sync(10 * time.Second); err != nil {
		h.note("snapshot sync of %s timed out: snapshot not taken", id)
		return nil
	}
	n.snap = n.applied
	emit("", "c.snap", "node", id, "idx", n.snap)
	return nil
}

// The store calls Sync on the FSM goroutine right after the last Apply returned; groups may still be in
// the hand-off channel at that moment.  Nothing to wait for.
func (h *cdcH) ingestedForSnapshot(id string) error { return nil }

func (h *cdcH) restart(id string) error {
	n := h.nodes[id]
	h.stopNode(n)
	if h.stuck != "" {
		return errors.New(h.stuck)
	}
	emit("", "c.restart", "node", id, "snap", n.snap)
	h.cnt[id].resetPipeline()
	h.cnt[id].lead.Store(false)
	return h.startNode(n)
}

func (h *cdcH) hwmOf(id string) uint64 { return h.nodes[id].svc.HighWatermark() }

// quiesce: endpoint up, HWM updates flowing, exactly one leader, everything applied everywhere; wait
// until nothing moves any more.
func (h *cdcH) quiesce(leader string) error {
	h.ep.setUp(true)
	h.setHold(false)
	for _, id := range h.order {
		if id != leader {
			if err := h.lead(id, false); err != nil {
				return err
			}
		}
	}
	if err := h.lead(leader, true); err != nil {
		return err
	}
	for _, id := range h.order {
		if err := h.apply(id, len(h.log)); err != nil {
			return err
		}
	}
	for _, id := range h.order {
		if err := h.settle(id); err != nil {
			return err
		}
	}
	quiet := func() bool {
		for _, id := range h.order {
			if !h.cnt[id].pipelineIdle() {
				return false
			}
		}
		l := h.nodes[leader]
		return !h.cnt[leader].holding.Load() && !l.svc.VerifFIFOHasNext()
	}
	stable := 0
	last := int64(-1)
	ok := cdcWait(20*time.Second, func() bool {
		time.Sleep(h.par.HWMInterval)
		cur := h.nevents.Load()
		if quiet() && cur == last {
			stable++
		} else {
			stable = 0
		}
		last = cur
		return stable >= 3
	})
	if !ok {
		h.note("not quiescent after 20s")
	}
	return nil
}

func (h *cdcH) final(leader string) {
	groups := [][2]int{}
	for _, e := range h.log {
		for j := range e.Groups {
			groups = append(groups, [2]int{e.K, j + 1})
		}
	}
	emit("", "c.final", "leader", leader, "groups", groups)
}

// ---------------------------------------------------------------- scenarios

type cdcScenario struct {
	Name   string
	Nodes  int
	Par    cdcParams
	Script func(h *cdcH, g *cdcGen) (leader string, err error)
}

var cdcFast = cdcParams{BatchSz: 2, BatchDelay: 40 * time.Millisecond, HWMInterval: 50 * time.Millisecond, Backoff: 20 * time.Millisecond}

// a long batch delay: a batch leaves the batcher only when it is full (or flushed by a snapshot sync)
var cdcSlowBatch = cdcParams{BatchSz: 2, BatchDelay: 4 * time.Second, HWMInterval: 50 * time.Millisecond, Backoff: 20 * time.Millisecond}

func cdcWitnesses() []cdcScenario {
	return []cdcScenario{
		{Name: "w-single-statement-entries", Nodes: 2, Par: cdcFast, Script: func(h *cdcH, g *cdcGen) (string, error) {
			for i := 0; i < 5; i++ {
				g.add("single")
			}
			h.setLog(g)
			if err := h.lead("n1", true); err != nil {
				return "", err
			}
			for _, id := range h.order {
				if err := h.apply(id, 5); err != nil {
					return "", err
				}
			}
			return "n1", nil
		}},
		// a request of several statements without a transaction: one commit per statement, all in one batch
		{Name: "w-multi-commit-entry-one-batch", Nodes: 1, Par: cdcFast, Script: func(h *cdcH, g *cdcGen) (string, error) {
			g.add("single")
			h.setLog(g)
			if err := h.lead("n1", true); err != nil {
				return "", err
			}
			if err := h.apply("n1", 1); err != nil {
				return "", err
			}
			if err := h.settle("n1"); err != nil {
				return "", err
			}
			g.add("multi-notx-2")
			h.setLog(g)
			if err := h.apply("n1", 1); err != nil {
				return "", err
			}
			return "n1", nil
		}},
		// ... whose commits fall into two batches: [a, b1] [b2]
		{Name: "w-multi-commit-entry-split-across-batches", Nodes: 1, Par: cdcFast, Script: func(h *cdcH, g *cdcGen) (string, error) {
			g.add("single")
			g.add("multi-notx-2")
			g.add("single")
			h.setLog(g)
			if err := h.lead("n1", true); err != nil {
				return "", err
			}
			if err := h.apply("n1", 2); err != nil {
				return "", err
			}
			if err := h.settle("n1"); err != nil {
				return "", err
			}
			cdcWait(5*time.Second, func() bool { return h.hwmOf("n1") >= 2 })
			if err := h.apply("n1", 1); err != nil {
				return "", err
			}
			return "n1", nil
		}},
		// ... on a node that is not leading: the second batch holds nothing but the later commit, gets the key of the
		// first one and is ignored by the FIFO
		{Name: "w-multi-commit-entry-split-no-leader", Nodes: 1, Par: cdcFast, Script: func(h *cdcH, g *cdcGen) (string, error) {
			g.add("single")
			g.add("multi-notx-2")
			g.add("single")
			h.setLog(g)
			if err := h.apply("n1", 2); err != nil {
				return "", err
			}
			if err := h.settle("n1"); err != nil {
				return "", err
			}
			if err := h.apply("n1", 1); err != nil {
				return "", err
			}
			return "n1", nil
		}},
		// a transactional request and an explicit BEGIN..COMMIT: one commit for several statements
		{Name: "w-transactions", Nodes: 1, Par: cdcFast, Script: func(h *cdcH, g *cdcGen) (string, error) {
			g.add("single")
			g.add("multi-tx")
			g.add("begin-commit")
			g.add("fail-mid")
			g.add("mixed-table")
			h.setLog(g)
			if err := h.lead("n1", true); err != nil {
				return "", err
			}
			for i := 0; i < 5; i++ {
				if err := h.apply("n1", 1); err != nil {
					return "", err
				}
				if err := h.settle("n1"); err != nil {
					return "", err
				}
			}
			return "n1", nil
		}},
		// the leader loses leadership while it retries a batch, then gets it back
		{Name: "w-leader-flip-during-retry", Nodes: 1, Par: cdcFast, Script: func(h *cdcH, g *cdcGen) (string, error) {
			g.add("single")
			g.add("single")
			g.add("single")
			h.setLog(g)
			for i := 0; i < 2; i++ { // two batches: key 1, key 2
				if err := h.apply("n1", 1); err != nil {
					return "", err
				}
				if err := h.settle("n1"); err != nil {
					return "", err
				}
			}
			h.ep.setUp(false)
			if err := h.lead("n1", true); err != nil {
				return "", err
			}
			cdcWait(10*time.Second, func() bool { return h.nodes["n1"].svc.NumEndpointRetries() >= 2 })
			if err := h.lead("n1", false); err != nil {
				return "", err
			}
			h.ep.setUp(true)
			if err := h.lead("n1", true); err != nil {
				return "", err
			}
			cdcWait(5*time.Second, func() bool { return h.hwmOf("n1") >= 2 })
			if err := h.apply("n1", 1); err != nil {
				return "", err
			}
			return "n1", nil
		}},
		// ... and another node takes over in between (it has everything in its own FIFO)
		{Name: "w-leader-flip-during-retry-other-node", Nodes: 2, Par: cdcFast, Script: func(h *cdcH, g *cdcGen) (string, error) {
			for i := 0; i < 3; i++ {
				g.add("single")
			}
			h.setLog(g)
			for i := 0; i < 3; i++ {
				for _, id := range h.order {
					if err := h.apply(id, 1); err != nil {
						return "", err
					}
					if err := h.settle(id); err != nil {
						return "", err
					}
				}
			}
			h.ep.setUp(false)
			if err := h.lead("n1", true); err != nil {
				return "", err
			}
			cdcWait(10*time.Second, func() bool { return h.nodes["n1"].svc.NumEndpointRetries() >= 2 })
			if err := h.lead("n1", false); err != nil {
				return "", err
			}
			if err := h.lead("n2", true); err != nil {
				return "", err
			}
			h.ep.setUp(true)
			cdcWait(5*time.Second, func() bool { return h.hwmOf("n2") >= 1 })
			if err := h.lead("n2", false); err != nil {
				return "", err
			}
			return "n1", nil
		}},
		// endpoint outage while leading (a batch is in the retry loop), leadership lost (the batch is parked), then
		// leadership won and lost again back to back - every new leader loop finds stop closed at its first step -
		// then leadership and the endpoint return: the parked batch must still go first
		{Name: "w-flap-burst-while-parked", Nodes: 1, Par: cdcFast, Script: func(h *cdcH, g *cdcGen) (string, error) {
			return cdcFlapWitness(h, g, 3, false, true)
		}},
		{Name: "w-flap-burst-while-parked-endpoint-up", Nodes: 1, Par: cdcFast, Script: func(h *cdcH, g *cdcGen) (string, error) {
			return cdcFlapWitness(h, g, 1, true, true)
		}},
		{Name: "w-flap-burst-20-while-parked-unheld", Nodes: 1, Par: cdcFast, Script: func(h *cdcH, g *cdcGen) (string, error) {
			return cdcFlapWitness(h, g, 20, false, false)
		}},
		// flap burst with nothing parked: items wait in the FIFO, the endpoint is down
		{Name: "w-flap-burst-nothing-parked", Nodes: 2, Par: cdcFast, Script: func(h *cdcH, g *cdcGen) (string, error) {
			for i := 0; i < 4; i++ {
				g.add("single")
			}
			h.setLog(g)
			for _, id := range h.order {
				if err := h.apply(id, 3); err != nil {
					return "", err
				}
				if err := h.settle(id); err != nil {
					return "", err
				}
			}
			h.ep.setUp(false)
			if err := h.flapBurst("n1", 5, true); err != nil {
				return "", err
			}
			if err := h.flapBurst("n2", 2, false); err != nil {
				return "", err
			}
			h.ep.setUp(true)
			return "n2", nil
		}},
		// the batch is parked on n1, n2 takes over and delivers it from its own FIFO, n1 flaps and then leads again
		{Name: "w-flap-burst-parked-delivered-by-other-node", Nodes: 2, Par: cdcFast, Script: func(h *cdcH, g *cdcGen) (string, error) {
			for i := 0; i < 4; i++ {
				g.add("single")
			}
			h.setLog(g)
			for i := 0; i < 3; i++ {
				for _, id := range h.order {
					if err := h.apply(id, 1); err != nil {
						return "", err
					}
					if err := h.settle(id); err != nil {
						return "", err
					}
				}
			}
			h.ep.setUp(false)
			if err := h.lead("n1", true); err != nil {
				return "", err
			}
			cdcWait(10*time.Second, func() bool { return h.nodes["n1"].svc.NumEndpointRetries() >= 2 })
			if err := h.lead("n1", false); err != nil {
				return "", err
			}
			h.setHold(true) // n1 does not hear of n2's progress yet
			h.ep.setUp(true)
			if err := h.lead("n2", true); err != nil {
				return "", err
			}
			cdcWait(5*time.Second, func() bool { return h.hwmOf("n2") >= 2 })
			if err := h.lead("n2", false); err != nil {
				return "", err
			}
			if err := h.flapBurst("n1", 4, true); err != nil {
				return "", err
			}
			return "n1", nil
		}},
		// restart while a group is still in the batcher: the log replay brings it back
		{Name: "w-restart-between-batcher-and-fifo", Nodes: 1, Par: cdcSlowBatch, Script: func(h *cdcH, g *cdcGen) (string, error) {
			for i := 0; i < 4; i++ {
				g.add("single")
			}
			h.setLog(g)
			if err := h.apply("n1", 3); err != nil { // [1,2] stored, 3 waits in the batcher
				return "", err
			}
			if err := h.ingested("n1"); err != nil {
				return "", err
			}
			if err := h.restart("n1"); err != nil {
				return "", err
			}
			return "n1", nil
		}},
		// snapshot (log truncation) while a group is in the batcher, then restart: the sync must have flushed it
		{Name: "w-snapshot-then-restart", Nodes: 1, Par: cdcSlowBatch, Script: func(h *cdcH, g *cdcGen) (string, error) {
			for i := 0; i < 4; i++ {
				g.add("single")
			}
			h.setLog(g)
			if err := h.apply("n1", 3); err != nil {
				return "", err
			}
			if err := h.ingested("n1"); err != nil {
				return "", err
			}
			if err := h.snapshot("n1"); err != nil {
				return "", err
			}
			if err := h.restart("n1"); err != nil {
				return "", err
			}
			return "n1", nil
		}},
		// snapshot taken right after an apply, while the group may still be in the hand-off channel
		{Name: "w-snapshot-right-after-apply", Nodes: 1, Par: cdcSlowBatch, Script: func(h *cdcH, g *cdcGen) (string, error) {
			for i := 0; i < 9; i++ {
				g.add("single")
			}
			h.setLog(g)
			for i := 0; i < 8; i++ {
				if err := h.apply("n1", 1); err != nil {
					return "", err
				}
				if err := h.snapshot("n1"); err != nil {
					return "", err
				}
			}
			if err := h.restart("n1"); err != nil {
				return "", err
			}
			return "n1", nil
		}},
		// restart with a first FIFO item that holds two indexes; the restarted node leads and broadcasts
		// its high-water mark before it delivered anything; the other node batched differently
		{Name: "w-restart-hwm-below-first-batch", Nodes: 2, Par: cdcSlowBatch, Script: func(h *cdcH, g *cdcGen) (string, error) {
			for i := 0; i < 3; i++ {
				g.add("single")
			}
			h.setLog(g)
			if err := h.apply("n1", 2); err != nil { // n1: [1,2] under key 2
				return "", err
			}
			if err := h.settle("n1"); err != nil {
				return "", err
			}
			if err := h.apply("n2", 1); err != nil { // n2: [1] under key 1 (flushed by a snapshot sync), then [2,3]
				return "", err
			}
			if err := h.ingested("n2"); err != nil {
				return "", err
			}
			if err := h.snapshot("n2"); err != nil {
				return "", err
			}
			if err := h.apply("n2", 2); err != nil {
				return "", err
			}
			if err := h.settle("n2"); err != nil {
				return "", err
			}
			if err := h.restart("n1"); err != nil {
				return "", err
			}
			h.ep.setUp(false)
			if err := h.lead("n1", true); err != nil {
				return "", err
			}
			cdcWait(3*time.Second, func() bool { return h.hwmOf("n2") >= 1 }) // n2 adopts n1's restart value and prunes key 1
			if err := h.lead("n1", false); err != nil {
				return "", err
			}
			h.ep.setUp(true)
			if err := h.lead("n2", true); err != nil {
				return "", err
			}
			cdcWait(5*time.Second, func() bool { return h.hwmOf("n2") >= 3 })
			cdcWait(3*time.Second, func() bool { return h.hwmOf("n1") >= 3 })
			return "n2", nil
		}},
		// restart, the log replay re-creates a group that is already in the FIFO; it waits in the batcher
		// while later batches are delivered, and is then stored and delivered again behind them
		{Name: "w-replayed-entry-behind-newer-ones", Nodes: 1, Par: cdcSlowBatch, Script: func(h *cdcH, g *cdcGen) (string, error) {
			for i := 0; i < 4; i++ {
				g.add("single")
			}
			h.setLog(g)
			if err := h.apply("n1", 2); err != nil { // [1,2] under key 2
				return "", err
			}
			if err := h.settle("n1"); err != nil {
				return "", err
			}
			if err := h.apply("n1", 1); err != nil { // [3] under key 3 (flushed by a sync; no snapshot taken)
				return "", err
			}
			if err := h.ingested("n1"); err != nil {
				return "", err
			}
			n := h.nodes["n1"]
			n.stub.sync.Sync(10 * time.Second)
			if err := h.settle("n1"); err != nil {
				return "", err
			}
			if err := h.restart("n1"); err != nil { // replay from 0
				return "", err
			}
			if err := h.apply("n1", 2); err != nil { // 1 (filtered or not), 2: waits in the batcher
				return "", err
			}
			if err := h.ingested("n1"); err != nil {
				return "", err
			}
			if err := h.lead("n1", true); err != nil {
				return "", err
			}
			cdcWait(3*time.Second, func() bool { return h.hwmOf("n1") >= 3 })
			if err := h.apply("n1", 2); err != nil { // 3 (filtered), 4: completes the batch
				return "", err
			}
			return "n1", nil
		}},
	}
}

// cdcFlapWitness: two batches queued, outage, lead, the first batch is retried, leadership lost (parked), flap burst
// of k rounds, endpoint back (before or after the burst), lead again, one more entry.
func cdcFlapWitness(h *cdcH, g *cdcGen, k int, upBefore, hold bool) (string, error) {
	for i := 0; i < 3; i++ {
		g.add("single")
	}
	h.setLog(g)
	for i := 0; i < 2; i++ { // two batches: key 1, key 2
		if err := h.apply("n1", 1); err != nil {
			return "", err
		}
		if err := h.settle("n1"); err != nil {
			return "", err
		}
	}
	h.ep.setUp(false)
	if err := h.lead("n1", true); err != nil {
		return "", err
	}
	cdcWait(10*time.Second, func() bool { return h.nodes["n1"].svc.NumEndpointRetries() >= 2 })
	if err := h.lead("n1", false); err != nil {
		return "", err
	}
	if upBefore {
		h.ep.setUp(true)
	}
	if err := h.flapBurst("n1", k, hold); err != nil {
		return "", err
	}
	h.ep.setUp(true)
	if err := h.lead("n1", true); err != nil {
		return "", err
	}
	cdcWait(5*time.Second, func() bool { return h.hwmOf("n1") >= 2 })
	if err := h.apply("n1", 1); err != nil {
		return "", err
	}
	return "n1", nil
}

// random scenario: 1..3 nodes, entries of all kinds, leadership flips (also during retries), endpoint
// outages, delayed HWM updates, snapshots and restarts.
func cdcRandom(i int) cdcScenario {
	return cdcScenario{Name: fmt.Sprintf("r%03d", i), Nodes: 1 + i%3, Par: cdcFast, Script: func(h *cdcH, g *cdcGen) (string, error) {
		rng := g.rng
		nEntries := 6 + rng.Intn(6)
		for k := 0; k < nEntries; k++ {
			g.add("")
		}
		h.setLog(g)
		restarts := 0
		leaderOf := func() string {
			for _, id := range h.order {
				if h.nodes[id].want {
					return id
				}
			}
			return ""
		}
		for step := 0; step < 14+rng.Intn(10); step++ {
			id := h.order[rng.Intn(len(h.order))]
			var err error
			switch r := rng.Intn(21); {
			case r < 7:
				err = h.apply(id, 1+rng.Intn(2))
			case r < 9:
				err = h.settle(id)
			case r < 11: // move or drop leadership
				if cur := leaderOf(); cur != "" {
					if rng.Intn(3) == 0 && !h.ep.up {
						cdcWait(2*time.Second, func() bool { return h.cnt[cur].holding.Load() })
					}
					err = h.lead(cur, false)
				}
				if err == nil && rng.Intn(4) != 0 {
					err = h.lead(id, true)
				}
			case r < 13: // leadership flap burst on any node, in any state (batch parked or not, endpoint up or down)
				if h.nodes[id].want {
					if !h.ep.up && rng.Intn(2) == 0 {
						cdcWait(2*time.Second, func() bool { return h.cnt[id].holding.Load() })
					}
					err = h.lead(id, false)
				}
				if err == nil {
					err = h.flapBurst(id, 1+rng.Intn(20), rng.Intn(4) != 0)
				}
				if err == nil && rng.Intn(2) == 0 && leaderOf() == "" {
					err = h.lead(id, true)
				}
			case r < 14:
				h.ep.setUp(!h.ep.up)
			case r < 15:
				h.setHold(!h.hold)
			case r < 17:
				err = h.snapshot(id)
			case r < 18:
				if restarts < 2 {
					restarts++
					err = h.restart(id)
				}
			default:
				time.Sleep(time.Duration(rng.Intn(60)) * time.Millisecond)
			}
			if err != nil {
				return "", err
			}
		}
		return h.order[rng.Intn(len(h.order))], nil
	}}
}

type cdcResult struct {
	Name       string           `json:"name"`
	Nodes      int              `json:"nodes"`
	Entries    int              `json:"entries"`
	Groups     int              `json:"groups"`
	Requests   int              `json:"requests"`
	Refused    int              `json:"refused"`
	Accepted   int              `json:"accepted"`
	Lost       [][2]int         `json:"lost"`
	Mislabel   [][3]int         `json:"mislabelled"`
	PayloadBad []map[string]any `json:"payload_bad"`
	Notes      []string         `json:"notes"`
	Kinds      map[string]int   `json:"kinds"`
}

func cdcRun(w *ndWriter, base string, sc cdcScenario, seed int64) (*cdcResult, error) {
	dir, err := os.MkdirTemp(base, "sc")
	if err != nil {
		return nil, err
	}
	defer os.RemoveAll(dir)
	h := &cdcH{w: w, base: dir, par: sc.Par, nodes: map[string]*cdcNode{}, cnt: map[string]*cdcCounters{}, sigs: map[string][2]int{}, expect: map[[2]int]map[string]bool{}, flap: map[string]*cdcFlap{}}
	h.ep = &cdcEndpoint{h: h, up: true}
	h.ep.srv = httptest.NewServer(h.ep)
	defer h.ep.srv.Close()
	for i := 1; i <= sc.Nodes; i++ {
		id := fmt.Sprintf("n%d", i)
		h.order = append(h.order, id)
		h.cnt[id] = &cdcCounters{}
		h.nodes[id] = &cdcNode{id: id, dir: filepath.Join(dir, id)}
		if err := os.MkdirAll(h.nodes[id].dir, 0755); err != nil {
			return nil, err
		}
	}
	vhook.SetSink(h.sink)
	defer vhook.SetSink(nil)
	vhook.SetGate(h.gate)
	defer vhook.SetGate(nil)
	emit("", "reset", "name", sc.Name, "nodes", sc.Nodes)
	defer func() {
		for _, n := range h.nodes {
			h.stopNode(n)
		}
	}()
	for _, id := range h.order {
		if err := h.startNode(h.nodes[id]); err != nil {
			return nil, err
		}
	}
	g := newCDCGen(rand.New(rand.NewSource(seed)))
	leader, err := sc.Script(h, g)
	if err != nil {
		return nil, fmt.Errorf("scenario %s: %w", sc.Name, err)
	}
	if err := h.quiesce(leader); err != nil {
		return nil, fmt.Errorf("scenario %s: %w", sc.Name, err)
	}
	h.final(leader)
	// stop the services before the trace of this run ends
	for _, n := range h.nodes {
		h.stopNode(n)
	}
	if err := cdcCheckLog(dir, h.log); err != nil {
		return nil, err
	}
	res := &cdcResult{Name: sc.Name, Nodes: sc.Nodes, Entries: len(h.log), Requests: h.ep.requests, Refused: h.ep.refused,
		Accepted: len(h.ep.accepted), PayloadBad: h.bad, Notes: h.notes, Kinds: map[string]int{}}
	for _, id := range h.order {
		if h.cnt[id].dropped.Load() > 0 {
			return nil, fmt.Errorf("scenario %s: the hand-off channel of %s filled up (excluded by the property; harness must prevent it)", sc.Name, id)
		}
	}
	// payloads vs. the committed log: every change delivered at least once under the index of its entry
	right := map[[2]int]bool{}
	any := map[[2]int]bool{}
	for _, a := range h.ep.accepted {
		for _, gr := range a.Groups {
			kj := [2]int{gr[0], gr[1]}
			any[kj] = true
			if gr[2] == gr[0] {
				right[kj] = true
			} else {
				res.Mislabel = append(res.Mislabel, gr)
			}
		}
	}
	for _, e := range h.log {
		res.Kinds[e.Kind]++
		for j := range e.Groups {
			res.Groups++
			if !any[[2]int{e.K, j + 1}] {
				res.Lost = append(res.Lost, [2]int{e.K, j + 1})
			}
		}
	}
	return res, nil
}

// ---------------------------------------------------------------- command

func cdcTrace(args []string) error {
	fs := flag.NewFlagSet("cdc-trace", flag.ExitOnError)
	out := fs.String("out", "cdc.ndjson", "trace file")
	res := fs.String("results", "", "per-scenario results (json)")
	runs := fs.Int("runs", 10, "random scenarios")
	only := fs.String("only", "", "run only the scenarios whose name contains this")
	base := fs.String("dir", "", "scratch dir")
	live := fs.Int("live", 1, "histories on the live 3-node cluster")
	fs.Parse(args)
	quietLogs()
	if *base == "" {
		d, err := os.MkdirTemp("", "vcdc")
		if err != nil {
			return err
		}
		defer os.RemoveAll(d)
		*base = d
	}
	w, err := newND(*out)
	if err != nil {
		return err
	}
	scs := cdcWitnesses()
	for i := 0; i < *runs; i++ {
		scs = append(scs, cdcRandom(i))
	}
	var results []*cdcResult
	stats := map[string]int{}
	for i, sc := range scs {
		if *only != "" && !strings.Contains(sc.Name, *only) {
			continue
		}
		r, err := cdcRun(w, *base, sc, seedFromEnv()*7919+int64(i))
		if err != nil {
			w.Close()
			return err
		}
		results = append(results, r)
		stats["scenarios"]++
		stats["entries"] += r.Entries
		stats["groups"] += r.Groups
		stats["requests"] += r.Requests
		stats["refused"] += r.Refused
		stats["accepted"] += r.Accepted
		stats["lost_groups"] += len(r.Lost)
		stats["mislabelled"] += len(r.Mislabel)
		stats["payload_bad"] += len(r.PayloadBad)
		for k, v := range r.Kinds {
			stats["kind:"+k] += v
		}
	}
	for i := 0; i < *live && (*only == "" || strings.Contains("live-3-node-cluster", *only)); i++ {
		r, err := cdcLiveRun(w, *base, seedFromEnv()*104729+int64(i))
		if err != nil {
			w.Close()
			return fmt.Errorf("live cluster: %w", err)
		}
		results = append(results, r)
		stats["scenarios"]++
		stats["live"]++
		stats["entries"] += r.Entries
		stats["groups"] += r.Groups
		stats["requests"] += r.Requests
		stats["refused"] += r.Refused
		stats["accepted"] += r.Accepted
		stats["lost_groups"] += len(r.Lost)
		stats["mislabelled"] += len(r.Mislabel)
		stats["payload_bad"] += len(r.PayloadBad)
	}
	if err := w.Close(); err != nil {
		return err
	}
	stats["events"] = w.n
	if *res != "" {
		if err := writeJSON(*res, results); err != nil {
			return err
		}
	}
	b, _ := json.Marshal(stats)
	fmt.Println(string(b))
	return nil
}

// ---------------------------------------------------------------- live cluster

// cdcLive runs one history on a live 3-node cluster with the real wiring: store.EnableCDC before the store
// opens, cdc.CDCCluster over the node's real cluster service and client (HWM broadcast over the
// network layer, leadership from Raft leader observations, snapshot sync from store.fsmSnapshot), real
// log indexes.  Requests go through Store.Execute on the leader one at a time.  The first leader is
// told by Service.SetLeader (rqlited starts the service before the first election and so observes it;
// here the cluster service a CDCCluster needs exists only after the node is up).
type cdcLiveNode struct {
	svc *cdc.Service
	cl  *cdc.CDCCluster
}

func cdcLive(h *cdcH, base string, g *cdcGen) (*cdcResult, error) {
	var mu sync.Mutex
	svcs := map[string]*cdcLiveNode{}
	cfgFor := func() *cdc.Config {
		return &cdc.Config{Endpoint: h.ep.srv.URL, MaxBatchSz: 2, MaxBatchDelay: 50 * time.Millisecond,
			HighWatermarkInterval: 100 * time.Millisecond, TransmitTimeout: 3 * time.Second,
			TransmitRetryPolicy: cdc.LinearRetryPolicy, TransmitMinBackoff: 30 * time.Millisecond, TransmitMaxBackoff: 30 * time.Millisecond}
	}
	var cfgErr error
	configure := func(s *store.Store) {
		id := s.ID()
		cl := cdc.NewCDCCluster(s, nil, nil)
		svc, err := cdc.NewService(id, filepath.Join(base, "cdc-"+id), cl, cfgFor())
		if err != nil {
			cfgErr = err
			return
		}
		vhook.Name(svc.C(), id)
		vhook.Name(svc.VerifFIFO(), id)
		if err := s.EnableCDC(svc.C(), cdcTableRe, false); err != nil {
			cfgErr = err
			return
		}
		mu.Lock()
		svcs[id] = &cdcLiveNode{svc: svc, cl: cl}
		mu.Unlock()
	}
	wire := func(n *vNode) error {
		mu.Lock()
		ln := svcs[n.ID]
		mu.Unlock()
		ln.cl.VerifSetCluster(n.Cluster, n.Client)
		return ln.svc.Start()
	}
	emit("", "reset", "name", "live-3-node-cluster", "nodes", 3)
	c, err := newCluster(vClusterOpts{N: 3, Base: filepath.Join(base, "nodes"), NoHTTP: true, Configure: configure})
	if err != nil {
		return nil, err
	}
	defer c.Close()
	defer func() {
		mu.Lock()
		for _, ln := range svcs {
			ln.svc.Stop()
		}
		mu.Unlock()
	}()
	if cfgErr != nil {
		return nil, cfgErr
	}
	for _, n := range c.nodes {
		if err := wire(n); err != nil {
			return nil, err
		}
	}
	l := c.Leader(20 * time.Second)
	if l == nil {
		return nil, errors.New("no leader")
	}
	svcs[l.ID].svc.SetLeader(true)
	if _, _, err := sExec(l.Store, false, strings.Split(cdcSchema, ";")...); err != nil {
		return nil, err
	}
	h.live = map[int]int{}
	exec := func(kind string) error {
		e := g.add(kind)
		h.setLog(g)
		for try := 0; ; try++ {
			ld := c.Leader(20 * time.Second)
			if ld == nil {
				return errors.New("no leader")
			}
			_, idx, err := sExec(ld.Store, e.Tx, e.Stmts...)
			if err == nil {
				h.liveMu.Lock()
				h.live[e.K] = int(idx)
				h.liveMu.Unlock()
				return nil
			}
			if try > 20 {
				return fmt.Errorf("execute entry %d: %w", e.K, err)
			}
			time.Sleep(200 * time.Millisecond)
		}
	}
	for _, k := range []string{"single", "multi-tx", "single", "begin-commit", "other-table", "single", "fail-mid", "noop", "single"} {
		if err := exec(k); err != nil {
			return nil, err
		}
	}
	if err := c.WaitConverged(20 * time.Second); err != nil {
		return nil, err
	}
	// endpoint outage, the leader retries, leadership is transferred while it does
	h.ep.setUp(false)
	for _, k := range []string{"single", "single", "multi-tx"} {
		if err := exec(k); err != nil {
			return nil, err
		}
	}
	l = c.Leader(20 * time.Second)
	cdcWait(10*time.Second, func() bool { return svcs[l.ID].svc.NumEndpointRetries() >= 2 })
	if err := l.Store.Stepdown(true, ""); err != nil {
		h.note("stepdown: %v", err)
	}
	cdcWait(20*time.Second, func() bool { n := c.Leader(time.Second); return n != nil && n.ID != l.ID })
	h.ep.setUp(true)
	// snapshot on a follower (the real store synchronises with the CDC service), then restart it
	var f *vNode
	for _, n := range c.Followers() {
		f = n
	}
	if f != nil {
		if err := exec("single"); err != nil {
			return nil, err
		}
		c.WaitConverged(20 * time.Second)
		if err := f.Store.Snapshot(0); err != nil {
			h.note("snapshot on %s: %v", f.ID, err)
		} else {
			emit("", "c.snap", "node", f.ID, "idx", int(f.Store.DBAppliedIndex()))
		}
		if err := exec("single"); err != nil {
			return nil, err
		}
		c.WaitConverged(20 * time.Second)
		mu.Lock()
		old := svcs[f.ID]
		mu.Unlock()
		h.ingested(f.ID)
		cdcWait(30*time.Second, func() bool { return int64(old.svc.VerifWritesToBatcher()) >= h.cnt[f.ID].inKept.Load() })
		old.svc.Stop()
		// the restart marker separates the two lives in the trace: the old store (its FSM may still be applying an
		// entry as a follower) must be down before it is written
		f.Stop()
		emit("", "c.restart", "node", f.ID, "snap", 0)
		h.cnt[f.ID].resetPipeline()
		nf, err := f.Restart()
		if err != nil {
			return nil, err
		}
		for i := range c.nodes {
			if c.nodes[i].ID == nf.ID {
				c.nodes[i] = nf
			}
		}
		if cfgErr != nil {
			return nil, cfgErr
		}
		if err := wire(nf); err != nil {
			return nil, err
		}
	}
	for _, k := range []string{"single", "multi-tx", "single"} {
		if err := exec(k); err != nil {
			return nil, err
		}
	}
	c.WaitConverged(20 * time.Second)
	// quiescence: endpoint up, a stable leader; wait until every group has been accepted or nothing moves
	want := 0
	for _, e := range h.log {
		want += len(e.Groups)
	}
	delivered := func() int {
		h.ep.mu.Lock()
		defer h.ep.mu.Unlock()
		seen := map[[2]int]bool{}
		for _, a := range h.ep.accepted {
			for _, gr := range a.Groups {
				seen[[2]int{gr[0], gr[1]}] = true
			}
		}
		return len(seen)
	}
	last, stable := int64(-1), 0
	cdcWait(30*time.Second, func() bool {
		time.Sleep(150 * time.Millisecond)
		cur := h.nevents.Load()
		if cur == last {
			stable++
		} else {
			stable = 0
		}
		last = cur
		return stable >= 6 || (delivered() >= want && stable >= 3)
	})
	ld := c.Leader(20 * time.Second)
	leader := ""
	if ld != nil {
		leader = ld.ID
	}
	groups := [][2]int{}
	h.liveMu.Lock()
	for _, e := range h.log {
		for j := range e.Groups {
			groups = append(groups, [2]int{h.live[e.K], j + 1})
		}
	}
	h.liveMu.Unlock()
	emit("", "c.final", "leader", leader, "groups", groups)
	res := &cdcResult{Name: "live-3-node-cluster", Nodes: 3, Entries: len(h.log), Requests: h.ep.requests, Refused: h.ep.refused,
		Accepted: len(h.ep.accepted), PayloadBad: h.bad, Notes: h.notes, Kinds: map[string]int{}}
	seen := map[[2]int]bool{}
	for _, a := range h.ep.accepted {
		for _, gr := range a.Groups {
			seen[[2]int{gr[0], gr[1]}] = true
			if gr[2] != gr[0] {
				res.Mislabel = append(res.Mislabel, gr)
			}
		}
	}
	for _, gr := range groups {
		res.Groups++
		if !seen[gr] {
			res.Lost = append(res.Lost, gr)
		}
	}
	for _, e := range h.log {
		res.Kinds[e.Kind]++
	}
	for _, id := range c.IDs() {
		if h.cnt[id].dropped.Load() > 0 {
			return nil, fmt.Errorf("live: the hand-off channel of %s filled up", id)
		}
	}
	return res, nil
}

func cdcLiveRun(w *ndWriter, base string, seed int64) (*cdcResult, error) {
	dir, err := os.MkdirTemp(base, "live")
	if err != nil {
		return nil, err
	}
	defer os.RemoveAll(dir)
	h := &cdcH{w: w, base: dir, nodes: map[string]*cdcNode{}, cnt: map[string]*cdcCounters{}, sigs: map[string][2]int{}, expect: map[[2]int]map[string]bool{}, flap: map[string]*cdcFlap{}}
	for _, id := range []string{"n1", "n2", "n3"} {
		h.cnt[id] = &cdcCounters{}
		h.order = append(h.order, id)
	}
	h.ep = &cdcEndpoint{h: h, up: true}
	h.ep.srv = httptest.NewServer(h.ep)
	defer h.ep.srv.Close()
	vhook.SetSink(h.sink)
	defer vhook.SetSink(nil)
	return cdcLive(h, dir, newCDCGen(rand.New(rand.NewSource(seed))))
}
