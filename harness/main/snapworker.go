package main

// snap-worker: one life of a single-node rqlite store in a child process, driven by a script,
// possibly ended by a crash point (VERIF_CRASH=<point>#<k> -> exit 86) or by an explicit kill.
// snap-replay: runs cases (sequences of lives on one data directory) and writes the trace that
// TraceSnapshotting.tla validates.  See Snapshotting.tla for the model and the op vocabulary.
//
// script ops (comma separated):
//   w:<pages>       one non-idempotent write request: UPDATE p<k> SET v=v+1 for every page digit k,
//                   plus a key-less INSERT INTO t(tag)
//   L               load a generated SQLite file whose pages all hold 10*<op number>
//   LB              load a file with a valid SQLite header and a garbage body (must fail, database unchanged)
//   s               user-requested snapshot (Store.Snapshot)
//   sn              snapshot whose sink cannot be created (Persist not invoked)
//   s[<gate>:<ops>] snapshot held at gate snap.persisted|snap.finalized while <ops> (';' separated) run
//   r               reap snapshots
//   c / C           graceful close without / with the close-time snapshot (ends the life)
//   x               kill the process now (ends the life)

import (
	"bytes"
	"bufio"
	"context"
	"database/sql"
	"encoding/json"
	"errors"
	"flag"
	"fmt"
	"os"
	"os/exec"
	"path/filepath"
	"sort"
	"strconv"
	"strings"
	"sync"
	"time"

	"github.com/rqlite/rqlite/v10/command/proto"
	"github.com/rqlite/rqlite/v10/internal/vhook"
	"github.com/rqlite/rqlite/v10/store"
)

func init() {
	register("snap-worker", snapWorker)
	register("snap-replay", snapReplay)
}

const snapPages = 2

type snapState struct {
	Pages  []int64 `json:"pages"`
	Rows   int64   `json:"rows"`
	Sum    int64   `json:"sum"`
	Snaps  int     `json:"snaps"`
	Staged int     `json:"staged"`
	Err    string  `json:"err,omitempty"`
}

func snapProject(s *store.Store, level proto.ConsistencyLevel) snapState {
	st := snapState{}
	for k := 1; k <= snapPages; k++ {
		rows, err := sQuery(s, level, fmt.Sprintf("SELECT v FROM p%d WHERE id=1", k))
		if err != nil || rows[0].Error != "" || len(rows[0].Values) != 1 {
			st.Err = fmt.Sprintf("p%d: %v %v", k, err, rows)
			st.Pages = append(st.Pages, -1)
			continue
		}
		st.Pages = append(st.Pages, rows[0].Values[0].Parameters[0].GetI())
	}
	rows, err := sQuery(s, level, "SELECT count(*), coalesce(sum(tag),0) FROM t")
	if err == nil && rows[0].Error == "" {
		st.Rows = rows[0].Values[0].Parameters[0].GetI()
		st.Sum = rows[0].Values[0].Parameters[1].GetI()
	} else {
		st.Err += fmt.Sprintf(" t: %v", err)
		st.Rows = -1
	}
	if w, err := s.StagedWALs(); err == nil {
		st.Staged = len(w)
	}
	return st
}

// makeLoadFile writes a SQLite database in which every page table holds val and t is empty.
func makeLoadFile(path string, val int64) error {
	os.Remove(path)
	db, err := sql.Open("sqlite3", path)
	if err != nil {
		return err
	}
	defer db.Close()
	stm := []string{"CREATE TABLE t(tag INTEGER)"}
	for k := 1; k <= snapPages; k++ {
		stm = append(stm, fmt.Sprintf("CREATE TABLE p%d(id INTEGER PRIMARY KEY, v INTEGER)", k), fmt.Sprintf("INSERT INTO p%d VALUES(1,%d)", k, val))
	}
	for _, q := range stm {
		if _, err := db.Exec(q); err != nil {
			return err
		}
	}
	return nil
}

type ackLog struct {
	f *os.File
}

func (a *ackLog) line(v map[string]any) {
	b, _ := json.Marshal(v)
	a.f.Write(append(b, '\n'))
}

func snapWorker(args []string) error {
	fs := flag.NewFlagSet("snap-worker", flag.ExitOnError)
	dir := fs.String("dir", "", "node directory")
	addr := fs.String("addr", "", "fixed raft address")
	script := fs.String("script", "", "ops")
	outp := fs.String("out", "", "event file (appended)")
	opBase := fs.Int("opbase", 0, "number of write/load ops already issued in earlier lives")
	bootstrap := fs.Bool("bootstrap", false, "first life: bootstrap and create the schema")
	fs.Parse(args)
	f, err := os.OpenFile(*outp, os.O_CREATE|os.O_WRONLY|os.O_APPEND, 0644)
	if err != nil {
		return err
	}
	al := &ackLog{f: f}
	fast := false
	g := &gatePark{}
	vhook.SetGate(g.fn)
	var failCreate bool
	var fmu sync.Mutex
	vhook.SetFail(func(point string) bool {
		fmu.Lock()
		defer fmu.Unlock()
		if point == "snapstore.create" && failCreate {
			failCreate = false
			return true
		}
		return false
	})
	vhook.SetSink(func(e vhook.Event) {
		if e.Ev == "open.fast" {
			fast = true
		}
	})
	quietLogs()
	nw := newVnet()
	recovering := false
	var peers []string
	if b, err := os.ReadFile(filepath.Join(*dir, "raft", "peers.json")); err == nil {
		recovering = true
		var pf []struct {
			ID       string `json:"id"`
			NonVoter bool   `json:"non_voter"`
		}
		json.Unmarshal(b, &pf)
		for _, e := range pf {
			peers = append(peers, fmt.Sprintf("%s:%v", e.ID, !e.NonVoter))
		}
		sort.Strings(peers)
	}
	n, err := startNode(nw, vNodeOpts{ID: "n1", Dir: *dir, Addr: *addr, NoHTTP: true})
	if err != nil {
		// for diagnosis: what the snapshot store looks like
		var listing []string
		filepath.Walk(filepath.Join(*dir, "wsnapshots"), func(p string, fi os.FileInfo, err error) error {
			if err == nil {
				rel, _ := filepath.Rel(*dir, p)
				listing = append(listing, fmt.Sprintf("%s:%d", rel, fi.Size()))
			}
			return nil
		})
		al.line(map[string]any{"ev": "openfail", "err": err.Error(), "snapshot_store": listing})
		return err
	}
	s := n.Store
	if *bootstrap {
		if err := s.Bootstrap(store.NewServer("n1", n.Addr, true)); err != nil {
			return err
		}
	}
	if _, err := s.WaitForLeader(30 * time.Second); err != nil {
		al.line(map[string]any{"ev": "openfail", "err": "no leader: " + err.Error()})
		return err
	}
	if *bootstrap {
		stm := []string{"CREATE TABLE t(tag INTEGER)"}
		for k := 1; k <= snapPages; k++ {
			stm = append(stm, fmt.Sprintf("CREATE TABLE p%d(id INTEGER PRIMARY KEY, v INTEGER)", k), fmt.Sprintf("INSERT INTO p%d VALUES(1,0)", k))
		}
		if _, _, err := sExec(s, true, stm...); err != nil {
			return err
		}
	}
	// a strong read goes through the log: everything before it has been applied
	st := snapProject(s, proto.ConsistencyLevel_STRONG)
	snaps, _ := s.Stats()
	_ = snaps
	var nodes []string
	if ns, err := s.Nodes(); err == nil {
		for _, e := range ns {
			nodes = append(nodes, fmt.Sprintf("%s:%v", e.ID, e.Suffrage == proto.Suffrage_VOTER))
		}
		sort.Strings(nodes)
	}
	if peers == nil {
		peers = []string{}
	}
	al.line(map[string]any{"ev": "open", "pages": st.Pages, "rows": st.Rows, "sum": st.Sum, "fast": fast, "recover": recovering, "staged": st.Staged, "err": st.Err,
		"nodes": nodes, "peers": peers})

	opn := *opBase
	var runOps func(ops []string) (ended bool)
	doWrite := func(pages string) {
		opn++
		var q []string
		var pg []int
		for _, ch := range pages {
			k := int(ch - '0')
			pg = append(pg, k)
			q = append(q, fmt.Sprintf("UPDATE p%d SET v=v+1 WHERE id=1", k))
		}
		q = append(q, fmt.Sprintf("INSERT INTO t(tag) VALUES(%d)", opn))
		al.line(map[string]any{"ev": "inv", "k": "w", "pages": pg, "n": opn})
		rs, _, err := sExec(s, true, q...)
		ok := err == nil
		for _, r := range rs {
			if r.GetError() != "" {
				ok = false
			}
		}
		al.line(map[string]any{"ev": "ack", "k": "w", "pages": pg, "n": opn, "ok": ok})
	}
	doLoad := func(bad, boot bool) {
		opn++
		p := filepath.Join(*dir, "..", fmt.Sprintf("load-%d.sqlite", opn))
		if err := makeLoadFile(p, int64(10*opn)); err != nil {
			al.line(map[string]any{"ev": "note", "err": "makeLoadFile: " + err.Error()})
			return
		}
		b, _ := os.ReadFile(p)
		os.Remove(p)
		if bad {
			// keep the 100-byte header (valid magic, page size, ...) and destroy the rest
			for i := 100; i < len(b); i++ {
				b[i] = byte(0xA5 ^ i)
			}
		}
		kind := "L"
		if bad {
			kind = "LB"
		}
		al.line(map[string]any{"ev": "inv", "k": kind, "pages": []int{}, "n": opn})
		var err error
		if boot {
			// Store.ReadFrom ("boot"): the same replacement of the database, not through the log
			_, err = s.ReadFrom(bytes.NewReader(b))
		} else {
			err = s.Load(context.Background(), &proto.LoadRequest{Data: b})
		}
		es := ""
		if err != nil {
			es = err.Error()
		}
		al.line(map[string]any{"ev": "ack", "k": kind, "pages": []int{}, "n": opn, "ok": err == nil, "err": es})
	}
	state := func(why string) {
		// read locally: a strong read would append an entry to the log after every snapshot, and "the newest
		// snapshot covers the whole log" would never be reached (on a single node an acknowledged operation
		// has been applied)
		st := snapProject(s, proto.ConsistencyLevel_NONE)
		al.line(map[string]any{"ev": "state", "why": why, "pages": st.Pages, "rows": st.Rows, "sum": st.Sum, "staged": st.Staged, "err": st.Err})
	}
	runOps = func(ops []string) bool {
		for _, op := range ops {
			op = strings.TrimSpace(op)
			switch {
			case op == "":
			case strings.HasPrefix(op, "w:"):
				doWrite(op[2:])
			case op == "L":
				doLoad(false, false)
				state("load")
			case op == "B":
				doLoad(false, true)
				state("boot")
			case op == "LB":
				doLoad(true, false)
				state("badload")
			case op == "s" || op == "sn":
				if op == "sn" {
					fmu.Lock()
					failCreate = true
					fmu.Unlock()
				}
				err := s.Snapshot(0)
				fmu.Lock()
				failCreate = false // not consumed if there was nothing to snapshot
				fmu.Unlock()
				es := ""
				if err != nil {
					es = err.Error()
				}
				al.line(map[string]any{"ev": "snap", "op": op, "err": es})
				state("snap")
			case strings.HasPrefix(op, "s[") && strings.HasSuffix(op, "]"):
				in := op[2 : len(op)-1]
				i := strings.Index(in, ":")
				gate, inner := in[:i], strings.Split(in[i+1:], ";")
				g.arm(gate, "")
				done := make(chan error, 1)
				go func() { done <- s.Snapshot(0) }()
				parked := false
				select {
				case <-g.parked:
					parked = true
				case err := <-done:
					al.line(map[string]any{"ev": "snap", "op": op, "err": fmt.Sprint(err), "gate": "not-reached"})
					done <- err
				case <-time.After(20 * time.Second):
				}
				if parked {
					runOps(inner)
					close(g.release)
				}
				err := <-done
				es := ""
				if err != nil {
					es = err.Error()
				}
				al.line(map[string]any{"ev": "snap", "op": op, "err": es, "parked": parked})
				state("snap")
			case op == "r":
				_, _, err := s.Reap()
				al.line(map[string]any{"ev": "reap", "err": fmt.Sprint(err)})
				state("reap")
			case op == "c" || op == "C":
				s.NoSnapshotOnClose = op == "c"
				n.Stop()
				al.line(map[string]any{"ev": "closed", "op": op})
				return true
			case op == "x":
				al.line(map[string]any{"ev": "killed"})
				f.Sync()
				os.Exit(86)
			default:
				al.line(map[string]any{"ev": "note", "err": "unknown op " + op})
			}
		}
		return false
	}
	// the gate hook passes no instance for snapshot gates: match on the point only
	if !runOps(splitTop(*script)) {
		n.Stop()
		al.line(map[string]any{"ev": "closed", "op": "c"})
	}
	return nil
}

// splitTop splits on commas that are not inside [...].
func splitTop(s string) []string {
	var out []string
	depth, cur := 0, ""
	for _, ch := range s {
		switch {
		case ch == '[':
			depth++
			cur += string(ch)
		case ch == ']':
			depth--
			cur += string(ch)
		case ch == ',' && depth == 0:
			out = append(out, cur)
			cur = ""
		default:
			cur += string(ch)
		}
	}
	if cur != "" {
		out = append(out, cur)
	}
	return out
}

// ---------------------------------------------------------------- driver

type snapPhase struct {
	Script  string `json:"script"`
	Crash   string `json:"crash"`   // VERIF_CRASH value, "" = none
	Recover bool   `json:"recover"` // write peers.json before this life
	RmFP    bool   `json:"rmfp"`    // remove the clean-snapshot fingerprint before this life (forces a restore)
}

type snapCase struct {
	ID     string      `json:"id"`
	Phases []snapPhase `json:"phases"`
}

func snapReplay(args []string) error {
	fs := flag.NewFlagSet("snap-replay", flag.ExitOnError)
	in := fs.String("in", "", "cases ndjson")
	out := fs.String("out", "snap.trace.ndjson", "trace")
	base := fs.String("dir", "", "scratch dir")
	par := fs.Int("par", 4, "cases in parallel")
	port0 := fs.Int("port", 21000, "first port")
	fs.Parse(args)
	rows, err := readND(*in)
	if err != nil {
		return err
	}
	var cases []snapCase
	for _, r := range rows {
		b, _ := json.Marshal(r)
		var c snapCase
		if err := json.Unmarshal(b, &c); err != nil {
			return err
		}
		cases = append(cases, c)
	}
	self, _ := os.Executable()
	results := make([][]map[string]any, len(cases))
	var wg sync.WaitGroup
	sem := make(chan int, *par)
	for i := 0; i < *par; i++ {
		sem <- i
	}
	for ci := range cases {
		wg.Add(1)
		go func(ci int) {
			defer wg.Done()
			slot := <-sem
			defer func() { sem <- slot }()
			c := cases[ci]
			cdir := filepath.Join(*base, fmt.Sprintf("case%d", ci))
			ndir := filepath.Join(cdir, "n1")
			os.MkdirAll(ndir, 0755)
			evf := filepath.Join(cdir, "events.ndjson")
			addr := fmt.Sprintf("127.0.0.1:%d", *port0+slot)
			ev := []map[string]any{{"ev": "reset", "case": c.ID}}
			opn := 0
			for pi, ph := range c.Phases {
				os.Remove(evf)
				if ph.Recover {
					// the node itself as voter plus a node that does not exist as non-voter: the recovered
					// configuration must be exactly this
					pj := fmt.Sprintf(`[{"id":"n1","address":"%s","non_voter":false},{"id":"ghost%d","address":"127.0.0.1:9","non_voter":true}]`, addr, pi)
					os.WriteFile(filepath.Join(ndir, "raft", "peers.json"), []byte(pj), 0644)
				}
				if ph.RmFP {
					os.Remove(filepath.Join(ndir, "clean_snapshot"))
					os.Remove(filepath.Join(ndir, "raft", "clean_snapshot"))
				}
				cmd := exec.Command(self, "snap-worker", "-dir", ndir, "-addr", addr, "-script", ph.Script, "-out", evf, "-opbase", strconv.Itoa(opn))
				if pi == 0 {
					cmd.Args = append(cmd.Args, "-bootstrap")
				}
				cmd.Env = append(os.Environ(), "VERIF_CRASH="+ph.Crash)
				var stderr strings.Builder
				cmd.Stderr = &stderr
				ctx, cancel := context.WithTimeout(context.Background(), 120*time.Second)
				cmdDone := make(chan error, 1)
				cmd.Start()
				go func() { cmdDone <- cmd.Wait() }()
				var werr error
				select {
				case werr = <-cmdDone:
				case <-ctx.Done():
					cmd.Process.Kill()
					werr = errors.New("worker timeout")
				}
				cancel()
				code := 0
				if werr != nil {
					var ee *exec.ExitError
					if errors.As(werr, &ee) {
						code = ee.ExitCode()
					} else {
						code = -1
					}
				}
				lines, _ := readNDFile(evf)
				for _, l := range lines {
					l["phase"] = pi
					ev = append(ev, l)
					if l["ev"] == "inv" {
						opn++
					}
				}
				end := map[string]any{"ev": "end", "phase": pi, "exit": code, "crash": ph.Crash}
				if code != 0 && code != 86 {
					tail := stderr.String()
					if len(tail) > 600 {
						tail = tail[len(tail)-600:]
					}
					end["stderr"] = tail
				}
				ev = append(ev, end)
				if code != 0 && code != 86 {
					break
				}
			}
			results[ci] = ev
			os.RemoveAll(cdir)
		}(ci)
	}
	wg.Wait()
	w, err := newND(*out)
	if err != nil {
		return err
	}
	n := 0
	for _, ev := range results {
		for _, l := range ev {
			w.Write(l)
			n++
		}
	}
	if err := w.Close(); err != nil {
		return err
	}
	fmt.Printf("{\"cases\":%d,\"events\":%d}\n", len(cases), n)
	return nil
}

func readNDFile(path string) ([]map[string]any, error) {
	f, err := os.Open(path)
	if err != nil {
		return nil, err
	}
	defer f.Close()
	var out []map[string]any
	sc := bufio.NewScanner(f)
	sc.Buffer(make([]byte, 1<<20), 1<<26)
	for sc.Scan() {
		var m map[string]any
		if json.Unmarshal(sc.Bytes(), &m) == nil {
			out = append(out, m)
		}
	}
	return out, nil
}
