package main

import (
	"strings"
	"bufio"
	"encoding/json"
	"flag"
	"fmt"
	"math/rand"
	"os"
	"os/exec"
	"path/filepath"
	"time"

	"github.com/rqlite/rqlite/v10/cdc"
)

func init() {
	register("fifo-trace", fifoTrace)
	register("fifo-worker", fifoWorker)
}

type fifoOp struct {
	Op  string `json:"op"`
	Idx uint64 `json:"idx"`
}

func fifoData(idx uint64) []byte { return []byte(fmt.Sprintf("payload-%d-%d", idx, idx*7919)) }

// fifoExec runs one operation on the real queue and returns the trace lines it produced.
func fifoExec(q *cdc.Queue, op fifoOp) []map[string]any {
	var out []map[string]any
	switch op.Op {
	case "enq":
		err := q.Enqueue(&cdc.Event{Index: op.Idx, Data: fifoData(op.Idx)})
		out = append(out, map[string]any{"ev": "enq", "idx": op.Idx, "ok": err == nil})
	case "del":
		err := q.DeleteRange(op.Idx)
		out = append(out, map[string]any{"ev": "del", "idx": op.Idx, "ok": err == nil})
	case "emit":
		if q.HasNext() {
			select {
			case e := <-q.C:
				out = append(out, map[string]any{"ev": "emit", "idx": e.Index, "dataok": string(e.Data) == string(fifoData(e.Index))})
			case <-time.After(10 * time.Second):
				out = append(out, map[string]any{"ev": "emit-missing"})
			}
		} else {
			select {
			case e := <-q.C: // nothing should be available
				out = append(out, map[string]any{"ev": "emit", "idx": e.Index, "dataok": true, "spurious": true})
			case <-time.After(2 * time.Millisecond):
			}
		}
	}
	first, _ := q.FirstKey()
	high, _ := q.HighestKey()
	out = append(out, map[string]any{"ev": "state", "len": q.Len(), "first": first, "high": high, "hasnext": q.HasNext()})
	return out
}

// fifoWorker executes a script in a child process (possibly killed at a crash point by
// VERIF_CRASH); each completed operation's trace lines go to stdout immediately.
func fifoWorker(args []string) error {
	fs := flag.NewFlagSet("fifo-worker", flag.ExitOnError)
	db := fs.String("db", "", "")
	script := fs.String("script", "", "")
	fs.Parse(args)
	var ops []fifoOp
	b, err := os.ReadFile(*script)
	if err != nil {
		return err
	}
	if err := json.Unmarshal(b, &ops); err != nil {
		return err
	}
	q, err := fifoOpen(*db)
	if err != nil {
		return err
	}
	w := bufio.NewWriter(os.Stdout)
	for i, op := range ops {
		for _, line := range fifoExec(q, op) {
			line["opno"] = i
			jb, _ := json.Marshal(line)
			w.Write(jb)
			w.WriteByte('\n')
		}
		w.Flush()
	}
	os.Exit(0) // no Close: the caller decides
	return nil
}

func fifoGenOps(rng *rand.Rand, n int, hi *uint64) []fifoOp {
	var ops []fifoOp
	for i := 0; i < n; i++ {
		switch k := rng.Intn(10); {
		case k < 4:
			var idx uint64
			if rng.Intn(4) == 0 { // at or below the highest: must be ignored
				idx = 1 + uint64(rng.Int63n(int64(*hi+1)))
			} else {
				idx = *hi + 1 + uint64(rng.Intn(3))
			}
			if idx > *hi {
				*hi = idx
			}
			ops = append(ops, fifoOp{"enq", idx})
		case k < 8:
			ops = append(ops, fifoOp{Op: "emit"})
		default:
			ops = append(ops, fifoOp{"del", uint64(rng.Int63n(int64(*hi + 2)))})
		}
	}
	return ops
}

func fifoTrace(args []string) error {
	fs := flag.NewFlagSet("fifo-trace", flag.ExitOnError)
	out := fs.String("out", "trace.ndjson", "")
	runs := fs.Int("runs", 100, "")
	segs := fs.Int("segs", 4, "")
	kills := fs.Bool("kills", true, "")
	exh := fs.Int("exhaustive", 0, "also enumerate ALL op sequences of this length over a small alphabet")
	fs.Parse(args)
	w, err := newND(*out)
	if err != nil {
		return err
	}
	defer w.Close()
	self, _ := os.Executable()
	dir, err := os.MkdirTemp("", "fifo")
	if err != nil {
		return err
	}
	defer os.RemoveAll(dir)
	nkill, nkillhit := 0, 0
	points := []string{"fifo.enq.intx", "fifo.enq.committed", "fifo.del.intx", "fifo.del.committed"}
	for r := 0; r < *runs; r++ {
		rng := newRand(int64(r))
		db := filepath.Join(dir, fmt.Sprintf("q%d.db", r))
		w.Write(map[string]any{"ev": "reset", "run": r})
		var hi uint64
		for s := 0; s < *segs; s++ {
			ops := fifoGenOps(rng, 3+rng.Intn(8), &hi)
			if *kills && rng.Intn(3) == 0 {
				// run this segment in a child that is killed at a crash point
				nkill++
				w.Write(map[string]any{"ev": "reopen"}) // the child opens the queue afresh
				sp := filepath.Join(dir, "script.json")
				writeJSON(sp, ops)
				pt := points[rng.Intn(len(points))]
				k := 1 + rng.Intn(3)
				cmd := exec.Command(self, "fifo-worker", "-db", db, "-script", sp)
				cmd.Env = append(os.Environ(), fmt.Sprintf("VERIF_CRASH=%s#%d", pt, k))
				outb, err := cmd.Output()
				code := 0
				if ee, ok := err.(*exec.ExitError); ok {
					code = ee.ExitCode()
				} else if err != nil {
					return err
				}
				last := -1
				sc := bufio.NewScanner(bytesReader(outb))
				for sc.Scan() {
					var m map[string]any
					if json.Unmarshal(sc.Bytes(), &m) != nil {
						continue
					}
					last = int(m["opno"].(float64))
					delete(m, "opno")
					w.Write(m)
				}
				switch code {
				case 86:
					nkillhit++
					inflight := ops[last+1]
					w.Write(map[string]any{"ev": "kill", "op": inflight.Op, "idx": inflight.Idx, "point": pt})
				case 0:
					w.Write(map[string]any{"ev": "kill", "op": "none", "idx": 0, "point": "exit"})
				default:
					return fmt.Errorf("fifo worker exited with %d: %s", code, outb)
				}
				// observe the reopened queue
				q, err := fifoOpen(db)
				if err != nil {
					return err
				}
				for _, line := range fifoExec(q, fifoOp{Op: "state"}) {
					w.Write(line)
				}
				q.Close()
				continue
			}
			q, err := fifoOpen(db)
			if err != nil {
				return err
			}
			if s > 0 {
				w.Write(map[string]any{"ev": "reopen"})
				for _, line := range fifoExec(q, fifoOp{Op: "state"}) {
					w.Write(line)
				}
			}
			for _, op := range ops {
				for _, line := range fifoExec(q, op) {
					w.Write(line)
				}
			}
			q.Close()
		}
	}
	nexh := 0
	if *exh > 0 {
		alpha := []fifoOp{{"enq", 1}, {"enq", 2}, {"enq", 3}, {"del", 0}, {"del", 1}, {"del", 2}, {"del", 3}, {Op: "emit"}, {Op: "reopen"}}
		seq := make([]int, *exh)
		for {
			db := filepath.Join(dir, fmt.Sprintf("x%d.db", nexh))
			w.Write(map[string]any{"ev": "reset", "exh": nexh})
			q, err := fifoOpen(db)
			if err != nil {
				return err
			}
			for _, k := range seq {
				op := alpha[k]
				if op.Op == "reopen" {
					q.Close()
					if q, err = fifoOpen(db); err != nil {
						return err
					}
					w.Write(map[string]any{"ev": "reopen"})
				}
				for _, line := range fifoExec(q, op) {
					w.Write(line)
				}
			}
			q.Close()
			os.Remove(db)
			nexh++
			i := len(seq) - 1
			for ; i >= 0; i-- {
				seq[i]++
				if seq[i] < len(alpha) {
					break
				}
				seq[i] = 0
			}
			if i < 0 {
				break
			}
		}
	}
	fmt.Printf("{\"runs\":%d,\"events\":%d,\"kill_segments\":%d,\"kills_hit\":%d,\"exhaustive_sequences\":%d}\n", *runs, w.n, nkill, nkillhit, nexh)
	return nil
}

// fifoOpen opens the queue; bbolt gives up after one second if the file is still locked, which on a loaded machine
// happens when the previous owner (a killed worker being reaped, a queue being closed) has not let go yet.
func fifoOpen(path string) (*cdc.Queue, error) {
	var q *cdc.Queue
	var err error
	for i := 0; i < 20; i++ {
		if q, err = cdc.NewQueue(path); err == nil || !strings.Contains(err.Error(), "timeout") {
			return q, err
		}
	}
	return q, err
}
