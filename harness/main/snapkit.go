package main

// snapkit: helpers shared by the snapshot-store harnesses (transfer.go = C10, corrupt.go = C12).
// A "versioned pages" SQLite database (DESIGN 4.1: table p_k(v, pad) per page k) is written
// through rqlite's db package, snapshotted into a REAL snapshot.Store the way store.fsmSnapshot
// does it (full: checkpoint + SnapshotStreamer; incremental: CheckpointManager writes the
// compacted WAL into a StagingDir, SnapshotPathStreamer hands the directory to the sink).

import (
	"bytes"
	"fmt"
	"io"
	"math/rand"
	"os"
	"path/filepath"
	"sort"
	"strings"
	"time"

	"github.com/hashicorp/raft"
	"github.com/rqlite/rqlite/v10/db"
	"github.com/rqlite/rqlite/v10/snapshot"
)

type vpDB struct {
	dir   string
	path  string
	h     *db.DB
	cm    *db.CheckpointManager
	pages int
	ver   int
	rng   *rand.Rand
}

// newVPDB creates a database with the given SQLite page size holding `pages` tables.
func newVPDB(dir string, pageSize, pages int, rng *rand.Rand) (*vpDB, error) {
	if err := os.MkdirAll(dir, 0755); err != nil {
		return nil, err
	}
	p := filepath.Join(dir, "live.db")
	// page size must be chosen before the first page is written and before WAL mode
	h0, err := db.Open(p, false, false)
	if err != nil {
		return nil, err
	}
	if err := h0.VerifRWExec(fmt.Sprintf("PRAGMA page_size=%d", pageSize)); err != nil {
		return nil, err
	}
	for k := 0; k < pages; k++ {
		if err := h0.VerifRWExec(fmt.Sprintf("CREATE TABLE p_%d (v INTEGER, pad BLOB)", k)); err != nil {
			return nil, err
		}
		if err := h0.VerifRWExec(fmt.Sprintf("INSERT INTO p_%d(v, pad) VALUES(0, x'')", k)); err != nil {
			return nil, err
		}
	}
	if err := h0.Close(); err != nil {
		return nil, err
	}
	h, err := db.Open(p, false, true)
	if err != nil {
		return nil, err
	}
	cm, err := db.NewCheckpointManager(h)
	if err != nil {
		return nil, err
	}
	return &vpDB{dir: dir, path: p, h: h, cm: cm, pages: pages, rng: rng}, nil
}

// write stamps a fresh version on the chosen pages in one transaction; padLen > 0 also rewrites
// the pad blob with random bytes (spills to overflow pages when larger than a page).
func (v *vpDB) write(pages []int, padLen int) error {
	v.ver++
	stmts := []string{}
	for _, k := range pages {
		if padLen > 0 {
			b := make([]byte, padLen)
			v.rng.Read(b)
			stmts = append(stmts, fmt.Sprintf("UPDATE p_%d SET v=%d, pad=x'%x'", k, v.ver, b))
		} else {
			stmts = append(stmts, fmt.Sprintf("UPDATE p_%d SET v=%d", k, v.ver))
		}
	}
	return v.h.VerifRWExec("BEGIN;" + strings.Join(stmts, ";") + ";COMMIT")
}

func (v *vpDB) close() {
	if v.cm != nil {
		v.cm.Close()
	}
	if v.h != nil {
		v.h.Close()
	}
}

// logicalDump returns a canonical text of the whole database file at path (schema + all rows,
// blobs in hex), or an error text if SQLite cannot read it.  Used as the logical projection.
func logicalDump(path string) string {
	tmp := path + ".dumpcopy"
	b, err := os.ReadFile(path)
	if err != nil {
		return "ERR read: " + err.Error()
	}
	if err := os.WriteFile(tmp, b, 0644); err != nil {
		return "ERR copy: " + err.Error()
	}
	defer os.Remove(tmp)
	defer os.Remove(tmp + "-wal")
	defer os.Remove(tmp + "-shm")
	h, err := db.Open(tmp, false, false)
	if err != nil {
		return "ERR open: " + err.Error()
	}
	defer h.Close()
	var sb strings.Builder
	rows, err := h.QueryStringStmt(`SELECT name, sql FROM sqlite_master WHERE type='table' ORDER BY name`)
	if err != nil || len(rows) == 0 || rows[0].Error != "" {
		return fmt.Sprintf("ERR master: %v %v", err, rows)
	}
	names := []string{}
	for _, r := range rows[0].Values {
		n := r.Parameters[0].GetS()
		names = append(names, n)
		sb.WriteString(n + "|" + r.Parameters[1].GetS() + "\n")
	}
	sort.Strings(names)
	for _, n := range names {
		q, err := h.QueryStringStmt(fmt.Sprintf(`SELECT rowid, v, hex(pad) FROM "%s" ORDER BY rowid`, n))
		if err != nil || len(q) == 0 || q[0].Error != "" {
			sb.WriteString(fmt.Sprintf("ERR %s: %v %v\n", n, err, q))
			continue
		}
		for _, r := range q[0].Values {
			sb.WriteString(fmt.Sprintf("%s:%d:%d:%s\n", n, r.Parameters[0].GetI(), r.Parameters[1].GetI(), r.Parameters[2].GetS()))
		}
	}
	return sb.String()
}

// ---------------------------------------------------------------- stores

type kitStore struct {
	dir  string
	st   *snapshot.Store
	idx  uint64
	term uint64
}

func kitConfiguration() raft.Configuration {
	return raft.Configuration{Servers: []raft.Server{{ID: raft.ServerID("1"), Address: raft.ServerAddress("localhost:1")}}}
}

func newKitStore(dir string) (*kitStore, error) {
	st, err := snapshot.NewStore(dir)
	if err != nil {
		return nil, err
	}
	st.SetReapThreshold(1 << 30) // no background reaping; Reap is called explicitly
	st.SetReadTimeout(0)
	st.VerifSetFatalFn(nil) // integrity errors are returned instead of exiting (child-process variants keep the default)
	return &kitStore{dir: dir, st: st, term: 2}, nil
}

func (k *kitStore) close() { k.st.Close() }

// newSink creates the next sink (term fixed, index increasing, so ids are distinct and ordered).
func (k *kitStore) newSink() (raft.SnapshotSink, error) {
	k.idx += 10
	return k.st.Create(1, k.idx, k.term, kitConfiguration(), 1, nil)
}

// snapFull takes a full snapshot of v the way fsmSnapshot does.
func (k *kitStore) snapFull(v *vpDB) (string, error) {
	if meta, _, err := v.cm.Checkpoint(nil, 5*time.Second); err != nil {
		return "", fmt.Errorf("checkpoint: %w", err)
	} else if !meta.Success() {
		return "", fmt.Errorf("checkpoint did not succeed")
	}
	str, err := snapshot.NewSnapshotStreamer(v.path)
	if err != nil {
		return "", err
	}
	if err := str.Open(); err != nil {
		return "", err
	}
	defer str.Close()
	return k.persist(str)
}

// snapInc takes an incremental snapshot: compacted WAL into a staging dir, handed over by path.
func (k *kitStore) snapInc(v *vpDB) (string, error) {
	staging := filepath.Join(v.dir, "wal-staging")
	if err := os.MkdirAll(staging, 0755); err != nil {
		return "", err
	}
	sd := snapshot.NewStagingDir(staging)
	w, _, err := sd.CreateWAL()
	if err != nil {
		return "", err
	}
	defer w.Cancel()
	if _, n, err := v.cm.Checkpoint(w, 5*time.Second); err != nil {
		return "", fmt.Errorf("checkpoint: %w", err)
	} else if n == 0 {
		return "", fmt.Errorf("no WAL data to snapshot")
	}
	if err := w.Close(); err != nil {
		return "", err
	}
	str, err := snapshot.NewSnapshotPathStreamer(sd.Path())
	if err != nil {
		return "", err
	}
	defer str.Close()
	return k.persist(str)
}

func (k *kitStore) persist(r io.Reader) (string, error) {
	sink, err := k.newSink()
	if err != nil {
		return "", err
	}
	if _, err := io.Copy(sink, r); err != nil {
		sink.Cancel()
		return "", err
	}
	if err := sink.Close(); err != nil {
		return "", err
	}
	return sink.ID(), nil
}

// stream returns the bytes the real streamer produces for snapshot id, and the declared size.
func (k *kitStore) stream(id string) ([]byte, int64, error) {
	meta, rc, err := k.st.Open(id)
	if err != nil {
		return nil, 0, err
	}
	defer rc.Close()
	b, err := io.ReadAll(rc)
	if err != nil {
		return nil, 0, err
	}
	return b, meta.Size, nil
}

// install writes a byte stream into a new sink in one piece (used to build "full + WALs"
// snapshots, which only exist on the receiving side of a transfer).
func (k *kitStore) install(b []byte) (string, error) { return k.persist(bytes.NewReader(b)) }

func (k *kitStore) newest() (string, error) {
	l, err := k.st.List()
	if err != nil || len(l) == 0 {
		return "", fmt.Errorf("no snapshot: %v", err)
	}
	return l[0].ID, nil
}
