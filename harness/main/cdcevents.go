package main

// C27: CDC events describe exactly the rows changed.
//
// cdcev-replay runs sessions (sequences of requests over the statement classes of
// specs/CDCEvents.tla) on a REAL rqlite database with the REAL CDC hooks registered the way
// store.fsmApply does it (CDCStreamer.PreupdateHook / CommitHook, Reset before every request),
// collects the event groups the streamer emits and judges them twice:
//   - against the delivered groups the spec computes for the session (`want`; `asis` = the same
//     session with DropRolledBack off, the recorded finding), and
//   - against a shadow copy of the rows: at every commit the rows are dumped through a second
//     connection (typeof/quote of every column), the flushed group is replayed over the dump
//     and must produce the next dump (rowid, operation, before/after values with types).
// cdcev-gen writes seeded random longer sessions (expectations are then computed by TLC).
// cdcev-store runs sessions through a one-node store with Store.EnableCDC.

import (
	"bytes"
	"context"
	"database/sql"
	"encoding/hex"
	"encoding/json"
	"flag"
	"fmt"
	"math"
	"math/rand"
	"net"
	"os"
	"path/filepath"
	"reflect"
	"regexp"
	"sort"
	"strconv"
	"strings"
	"time"

	cdcjson "github.com/rqlite/rqlite/v10/cdc/json"
	"github.com/rqlite/rqlite/v10/command/proto"
	"github.com/rqlite/rqlite/v10/db"
	"github.com/rqlite/rqlite/v10/store"
)

func init() {
	register("cdcev-replay", cdcevReplay)
	register("cdcev-gen", cdcevGen)
	register("cdcev-store", cdcevStore)
}

type ceStmt struct {
	Op string `json:"op"`
	T  string `json:"t"`
	R  int    `json:"r"`
	R2 int    `json:"r2"`
}
type ceReq struct {
	Tx bool     `json:"tx"`
	S  []ceStmt `json:"s"`
}
type ceEv struct {
	Op string `json:"op"`
	T  string `json:"t"`
	O  int64  `json:"o"`
	N  int64  `json:"n"`
	Ov int64  `json:"ov"`
	Nv int64  `json:"nv"`
}
type ceCase struct {
	Trig  bool     `json:"trig"`
	Sess  []ceReq  `json:"sess"`
	Want  [][]ceEv `json:"want"`
	Asis  [][]ceEv `json:"asis"`
	Stale []string `json:"stale"` // kinds of undone work whose events the as-written streamer keeps
}

// ---------------------------------------------------------------- schema and concretisation

var ceCols = map[string][]string{
	"a": {"id", "tok", "nn", "ci", "cr", "ct", "cb", "cx"},
	"b": {"tok", "nn", "cx", "ct", "cr"},
}
var ceTokIdx = map[string]int{"a": 1, "b": 0}

const ceSchema = `CREATE TABLE a(id INTEGER PRIMARY KEY, tok INTEGER, nn INTEGER NOT NULL DEFAULT 0, ci INTEGER, cr REAL, ct TEXT, cb BLOB, cx);
CREATE INDEX a_tok ON a(tok);
CREATE TABLE b(tok INTEGER, nn INTEGER NOT NULL DEFAULT 0, cx, ct TEXT, cr REAL);`

var ceTriggers = []string{
	`CREATE TRIGGER a_ai AFTER INSERT ON a BEGIN INSERT OR IGNORE INTO b(rowid,tok,nn,cx,ct,cr) VALUES(new.id,new.tok,0,new.cx,new.ct,new.cr); END`,
	`CREATE TRIGGER a_ad AFTER DELETE ON a BEGIN DELETE FROM b WHERE rowid = old.id; END`,
}

func ceKey(t string) string {
	if t == "a" {
		return "id"
	}
	return "rowid"
}

// literal pools per storage class
var (
	ceInts  = []string{"0", "1", "-1", "42", "9007199254740993", "9223372036854775807", "-9223372036854775808", "255"}
	ceReals = []string{"0.5", "-1.25", "3.0", "1.0e-300", "1.7976931348623157e308", "0.1", "-0.0", "123456789.125", "2.5e15"}
	ceTexts = []string{"''", "'x'", "'it''s'", "'héllo ✓ 日本'", "'123'", "'1.0'", "'NULL'", "' lead and trail '", "'line1\nline2'"}
	ceBlobs = []string{"x''", "x'00'", "x'68656c6c6f'", "x'00ff10'", "x'deadbeef'", "x'7465787400'", "x'ffffffffffffffffffffffffffffffffffffffff'"}
)

func ceLit(r *rand.Rand, class string) string {
	if r.Intn(7) == 0 {
		return "NULL"
	}
	switch class {
	case "int":
		return ceInts[r.Intn(len(ceInts))]
	case "real":
		return ceReals[r.Intn(len(ceReals))]
	case "text":
		if r.Intn(12) == 0 {
			return "'" + strings.Repeat("long-", 80) + "'"
		}
		return ceTexts[r.Intn(len(ceTexts))]
	case "blob":
		if r.Intn(12) == 0 {
			b := make([]byte, 300)
			r.Read(b)
			return "x'" + hex.EncodeToString(b) + "'"
		}
		return ceBlobs[r.Intn(len(ceBlobs))]
	}
	// no affinity: anything
	return ceLit(r, []string{"int", "real", "text", "blob"}[r.Intn(4)])
}

var ceClass = map[string]string{"ci": "int", "cr": "real", "ct": "text", "cb": "blob", "cx": "any"}

// ceRowRand is deterministic in (seed, token, table, rowid).
func ceRowRand(tok int64, t string, rowid int) *rand.Rand {
	x := tok*1009 + int64(rowid)*17
	if t == "b" {
		x += 7
	}
	return newRand(x)
}

// ceInsertTuple renders "(cols) / (values)" for a full row.
func ceInsertTuple(tok int64, t string, rowid int) string {
	r := ceRowRand(tok, t, rowid)
	var vals []string
	for _, c := range ceCols[t] {
		switch c {
		case "id":
			vals = append(vals, strconv.Itoa(rowid))
		case "tok":
			vals = append(vals, strconv.FormatInt(tok, 10))
		case "nn":
			vals = append(vals, "0")
		default:
			vals = append(vals, ceLit(r, ceClass[c]))
		}
	}
	if t == "b" {
		vals = append([]string{strconv.Itoa(rowid)}, vals...)
	}
	return "(" + strings.Join(vals, ",") + ")"
}

func ceInsertCols(t string) string {
	if t == "b" {
		return "b(rowid," + strings.Join(ceCols["b"], ",") + ")"
	}
	return "a(" + strings.Join(ceCols["a"], ",") + ")"
}

// ceSetList: tok plus a random subset of the value columns (sometimes only the last one).
func ceSetList(tok int64, t string, rowid int) string {
	r := ceRowRand(tok, t, rowid+50)
	set := []string{"tok=" + strconv.FormatInt(tok, 10)}
	var vc []string
	for _, c := range ceCols[t] {
		if _, ok := ceClass[c]; ok {
			vc = append(vc, c)
		}
	}
	switch r.Intn(4) {
	case 0: // only the last column
		c := vc[len(vc)-1]
		set = append(set, c+"="+ceLit(r, ceClass[c]))
	case 1: // nothing but tok
	default:
		for _, c := range vc {
			if r.Intn(2) == 0 {
				set = append(set, c+"="+ceLit(r, ceClass[c]))
			}
		}
	}
	return strings.Join(set, ", ")
}

func ceSQL(s ceStmt, tok int64) string {
	k := ceKey(s.T)
	switch s.Op {
	case "ins":
		return "INSERT INTO " + ceInsertCols(s.T) + " VALUES" + ceInsertTuple(tok, s.T, s.R)
	case "insm":
		return "INSERT INTO " + ceInsertCols(s.T) + " VALUES" + ceInsertTuple(tok, s.T, s.R) + "," + ceInsertTuple(tok, s.T, s.R2)
	case "upd":
		return fmt.Sprintf("UPDATE %s SET %s WHERE %s=%d", s.T, ceSetList(tok, s.T, s.R), k, s.R)
	case "updall":
		return fmt.Sprintf("UPDATE %s SET %s", s.T, ceSetList(tok, s.T, 0))
	case "updfail":
		return fmt.Sprintf("UPDATE %s SET %s, nn = CASE WHEN %s >= %d THEN NULL ELSE 0 END", s.T, ceSetList(tok, s.T, 0), k, s.R)
	case "updkey":
		return fmt.Sprintf("UPDATE %s SET %s=%d, %s WHERE %s=%d", s.T, k, s.R2, ceSetList(tok, s.T, s.R), k, s.R)
	case "del":
		return fmt.Sprintf("DELETE FROM %s WHERE %s=%d", s.T, k, s.R)
	case "delall":
		return "DELETE FROM " + s.T
	case "repl":
		return "INSERT OR REPLACE INTO " + ceInsertCols(s.T) + " VALUES" + ceInsertTuple(tok, s.T, s.R)
	case "upsert":
		return "INSERT INTO " + ceInsertCols(s.T) + " VALUES" + ceInsertTuple(tok, s.T, s.R) +
			" ON CONFLICT(id) DO UPDATE SET tok=excluded.tok, ct=excluded.ct, cx=excluded.cx"
	case "failprep":
		return "INSERT INTO nosuchtable(x) VALUES(1)"
	case "begin":
		return "BEGIN"
	case "commit":
		return "COMMIT"
	case "rollback":
		return "ROLLBACK"
	case "savepoint":
		return "SAVEPOINT s"
	case "release":
		return "RELEASE s"
	case "rollbackto":
		return "ROLLBACK TO s"
	}
	panic("unknown statement class " + s.Op)
}

// ---------------------------------------------------------------- shadow rows

type ceCell struct{ Typ, Q string } // typeof(), quote()
type ceSnap map[string]map[int64][]ceCell

func (s ceSnap) clone() ceSnap {
	o := ceSnap{}
	for t, rows := range s {
		o[t] = map[int64][]ceCell{}
		for id, r := range rows {
			o[t][id] = r
		}
	}
	return o
}

// Tables beyond a and b (only in the extra scenarios) are dumped with their columns discovered at
// dump time; ceDynCols remembers the columns seen by the latest dump.
var ceDynTables []string
var ceDynCols = map[string][]string{}

func ceColsOf(t string) []string {
	if c, ok := ceCols[t]; ok {
		return c
	}
	return ceDynCols[t]
}

func ceAllTables() []string { return append([]string{"a", "b"}, ceDynTables...) }

func ceDump(ro *sql.DB) (ceSnap, error) {
	out := ceSnap{}
	for _, t := range ceAllTables() {
		cols, static := ceCols[t]
		if !static {
			cols = nil
			rows, err := ro.Query("SELECT name FROM pragma_table_info('" + t + "')")
			if err != nil {
				return nil, err
			}
			for rows.Next() {
				var n string
				rows.Scan(&n)
				cols = append(cols, n)
			}
			rows.Close()
			ceDynCols[t] = cols
			if len(cols) == 0 { // the table does not exist (yet)
				out[t] = map[int64][]ceCell{}
				continue
			}
		}
		var sel []string
		for _, c := range cols {
			sel = append(sel, "typeof("+c+")", "quote("+c+")")
		}
		rows, err := ro.Query("SELECT rowid," + strings.Join(sel, ",") + " FROM " + t + " ORDER BY rowid")
		if err != nil {
			return nil, err
		}
		m := map[int64][]ceCell{}
		for rows.Next() {
			var id int64
			cells := make([]ceCell, len(cols))
			dst := []any{&id}
			for i := range cells {
				dst = append(dst, &cells[i].Typ, &cells[i].Q)
			}
			if err := rows.Scan(dst...); err != nil {
				rows.Close()
				return nil, err
			}
			m[id] = cells
		}
		if err := rows.Err(); err != nil {
			return nil, err
		}
		rows.Close()
		out[t] = m
	}
	return out, nil
}

// ceCellOf renders a CDC value the way the dump renders a stored value.
func ceCellOf(v *proto.CDCValue) ceCell {
	if v == nil || v.GetValue() == nil {
		return ceCell{"null", "NULL"}
	}
	switch x := v.GetValue().(type) {
	case *proto.CDCValue_I:
		return ceCell{"integer", strconv.FormatInt(x.I, 10)}
	case *proto.CDCValue_D:
		return ceCell{"real", strconv.FormatFloat(x.D, 'g', -1, 64)}
	case *proto.CDCValue_S:
		return ceCell{"text", "'" + strings.ReplaceAll(x.S, "'", "''") + "'"}
	case *proto.CDCValue_Y:
		return ceCell{"blob", "X'" + strings.ToUpper(hex.EncodeToString(x.Y)) + "'"}
	case *proto.CDCValue_B:
		return ceCell{"bool", strconv.FormatBool(x.B)}
	}
	return ceCell{"?", "?"}
}

// ceIntForReal counts values of REAL-affinity columns that an event reports as INTEGER although the
// stored value is REAL (sqlite3_preupdate_new deserialises the record of an INSERT, in which SQLite
// stores integral reals as integers).  The value is numerically identical and renders identically in
// the JSON the CDC service sends, so it is tolerated (and counted), in REAL-affinity columns only.
var ceIntForReal int

func ceCellEq(col string, stored, ev ceCell) bool {
	if stored.Typ != ev.Typ {
		if col == "cr" && ((stored.Typ == "real" && ev.Typ == "integer") || (stored.Typ == "integer" && ev.Typ == "real")) {
			a, e1 := strconv.ParseFloat(stored.Q, 64)
			b, e2 := strconv.ParseFloat(ev.Q, 64)
			if e1 == nil && e2 == nil && a == b && a == math.Trunc(a) && math.Abs(a) < 1<<53 {
				ceIntForReal++
				return true
			}
		}
		return false
	}
	if stored.Typ == "real" {
		a, e1 := strconv.ParseFloat(stored.Q, 64)
		b, e2 := strconv.ParseFloat(ev.Q, 64)
		return e1 == nil && e2 == nil && a == b
	}
	return stored.Q == ev.Q
}

// ceRowDiff returns "" or a description "type=<class of the first differing value>".
func ceRowDiff(t string, stored []ceCell, row *proto.CDCRow) string {
	if row == nil {
		return "absent"
	}
	if len(row.Values) != len(stored) {
		return "columns"
	}
	for i := range stored {
		if !ceCellEq(ceColsOf(t)[i], stored[i], ceCellOf(row.Values[i])) {
			return "type=" + stored[i].Typ
		}
	}
	return ""
}

func ceCells(row *proto.CDCRow) []ceCell {
	out := make([]ceCell, len(row.Values))
	for i, v := range row.Values {
		out[i] = ceCellOf(v)
	}
	return out
}

func ceOpName(op proto.CDCEvent_Operation) string {
	switch op {
	case proto.CDCEvent_INSERT:
		return "I"
	case proto.CDCEvent_UPDATE:
		return "U"
	case proto.CDCEvent_DELETE:
		return "D"
	}
	return "?"
}

// ceShadowApply replays one delivered group over the shadow rows.  idsOnly: only rowids are judged.
// Returns "" or the aspect that failed.
func ceShadowApply(sh ceSnap, g *proto.CDCIndexedEventGroup, idsOnly bool) string {
	for _, ev := range g.Events {
		rows := sh[ev.Table]
		if rows == nil {
			return "table=" + ev.Table
		}
		op := ceOpName(ev.Op)
		if ev.Error != "" {
			return "event-error:op=" + op
		}
		if !idsOnly {
			if !reflect.DeepEqual(ev.ColumnNames, ceColsOf(ev.Table)) {
				if os.Getenv("CE_DEBUG") != "" {
					fmt.Fprintf(os.Stderr, "column names of event %v, table has %v\n", ev.ColumnNames, ceColsOf(ev.Table))
				}
				return "column-names:op=" + op
			}
		} else if ev.OldRow != nil || ev.NewRow != nil {
			return "values-in-ids-only-mode:op=" + op
		}
		switch ev.Op {
		case proto.CDCEvent_INSERT:
			if _, ok := rows[ev.NewRowId]; ok {
				return "insert-of-existing-row"
			}
			if idsOnly {
				rows[ev.NewRowId] = nil
			} else {
				if ev.NewRow == nil {
					return "value:missing-after:op=I"
				}
				rows[ev.NewRowId] = ceCells(ev.NewRow)
			}
		case proto.CDCEvent_DELETE:
			cur, ok := rows[ev.OldRowId]
			if !ok {
				return "delete-of-absent-row"
			}
			if !idsOnly {
				if d := ceRowDiff(ev.Table, cur, ev.OldRow); d != "" {
					return "value:before:op=D:" + d
				}
			}
			delete(rows, ev.OldRowId)
		case proto.CDCEvent_UPDATE:
			cur, ok := rows[ev.OldRowId]
			if !ok {
				return "update-of-absent-row"
			}
			if ev.NewRowId != ev.OldRowId {
				if _, ok := rows[ev.NewRowId]; ok {
					return "update-onto-existing-row"
				}
			}
			if idsOnly {
				delete(rows, ev.OldRowId)
				rows[ev.NewRowId] = nil
			} else {
				if d := ceRowDiff(ev.Table, cur, ev.OldRow); d != "" {
					return "value:before:op=U:" + d
				}
				if ev.NewRow == nil {
					return "value:missing-after:op=U"
				}
				delete(rows, ev.OldRowId)
				rows[ev.NewRowId] = ceCells(ev.NewRow)
			}
		default:
			return "unknown-op"
		}
	}
	return ""
}

// ceSnapDiff compares the shadow with the real rows; tables limited by filter.
func ceSnapDiff(sh, real ceSnap, filter, idsOnly bool) string {
	for _, t := range ceAllTables() {
		if filter && t != "a" {
			continue
		}
		for id, r := range real[t] {
			s, ok := sh[t][id]
			if !ok {
				return "missing:row-change-not-reported:table=" + t
			}
			if idsOnly || s == nil {
				continue
			}
			for i := range r {
				if i >= len(s) { // a column added by a schema change of the same commit sequence
					break
				}
				if !ceCellEq(ceColsOf(t)[i], r[i], s[i]) {
					return "value:after:type=" + r[i].Typ
				}
			}
		}
		for id := range sh[t] {
			if _, ok := real[t][id]; !ok {
				return "extra:reported-row-not-in-table:table=" + t
			}
		}
	}
	return ""
}

// ---------------------------------------------------------------- the environment

type ceCommit struct {
	pre   ceSnap
	group bool // a group was flushed by this commit
}

type ceEnv struct {
	dir      string
	d        *db.DB
	ro       *sql.DB
	ch       chan *proto.CDCIndexedEventGroup
	st       *db.CDCStreamer
	trig     bool
	filter   bool
	ids      bool
	capture  bool
	commits  []ceCommit
	hookErr  error
	dumps    int
	requests int
}

func ceOpenEnv(dir string) (*ceEnv, error) {
	e := &ceEnv{dir: dir}
	path := filepath.Join(dir, "cdcev.db")
	d, err := db.Open(path, false, true)
	if err != nil {
		return nil, err
	}
	e.d = d
	for _, s := range strings.Split(ceSchema, ";\n") {
		if err := d.VerifRWExec(s); err != nil {
			return nil, fmt.Errorf("%s: %w", s, err)
		}
	}
	ro, err := sql.Open("sqlite3", "file:"+path+"?mode=ro")
	if err != nil {
		return nil, err
	}
	ro.SetMaxOpenConns(1)
	e.ro = ro
	e.ch = make(chan *proto.CDCIndexedEventGroup, 4096)
	e.st, err = db.NewCDCStreamer(e.ch, d)
	if err != nil {
		return nil, err
	}
	if err := e.setMode(false, false); err != nil {
		return nil, err
	}
	if err := d.RegisterRollbackHook(e.st.RollbackHook); err != nil {
		return nil, err
	}
	// the commit hook the store registers is CDCStreamer.CommitHook; it is wrapped only to take the
	// shadow dump (through another connection) at the very point the group is flushed
	err = d.RegisterCommitHook(func() bool {
		if e.capture {
			snap, err := ceDump(e.ro)
			if err != nil && e.hookErr == nil {
				e.hookErr = err
			}
			e.dumps++
			e.commits = append(e.commits, ceCommit{pre: snap, group: e.st.Len() > 0})
		}
		return e.st.CommitHook()
	})
	return e, err
}

var ceFilterRe = regexp.MustCompile("^a$")

func (e *ceEnv) setMode(filter, ids bool) error {
	var re *regexp.Regexp
	if filter {
		re = ceFilterRe
	}
	e.filter, e.ids = filter, ids
	return e.d.RegisterPreUpdateHook(e.st.PreupdateHook, re, ids)
}

func (e *ceEnv) close() {
	e.ro.Close()
	e.d.Close()
}

func (e *ceEnv) drain() []*proto.CDCIndexedEventGroup {
	var out []*proto.CDCIndexedEventGroup
	for {
		select {
		case g := <-e.ch:
			out = append(out, g)
		default:
			return out
		}
	}
}

func ceResetSQL(trig bool) []string {
	return []string{"DELETE FROM a", "DELETE FROM b",
		"INSERT INTO " + ceInsertCols("b") + " VALUES" + ceInsertTuple(201, "b", 1),
		"INSERT INTO " + ceInsertCols("a") + " VALUES" + ceInsertTuple(101, "a", 1)}
}

// reset puts the initial rows back (a: rowid 1 token 101; b: rowid 1 token 201) and switches triggers.
func (e *ceEnv) reset(trig bool) error {
	e.capture = false
	e.d.VerifRWExec("ROLLBACK")
	if trig != e.trig {
		for i, s := range ceTriggers {
			if !trig {
				s = []string{"DROP TRIGGER a_ai", "DROP TRIGGER a_ad"}[i]
			}
			if err := e.d.VerifRWExec(s); err != nil {
				return err
			}
		}
		e.trig = trig
	}
	if err := e.d.VerifRWExec("BEGIN;" + strings.Join(ceResetSQL(trig), ";") + ";COMMIT"); err != nil {
		return err
	}
	e.drain()
	e.commits = e.commits[:0]
	return nil
}

type ceRun struct {
	groups  []*proto.CDCIndexedEventGroup
	commits []ceCommit
	final   ceSnap
	sql     [][]string
	results [][]string
	open    bool
}

// run executes the session: Reset(index) + one db.Request / db.Execute per request, like fsmApply.
func (e *ceEnv) run(c *ceCase, path string) (*ceRun, error) {
	if err := e.reset(c.Trig); err != nil {
		return nil, err
	}
	var reqs []*proto.Request
	tok := int64(0)
	for _, rq := range c.Sess {
		req := &proto.Request{Transaction: rq.Tx}
		for _, s := range rq.S {
			tok++
			req.Statements = append(req.Statements, &proto.Statement{Sql: ceSQL(s, tok)})
		}
		reqs = append(reqs, req)
	}
	return e.runReqs(reqs, path)
}

func (e *ceEnv) runReqs(reqs []*proto.Request, path string) (*ceRun, error) {
	r := &ceRun{}
	e.capture = true
	for _, req := range reqs {
		var texts []string
		for _, s := range req.Statements {
			texts = append(texts, s.Sql)
		}
		e.requests++
		e.st.Reset(uint64(e.requests))
		var resp []*proto.ExecuteQueryResponse
		var err error
		if path == "exec" {
			resp, err = e.d.Execute(req, false)
		} else {
			resp, err = e.d.Request(req, false)
		}
		if err != nil {
			return nil, fmt.Errorf("request %v: %w", texts, err)
		}
		var res []string
		for _, x := range resp {
			if x.GetError() != "" || (x.GetQ() != nil && x.GetQ().Error != "") {
				res = append(res, "err")
			} else {
				res = append(res, "ok")
			}
		}
		r.sql = append(r.sql, texts)
		r.results = append(r.results, res)
	}
	e.capture = false
	if e.hookErr != nil {
		return nil, e.hookErr
	}
	r.groups = e.drain()
	r.commits = append([]ceCommit(nil), e.commits...)
	r.open = e.d.VerifRWExec("BEGIN") != nil
	e.d.VerifRWExec("ROLLBACK")
	var err error
	r.final, err = ceDump(e.ro)
	e.dumps++
	return r, err
}

// ---- scenarios outside the spec's alphabet, judged by the shadow rows only: large statements and
// schema changes in the same transaction as the rows they affect
type ceScenario struct {
	name  string
	setup []string
	tx    bool
	sql   []string
	min   int // at least this many events
}

func ceScenarios(bulk int) []ceScenario {
	fill := fmt.Sprintf("INSERT INTO b(rowid,tok,nn,cx,ct,cr) WITH RECURSIVE c(i) AS (SELECT 10 UNION ALL SELECT i+1 FROM c WHERE i < %d) "+
		"SELECT i, i, 0, CASE i %% 4 WHEN 0 THEN NULL WHEN 1 THEN i*1.5 WHEN 2 THEN 'r'||i ELSE randomblob(9) END, 'r'||i, i+0.25 FROM c", 9+bulk)
	bulkSQL := []string{fill, "UPDATE b SET cx = tok, cr = NULL WHERE rowid % 2 = 0", "DELETE FROM b WHERE rowid % 3 = 0"}
	mk := []string{"CREATE TABLE c(id INTEGER PRIMARY KEY, v TEXT)", "INSERT INTO c VALUES(1,'x')"}
	return []ceScenario{
		{name: "bulk:tx=false", sql: bulkSQL, min: bulk},
		{name: "bulk:tx=true", tx: true, sql: bulkSQL, min: bulk},
		{name: "ddl:create-table+insert:tx=true", tx: true, sql: mk, min: 1},
		{name: "ddl:add-column+insert:tx=true", setup: mk, tx: true, sql: []string{"ALTER TABLE c ADD COLUMN w INTEGER", "INSERT INTO c VALUES(2,'y',5)"}, min: 1},
		{name: "ddl:add-column+update:tx=true", setup: mk, tx: true, sql: []string{"ALTER TABLE c ADD COLUMN w INTEGER DEFAULT 7", "UPDATE c SET v='q' WHERE id=1"}, min: 1},
		{name: "ddl:rename-column+update:tx=true", setup: mk, tx: true, sql: []string{"ALTER TABLE c RENAME COLUMN v TO vv", "UPDATE c SET vv='q' WHERE id=1"}, min: 1},
		{name: "ddl:add-column-then-insert:tx=false", setup: mk, sql: []string{"ALTER TABLE c ADD COLUMN w INTEGER", "INSERT INTO c VALUES(2,'y',5)"}, min: 1},
		{name: "ddl:add-column-in-earlier-request+insert:tx=false", setup: append(append([]string{}, mk...), "ALTER TABLE c ADD COLUMN w INTEGER"), sql: []string{"INSERT INTO c VALUES(2,'y',5)"}, min: 1},
		{name: "ddl:none+insert:tx=true", setup: mk, tx: true, sql: []string{"INSERT INTO c VALUES(2,'y')", "UPDATE c SET v='z'"}, min: 3},
	}
}

func (e *ceEnv) runScenarios(w *ndWriter, stat map[string]int, bulk int) error {
	ceDynTables = []string{"c"}
	defer func() { ceDynTables = nil }()
	for _, sc := range ceScenarios(bulk) {
		for _, ids := range []bool{false, true} {
			if err := e.setMode(false, ids); err != nil {
				return err
			}
			if err := e.reset(false); err != nil {
				return err
			}
			e.d.VerifRWExec("DROP TABLE IF EXISTS c")
			for _, q := range sc.setup {
				if err := e.d.VerifRWExec(q); err != nil {
					return fmt.Errorf("%s: %w", q, err)
				}
			}
			e.drain()
			e.commits = e.commits[:0]
			req := &proto.Request{Transaction: sc.tx}
			for _, q := range sc.sql {
				req.Statements = append(req.Statements, &proto.Statement{Sql: q})
			}
			r, err := e.runReqs([]*proto.Request{req}, "req")
			if err != nil {
				return err
			}
			stat["scenario_runs"]++
			n := 0
			for _, g := range r.groups {
				n += len(g.Events)
			}
			stat["scenario_events"] += n
			key, detail := ceShadowJudge(r, false, ids)
			if key == "" && n < sc.min {
				key, detail = "missing:events", fmt.Sprintf("%d events delivered, at least %d rows changed", n, sc.min)
			}
			for _, res := range r.results[0] {
				if res != "ok" && key == "" {
					key, detail = "scenario-failed", "a statement of the scenario failed"
				}
			}
			if key == "" && !ids {
				if a := ceJSONCheck(r.groups); a != "" {
					key, detail = a, "JSON rendering of the events differs from the event values"
				}
			}
			if key != "" {
				stat["mismatches"]++
				got, _ := ceAbstract(r.groups)
				if len(got) > 0 && len(got[0]) > 6 {
					got = [][]ceEv{got[0][:6]}
				}
				w.Write(map[string]any{"key": "cdcev:" + sc.name + ":" + key + ":mode=" + ceModeName(false, ids), "detail": detail, "path": "req",
					"filter": false, "ids": ids, "trig": false, "sess": []any{}, "sql": r.sql, "results": r.results, "want": "rows before/after each commit", "asis": nil, "got": got})
			}
		}
	}
	e.d.VerifRWExec("DROP TABLE IF EXISTS c")
	return e.setMode(false, false)
}

// ---------------------------------------------------------------- judging

func ceAbstract(groups []*proto.CDCIndexedEventGroup) ([][]ceEv, string) {
	out := [][]ceEv{}
	bad := ""
	for _, g := range groups {
		var evs []ceEv
		for _, ev := range g.Events {
			x := ceEv{Op: ceOpName(ev.Op), T: ev.Table, O: ev.OldRowId, N: ev.NewRowId}
			if ev.Error != "" && bad == "" {
				bad = "event-error"
			}
			ti, ok := ceTokIdx[ev.Table]
			if ok && ev.OldRow != nil && len(ev.OldRow.Values) > ti {
				x.Ov = ev.OldRow.Values[ti].GetI()
			}
			if ok && ev.NewRow != nil && len(ev.NewRow.Values) > ti {
				x.Nv = ev.NewRow.Values[ti].GetI()
			}
			evs = append(evs, x)
		}
		out = append(out, evs)
	}
	return out, bad
}

func ceProject(gs [][]ceEv, filter, ids bool) [][]ceEv {
	out := [][]ceEv{}
	for _, g := range gs {
		var o []ceEv
		for _, e := range g {
			if filter && e.T != "a" {
				continue
			}
			if ids {
				e.Ov, e.Nv = 0, 0
			}
			o = append(o, e)
		}
		if len(o) > 0 {
			out = append(out, o)
		}
	}
	return out
}

func ceFlat(gs [][]ceEv) []ceEv {
	var o []ceEv
	for _, g := range gs {
		o = append(o, g...)
	}
	return o
}

func ceOpLong(op string) string {
	return map[string]string{"I": "insert", "U": "update", "D": "delete"}[op]
}

// ceDiffKey names the first difference between delivered and expected groups.
func ceDiffKey(got, want [][]ceEv) string {
	g, w := ceFlat(got), ceFlat(want)
	cnt := map[ceEv]int{}
	for _, e := range w {
		cnt[e]++
	}
	for _, e := range g {
		cnt[e]--
	}
	var extra, missing []ceEv
	for e, n := range cnt {
		if n < 0 {
			extra = append(extra, e)
		} else if n > 0 {
			missing = append(missing, e)
		}
	}
	less := func(x []ceEv) func(i, j int) bool {
		return func(i, j int) bool { return fmt.Sprint(x[i]) < fmt.Sprint(x[j]) }
	}
	sort.Slice(extra, less(extra))
	sort.Slice(missing, less(missing))
	switch {
	case len(extra) > 0 && len(missing) > 0:
		// same op/table/rowids but other values?
		for _, x := range extra {
			for _, m := range missing {
				if x.Op == m.Op && x.T == m.T && x.O == m.O && x.N == m.N {
					return "value:token:op=" + ceOpLong(x.Op)
				}
			}
		}
		return "wrong-events:extra=" + ceOpLong(extra[0].Op) + ":missing=" + ceOpLong(missing[0].Op)
	case len(extra) > 0:
		return "extra:" + ceOpLong(extra[0].Op) + ":table=" + extra[0].T
	case len(missing) > 0:
		return "missing:" + ceOpLong(missing[0].Op) + ":table=" + missing[0].T
	case !reflect.DeepEqual(g, w):
		return "order"
	}
	return "grouping"
}

func ceModeName(filter, ids bool) string {
	switch {
	case filter && ids:
		return "filter+ids"
	case filter:
		return "filter"
	case ids:
		return "ids"
	}
	return "full"
}

// ceStaleKey names the kinds of undone work whose events the streamer kept in this session.
func ceStaleKey(c *ceCase) string {
	var kinds []string
	tx := false
	for _, k := range c.Stale {
		if k == "tx" {
			tx = true
		} else {
			kinds = append(kinds, k)
		}
	}
	sort.Strings(kinds)
	return "cdcev:extra:rolled-back:" + strings.Join(kinds, "+") + fmt.Sprintf(":tx=%v", tx)
}

func ceHas(c *ceCase, f func(rq ceReq, s ceStmt) bool) bool {
	for _, rq := range c.Sess {
		for _, s := range rq.S {
			if f(rq, s) {
				return true
			}
		}
	}
	return false
}

// ceJudge compares one run with the spec's expectation and with the shadow rows.
// Returns the violation key ("" = conforms) and a detail string.
func ceJudge(c *ceCase, r *ceRun, filter, ids bool) (key, detail string, got [][]ceEv) {
	got, bad := ceAbstract(r.groups)
	mode := ":mode=" + ceModeName(filter, ids) + fmt.Sprintf(":trig=%v", c.Trig)
	if bad != "" {
		return "cdcev:" + bad + mode, "an event carries an error string", got
	}
	if r.open {
		return "", "", got // not a complete session (never generated)
	}
	want := ceProject(c.Want, filter, ids)
	if !reflect.DeepEqual(got, want) {
		asis := ceProject(c.Asis, filter, ids)
		if reflect.DeepEqual(got, asis) && len(c.Stale) > 0 {
			return ceStaleKey(c), "events of undone work delivered with a later commit of the same request", got
		}
		return "cdcev:" + ceDiffKey(got, want) + mode, "delivered groups differ from the spec's", got
	}
	if key, detail := ceShadowJudge(r, filter, ids); key != "" {
		return "cdcev:" + key + mode, detail, got
	}
	return "", "", got
}

// ceShadowJudge: every commit's group transforms the rows before it into the rows after it.
func ceShadowJudge(r *ceRun, filter, ids bool) (key, detail string) {
	gi := 0
	for i, cm := range r.commits {
		post := r.final
		if i+1 < len(r.commits) {
			post = r.commits[i+1].pre
		}
		sh := cm.pre.clone()
		if cm.group {
			if gi >= len(r.groups) {
				return "missing:group-not-delivered", "a commit with pending events delivered no group"
			}
			if a := ceShadowApply(sh, r.groups[gi], ids); a != "" {
				return a, fmt.Sprintf("group %d does not apply to the rows before its commit", gi+1)
			}
			gi++
		}
		if a := ceSnapDiff(sh, post, filter, ids); a != "" {
			return a, fmt.Sprintf("rows after commit %d differ from rows before + delivered events", i+1)
		}
	}
	if gi != len(r.groups) {
		return "extra:group-without-commit", "more groups than flushing commits"
	}
	return "", ""
}

// ceJSONCheck marshals the groups the way the CDC service does and compares the JSON values.
func ceJSONCheck(groups []*proto.CDCIndexedEventGroup) string {
	if len(groups) == 0 {
		return ""
	}
	b, err := cdcjson.MarshalToEnvelopeJSON("svc", "node", false, groups)
	if err != nil {
		return "json:marshal-error"
	}
	var env struct {
		Payload []struct {
			Events []struct {
				Op       string         `json:"op"`
				Table    string         `json:"table"`
				NewRowID int64          `json:"new_row_id"`
				OldRowID int64          `json:"old_row_id"`
				Before   map[string]any `json:"before"`
				After    map[string]any `json:"after"`
				Error    string         `json:"error"`
			} `json:"events"`
		} `json:"payload"`
	}
	dec := json.NewDecoder(bytes.NewReader(b))
	dec.UseNumber()
	if err := dec.Decode(&env); err != nil {
		return "json:decode-error"
	}
	if len(env.Payload) != len(groups) {
		return "json:groups"
	}
	same := func(m map[string]any, row *proto.CDCRow, names []string) string {
		if row == nil {
			if m != nil {
				return "json:unexpected-row"
			}
			return ""
		}
		if len(m) != len(row.Values) {
			return "json:columns"
		}
		for i, v := range row.Values {
			jv := m[names[i]]
			switch x := v.GetValue().(type) {
			case nil:
				if jv != nil {
					return "json:value:type=null"
				}
			case *proto.CDCValue_I:
				n, ok := jv.(json.Number)
				if !ok || n.String() != strconv.FormatInt(x.I, 10) {
					return "json:value:type=integer"
				}
			case *proto.CDCValue_D:
				n, ok := jv.(json.Number)
				f, err := strconv.ParseFloat(string(n), 64)
				if !ok || err != nil || f != x.D {
					return "json:value:type=real"
				}
			case *proto.CDCValue_S:
				if s, ok := jv.(string); !ok || s != x.S {
					return "json:value:type=text"
				}
			case *proto.CDCValue_Y:
				var y []byte
				s, ok := jv.(string)
				if ok {
					j, _ := json.Marshal(s)
					ok = json.Unmarshal(j, &y) == nil
				}
				if !ok || !bytes.Equal(y, x.Y) {
					return "json:value:type=blob"
				}
			}
		}
		return ""
	}
	for gi, g := range groups {
		if len(env.Payload[gi].Events) != len(g.Events) {
			return "json:events"
		}
		for i, ev := range g.Events {
			je := env.Payload[gi].Events[i]
			if je.Error != "" {
				return "json:event-error"
			}
			if je.Op != ev.Op.String() || je.Table != ev.Table || je.NewRowID != ev.NewRowId || je.OldRowID != ev.OldRowId {
				return "json:header"
			}
			if a := same(je.Before, ev.OldRow, ev.ColumnNames); a != "" {
				return a + ":before"
			}
			if a := same(je.After, ev.NewRow, ev.ColumnNames); a != "" {
				return a + ":after"
			}
		}
	}
	return ""
}

func ceReadCases(path string) ([]*ceCase, error) {
	raw, err := os.ReadFile(path)
	if err != nil {
		return nil, err
	}
	var out []*ceCase
	for _, line := range bytes.Split(raw, []byte("\n")) {
		if len(bytes.TrimSpace(line)) == 0 {
			continue
		}
		c := &ceCase{}
		if err := json.Unmarshal(line, c); err != nil {
			return nil, fmt.Errorf("%s: %w", string(line[:min(len(line), 200)]), err)
		}
		out = append(out, c)
	}
	return out, nil
}

func ceClasses(c *ceCase) []string {
	m := map[string]bool{}
	for _, rq := range c.Sess {
		for _, s := range rq.S {
			m[s.Op] = true
		}
	}
	var out []string
	for k := range m {
		out = append(out, k)
	}
	sort.Strings(out)
	return out
}

// cdcevReplay: every case in full mode on the chosen path(s); the other three (filter, ids) modes on
// every case (-modes all) or on every -every'th case.
func cdcevReplay(args []string) error {
	fs := flag.NewFlagSet("cdcev-replay", flag.ExitOnError)
	in := fs.String("in", "cases.ndjson", "")
	out := fs.String("out", "mismatch.ndjson", "")
	trace := fs.String("trace", "", "observed outcomes for TraceCDCEvents")
	every := fs.Int("every", 1, "run the filter / ids-only modes on every n-th case")
	execEvery := fs.Int("execevery", 1, "run the second path (db.Execute) on every n-th case")
	paths := fs.String("paths", "req,exec", "")
	traceMax := fs.Int("tracemax", 1<<30, "at most this many trace lines")
	bulk := fs.Int("bulk", 0, "also run the bulk / schema-change scenarios with this many rows")
	fs.Parse(args)
	cases, err := ceReadCases(*in)
	if err != nil {
		return err
	}
	w, err := newND(*out)
	if err != nil {
		return err
	}
	defer w.Close()
	var tw *ndWriter
	if *trace != "" {
		if tw, err = newND(*trace); err != nil {
			return err
		}
		defer tw.Close()
	}
	dir, err := os.MkdirTemp("", "cdcev")
	if err != nil {
		return err
	}
	defer os.RemoveAll(dir)
	e, err := ceOpenEnv(dir)
	if err != nil {
		return err
	}
	defer e.close()

	stat := map[string]int{}
	var samples []any
	type modeT struct{ filter, ids bool }
	modes := []modeT{{false, false}, {true, false}, {false, true}, {true, true}}
	ntrace := 0
	for mi, m := range modes {
		if err := e.setMode(m.filter, m.ids); err != nil {
			return err
		}
		for pi, path := range strings.Split(*paths, ",") {
			if mi > 0 && pi > 0 {
				continue // the second path only in full mode
			}
			for ci, c := range cases {
				if mi > 0 && (ci+mi)%*every != 0 {
					continue
				}
				if pi > 0 && ci%*execEvery != 0 {
					continue
				}
				r, err := e.run(c, path)
				if err != nil {
					return err
				}
				stat["runs"]++
				stat["mode_"+ceModeName(m.filter, m.ids)]++
				stat["events"] += len(ceFlat(c.Want))
				if len(c.Stale) > 0 {
					stat["with_undone_work"]++
				}
				key, detail, got := ceJudge(c, r, m.filter, m.ids)
				if key == "" && !m.ids {
					if a := ceJSONCheck(r.groups); a != "" {
						key, detail = "cdcev:"+a, "JSON rendering of the events differs from the event values"
					}
				}
				if key != "" {
					stat["mismatches"]++
					w.Write(map[string]any{"key": key, "detail": detail, "path": path, "filter": m.filter, "ids": m.ids,
						"trig": c.Trig, "sess": c.Sess, "sql": r.sql, "results": r.results,
						"want": ceProject(c.Want, m.filter, m.ids), "asis": ceProject(c.Asis, m.filter, m.ids), "got": got})
				}
				if tw != nil && pi == 0 && ntrace < *traceMax && !r.open {
					ntrace++
					tw.Write(map[string]any{"trig": c.Trig, "filter": m.filter, "ids": m.ids, "sess": c.Sess, "groups": got, "k": key})
				}
				if len(samples) < 3 && mi == 0 && len(c.Want) >= 2 && len(c.Stale) == 0 && c.Trig {
					samples = append(samples, map[string]any{"sql": r.sql, "delivered": got})
				}
			}
		}
	}
	if *bulk > 0 {
		if err := e.runScenarios(w, stat, *bulk); err != nil {
			return err
		}
	}
	stat["cases"] = len(cases)
	stat["dumps"] = e.dumps
	stat["trace_lines"] = ntrace
	stat["real_reported_as_integer"] = ceIntForReal
	b, _ := json.Marshal(map[string]any{"stat": stat, "samples": samples})
	fmt.Println(string(b))
	return nil
}

// ---------------------------------------------------------------- random longer sessions

func cdcevGen(args []string) error {
	fs := flag.NewFlagSet("cdcev-gen", flag.ExitOnError)
	out := fs.String("out", "progs.ndjson", "")
	n := fs.Int("n", 100, "")
	minLen := fs.Int("minlen", 4, "")
	maxLen := fs.Int("maxlen", 9, "")
	rows := fs.Int("rows", 3, "")
	fs.Parse(args)
	w, err := newND(*out)
	if err != nil {
		return err
	}
	defer w.Close()
	rnd := newRand(2727)
	aops := []string{"ins", "ins", "insm", "insm", "upd", "updall", "updfail", "updkey", "del", "delall", "repl", "repl", "upsert"}
	bops := []string{"ins", "insm", "upd", "updall", "updfail", "updkey", "del", "delall", "repl"}
	for i := 0; i < *n; i++ {
		total := *minLen + rnd.Intn(*maxLen-*minLen+1)
		var sess []ceReq
		for total > 0 {
			k := 1 + rnd.Intn(total)
			if rnd.Intn(3) == 0 {
				k = total
			}
			total -= k
			rq := ceReq{Tx: rnd.Intn(3) == 0, S: []ceStmt{}}
			open, mode, depth := rq.Tx, "tx", 0
			for j := 0; j < k; j++ {
				var s ceStmt
				x := rnd.Intn(100)
				switch {
				case x < 62:
					t, ops := "a", aops
					if rnd.Intn(4) == 0 {
						t, ops = "b", bops
					}
					s = ceStmt{Op: ops[rnd.Intn(len(ops))], T: t}
					switch s.Op {
					case "ins", "upd", "updfail", "del", "repl", "upsert":
						s.R = 1 + rnd.Intn(*rows)
					case "insm", "updkey":
						s.R = 1 + rnd.Intn(*rows)
						s.R2 = 1 + (s.R+rnd.Intn(*rows-1))%*rows
					}
				case x < 66:
					s = ceStmt{Op: "failprep", T: "a"}
				case x < 82 && !rq.Tx:
					s = ceStmt{Op: []string{"begin", "begin", "commit", "rollback"}[rnd.Intn(4)], T: "a"}
					switch {
					case s.Op == "begin" && !open:
						open, mode, depth = true, "tx", 0
					case s.Op != "begin" && open:
						open, depth = false, 0
					}
				default:
					s = ceStmt{Op: []string{"savepoint", "savepoint", "release", "rollbackto", "rollbackto"}[rnd.Intn(5)], T: "a"}
					switch s.Op {
					case "savepoint":
						if depth >= 3 {
							s.Op = "rollbackto"
						} else if !open {
							open, mode, depth = true, "sp", 1
						} else {
							depth++
						}
					case "release":
						if depth > 0 {
							depth--
							if depth == 0 && mode == "sp" && !rq.Tx {
								open = false
							}
						}
					}
				}
				rq.S = append(rq.S, s)
			}
			if open && !rq.Tx {
				rq.S = append(rq.S, ceStmt{Op: []string{"commit", "commit", "rollback"}[rnd.Intn(3)], T: "a"})
			}
			sess = append(sess, rq)
		}
		w.Write(map[string]any{"trig": rnd.Intn(2) == 0, "sess": sess})
	}
	fmt.Printf("{\"programs\":%d}\n", *n)
	return nil
}

// ---------------------------------------------------------------- one-node store

type ceLayer struct{ ln net.Listener }

func (m *ceLayer) Dial(addr string, timeout time.Duration) (net.Conn, error) {
	return net.DialTimeout("tcp", addr, timeout)
}
func (m *ceLayer) Accept() (net.Conn, error) { return m.ln.Accept() }
func (m *ceLayer) Close() error              { return m.ln.Close() }
func (m *ceLayer) Addr() net.Addr            { return m.ln.Addr() }

// cdcevStore runs sessions through Store.Execute / Store.Request of a one-node cluster with
// Store.EnableCDC: the hooks are the ones fsmApply registers, Reset happens per log entry.
func cdcevStore(args []string) error {
	fs := flag.NewFlagSet("cdcev-store", flag.ExitOnError)
	in := fs.String("in", "cases.ndjson", "")
	out := fs.String("out", "mismatch.ndjson", "")
	max := fs.Int("max", 200, "")
	filter := fs.Bool("filter", false, "")
	ids := fs.Bool("ids", false, "")
	fs.Parse(args)
	cases, err := ceReadCases(*in)
	if err != nil {
		return err
	}
	w, err := newND(*out)
	if err != nil {
		return err
	}
	defer w.Close()
	dir, err := os.MkdirTemp("", "cdcevstore")
	if err != nil {
		return err
	}
	defer os.RemoveAll(dir)
	ln, err := net.Listen("tcp", "127.0.0.1:0")
	if err != nil {
		return err
	}
	ly := &ceLayer{ln}
	s := store.New(&store.Config{DBConf: store.NewDBConfig(), Dir: dir, ID: "n1"}, ly)
	if err := s.Open(); err != nil {
		return err
	}
	defer s.Close(true)
	if err := s.Bootstrap(store.NewServer("n1", ln.Addr().String(), true)); err != nil {
		return err
	}
	if _, err := s.WaitForLeader(20 * time.Second); err != nil {
		return err
	}
	ch := make(chan *proto.CDCIndexedEventGroup, 4096)
	var re *regexp.Regexp
	if *filter {
		re = ceFilterRe
	}
	if err := s.EnableCDC(ch, re, *ids); err != nil {
		return err
	}
	ctx := context.Background()
	exec := func(tx bool, stmts ...string) ([]*proto.ExecuteQueryResponse, uint64, error) {
		req := &proto.Request{Transaction: tx}
		for _, q := range stmts {
			req.Statements = append(req.Statements, &proto.Statement{Sql: q})
		}
		return s.Execute(ctx, &proto.ExecuteRequest{Request: req})
	}
	drain := func() []*proto.CDCIndexedEventGroup {
		var o []*proto.CDCIndexedEventGroup
		for {
			select {
			case g := <-ch:
				o = append(o, g)
			default:
				return o
			}
		}
	}
	if _, _, err := exec(false, strings.Split(ceSchema, ";\n")...); err != nil {
		return err
	}
	trig := false
	stat := map[string]int{}
	// pick sessions spread over the input, those with undone work and several requests first
	step := len(cases) / *max
	if step < 1 {
		step = 1
	}
	for ci := 0; ci < len(cases); ci += step {
		c := cases[ci]
		if c.Trig != trig {
			for i, q := range ceTriggers {
				if !c.Trig {
					q = []string{"DROP TRIGGER a_ai", "DROP TRIGGER a_ad"}[i]
				}
				if _, _, err := exec(false, q); err != nil {
					return err
				}
			}
			trig = c.Trig
		}
		if _, _, err := exec(true, ceResetSQL(trig)...); err != nil {
			return err
		}
		drain()
		var sqls [][]string
		var idxs []uint64
		tok := int64(0)
		for ri, rq := range c.Sess {
			var texts []string
			for _, st := range rq.S {
				tok++
				texts = append(texts, ceSQL(st, tok))
			}
			sqls = append(sqls, texts)
			var idx uint64
			if ri%2 == 0 {
				_, idx, err = exec(rq.Tx, texts...)
			} else {
				req := &proto.Request{Transaction: rq.Tx}
				for _, q := range texts {
					req.Statements = append(req.Statements, &proto.Statement{Sql: q})
				}
				_, idx, _, err = s.Request(ctx, &proto.ExecuteQueryRequest{Request: req, Level: proto.ConsistencyLevel_STRONG})
			}
			if err != nil {
				return fmt.Errorf("store request %v: %w", texts, err)
			}
			idxs = append(idxs, idx)
		}
		groups := drain()
		got, bad := ceAbstract(groups)
		want := ceProject(c.Want, *filter, *ids)
		stat["sessions"]++
		stat["groups"] += len(groups)
		for _, g := range groups {
			ok := false
			for _, i := range idxs {
				ok = ok || g.Index == i
			}
			if ok {
				stat["groups_labelled_with_entry_index"]++
			}
		}
		key := ""
		switch {
		case bad != "":
			key = "cdcev:store:" + bad
		case !reflect.DeepEqual(got, want):
			if reflect.DeepEqual(got, ceProject(c.Asis, *filter, *ids)) && len(c.Stale) > 0 {
				key = ceStaleKey(c)
			} else {
				key = "cdcev:store:" + ceDiffKey(got, want) + ":mode=" + ceModeName(*filter, *ids)
			}
		}
		if key != "" {
			stat["mismatches"]++
			w.Write(map[string]any{"key": key, "detail": "one-node store: delivered groups differ from the spec's", "path": "store",
				"filter": *filter, "ids": *ids, "trig": c.Trig, "sess": c.Sess, "sql": sqls, "want": want,
				"asis": ceProject(c.Asis, *filter, *ids), "got": got})
		}
	}
	b, _ := json.Marshal(map[string]any{"stat": stat})
	fmt.Println(string(b))
	return nil
}
