package main

// clusterproto-replay (C35): every frame sequence enumerated by specs/ClusterProto.tla (mux byte class x
// <= 2 frames of length class x payload class) plus seeded random / mutated byte streams is sent to the
// inter-node port of a single-node rqlite running in a CHILD PROCESS (this binary re-executed as
// `clusterproto-child`), so that a panic or an out-of-memory kill takes down only the child and is seen as
// its exit status.  After every case: child still running, a valid GET_NODE_META round trip succeeds,
// bytes allocated (runtime TotalAlloc, which also sees a buffer that was allocated and dropped at once)
// and peak / current RSS (/proc/<pid>/status VmHWM, VmRSS) grew by no more than C*sent + K, and the
// database dump, membership and log index are unchanged unless the sequence contains a well-formed,
// correctly authenticated state-changing command.  One observation line per case; the verdict is taken
// by checks/C35.py against TLC's expectation.

import (
	"bufio"
	"bytes"
	"compress/gzip"
	"context"
	"crypto/sha1"
	"encoding/binary"
	"encoding/hex"
	"encoding/json"
	"errors"
	"flag"
	"fmt"
	"io"
	"math/rand"
	"net"
	"os"
	"os/exec"
	"path/filepath"
	"runtime"
	"sort"
	"strconv"
	"strings"
	"time"

	"github.com/rqlite/rqlite/v10/auth"
	cproto "github.com/rqlite/rqlite/v10/cluster/proto"
	"github.com/rqlite/rqlite/v10/command/proto"
	"github.com/rqlite/rqlite/v10/store"
	pb "google.golang.org/protobuf/proto"
)

func init() {
	register("clusterproto-child", cpChild)
	register("clusterproto-replay", cpReplay)
}

const (
	cpUser  = "adm"
	cpPass  = "pw-3f9a"
	cpWrong = "nope-71c2e0"
)

// ---------------------------------------------------------------- child: a single-node server

func cpChild(args []string) error {
	fs := flag.NewFlagSet("clusterproto-child", flag.ExitOnError)
	dir := fs.String("dir", "", "node directory")
	fs.Parse(args)
	quietLogs()
	cs := auth.NewCredentialsStore()
	if err := cs.Load(strings.NewReader(fmt.Sprintf(`[{"username":%q,"password":%q,"perms":["all"]}]`, cpUser, cpPass))); err != nil {
		return err
	}
	if err := os.MkdirAll(filepath.Join(*dir, "n1"), 0755); err != nil {
		return err
	}
	nw := newVnet()
	n, err := startNode(nw, vNodeOpts{ID: "n1", Dir: filepath.Join(*dir, "n1"), CredsAA: cs, NoHTTP: true})
	if err != nil {
		return err
	}
	if err := n.Store.Bootstrap(store.NewServer(n.ID, n.Addr, true)); err != nil {
		return err
	}
	if _, err := n.Store.WaitForLeader(60 * time.Second); err != nil {
		return err
	}
	if _, _, err := sExec(n.Store, false,
		"CREATE TABLE "+permSecretTable+"(id INTEGER PRIMARY KEY, v TEXT)",
		"INSERT INTO "+permSecretTable+" VALUES(1,'"+permSecretValue+"')",
		"CREATE TABLE w(id INTEGER PRIMARY KEY, v TEXT)", "INSERT INTO w VALUES(1,'w1')"); err != nil {
		return err
	}
	var buf bytes.Buffer
	if err := n.Store.Backup(context.Background(), &proto.BackupRequest{Format: proto.BackupRequest_BACKUP_REQUEST_FORMAT_BINARY}, &buf); err != nil {
		return err
	}
	b0 := filepath.Join(*dir, "b0.sqlite")
	if err := os.WriteFile(b0, buf.Bytes(), 0644); err != nil {
		return err
	}
	out := bufio.NewWriter(os.Stdout)
	say := func(v any) {
		b, _ := json.Marshal(v)
		out.Write(b)
		out.WriteByte('\n')
		out.Flush()
	}
	say(map[string]any{"ready": true, "addr": n.Addr, "pid": os.Getpid(), "b0": b0})
	in := bufio.NewScanner(os.Stdin)
	for in.Scan() {
		switch strings.TrimSpace(in.Text()) {
		case "state":
			var ms runtime.MemStats
			runtime.ReadMemStats(&ms)
			d, derr := dumpLogical(n.Store)
			sum := sha1.Sum([]byte(d))
			ci, _ := n.Store.CommitIndex()
			var mem []string
			if ns, err := n.Store.Nodes(); err == nil {
				for _, s := range ns {
					mem = append(mem, fmt.Sprintf("%s@%s/%v", s.ID, s.Addr, s.Suffrage))
				}
			}
			sort.Strings(mem)
			say(map[string]any{"total_alloc": ms.TotalAlloc, "heap_alloc": ms.HeapAlloc, "heap_sys": ms.HeapSys, "sys": ms.Sys,
				"dump": hex.EncodeToString(sum[:]), "dump_err": fmt.Sprint(derr), "commit": ci, "members": strings.Join(mem, " "),
				"leader": n.Store.IsLeader(), "goroutines": runtime.NumGoroutine()})
		case "gc":
			runtime.GC()
			say(map[string]any{"ok": true})
		case "quit":
			say(map[string]any{"bye": true})
			n.Stop()
			return nil
		default:
			say(map[string]any{"error": "unknown control command"})
		}
	}
	return nil // parent went away
}

// ---------------------------------------------------------------- parent: child management

type cpNode struct {
	cmd     *exec.Cmd
	stdin   io.WriteCloser
	lines   chan string
	exited  chan struct{}
	exitErr error
	addr    string
	pid     int
	b0      []byte
	errPath string
	dir     string
}

func cpSpawn(base string, k int) (*cpNode, error) {
	exe, err := os.Executable()
	if err != nil {
		return nil, err
	}
	dir := filepath.Join(base, fmt.Sprintf("child%d", k))
	if err := os.MkdirAll(dir, 0755); err != nil {
		return nil, err
	}
	c := &cpNode{lines: make(chan string, 16), exited: make(chan struct{}), dir: dir, errPath: filepath.Join(dir, "stderr.txt")}
	c.cmd = exec.Command(exe, "clusterproto-child", "-dir", dir)
	c.cmd.Env = append(os.Environ(), "GOTRACEBACK=single")
	ef, err := os.Create(c.errPath)
	if err != nil {
		return nil, err
	}
	c.cmd.Stderr = ef
	// the child leaves when its stdin reaches EOF, so it never outlives the driver
	if c.stdin, err = c.cmd.StdinPipe(); err != nil {
		return nil, err
	}
	so, err := c.cmd.StdoutPipe()
	if err != nil {
		return nil, err
	}
	if err := c.cmd.Start(); err != nil {
		return nil, err
	}
	ef.Close()
	go func() {
		sc := bufio.NewScanner(so)
		sc.Buffer(make([]byte, 1<<16), 1<<22)
		for sc.Scan() {
			c.lines <- sc.Text()
		}
		c.exitErr = c.cmd.Wait()
		close(c.exited)
	}()
	m, err := c.recv(120 * time.Second)
	if err != nil {
		c.kill()
		return nil, fmt.Errorf("child did not come up: %w (%s)", err, c.stderrTail())
	}
	c.addr, _ = m["addr"].(string)
	if p, ok := m["pid"].(float64); ok {
		c.pid = int(p)
	}
	if b0, ok := m["b0"].(string); ok {
		if c.b0, err = os.ReadFile(b0); err != nil {
			return nil, err
		}
	}
	if c.addr == "" || len(c.b0) == 0 {
		c.kill()
		return nil, fmt.Errorf("bad ready line %v", m)
	}
	return c, nil
}

var errChildDead = errors.New("child process exited")

func (c *cpNode) recv(d time.Duration) (map[string]any, error) {
	select {
	case l := <-c.lines:
		var m map[string]any
		if err := json.Unmarshal([]byte(l), &m); err != nil {
			return nil, fmt.Errorf("control line %q: %w", l, err)
		}
		return m, nil
	case <-c.exited:
		return nil, errChildDead
	case <-time.After(d):
		return nil, errors.New("control channel timeout")
	}
}

func (c *cpNode) ctl(cmd string) (map[string]any, error) {
	select {
	case <-c.exited:
		return nil, errChildDead
	default:
	}
	if _, err := io.WriteString(c.stdin, cmd+"\n"); err != nil {
		select {
		case <-c.exited:
		case <-time.After(5 * time.Second):
		}
		return nil, errChildDead
	}
	return c.recv(60 * time.Second)
}

func (c *cpNode) dead(wait time.Duration) bool {
	select {
	case <-c.exited:
		return true
	case <-time.After(wait):
		return false
	}
}

func (c *cpNode) kill() {
	if c.cmd.Process != nil {
		c.cmd.Process.Kill()
	}
	select {
	case <-c.exited:
	case <-time.After(10 * time.Second):
	}
}

func (c *cpNode) quit() {
	if !c.dead(0) {
		c.ctl("quit")
	}
	select {
	case <-c.exited:
	case <-time.After(20 * time.Second):
		c.kill()
	}
}

func (c *cpNode) stderrTail() string {
	b, _ := os.ReadFile(c.errPath)
	// first panic / fatal line and a little context
	lines := strings.Split(string(b), "\n")
	for i, l := range lines {
		if strings.HasPrefix(l, "panic:") || strings.HasPrefix(l, "fatal error:") {
			hi := i + 14
			if hi > len(lines) {
				hi = len(lines)
			}
			return strings.Join(lines[i:hi], "\n")
		}
	}
	if len(b) > 1500 {
		b = b[len(b)-1500:]
	}
	return string(b)
}

func (c *cpNode) exitInfo() string {
	if c.exitErr == nil {
		return "exit 0"
	}
	return c.exitErr.Error()
}

func procStatusKB(pid int, key string) int64 {
	b, err := os.ReadFile(fmt.Sprintf("/proc/%d/status", pid))
	if err != nil {
		return -1
	}
	for _, l := range strings.Split(string(b), "\n") {
		if strings.HasPrefix(l, key+":") {
			f := strings.Fields(l)
			if len(f) >= 2 {
				n, _ := strconv.ParseInt(f[1], 10, 64)
				return n
			}
		}
	}
	return -1
}

// ---------------------------------------------------------------- cases

type cpFrame struct {
	Len string `json:"len"`
	Pay struct {
		K string `json:"k"`
		T string `json:"t"`
	} `json:"pay"`
}

type cpCase struct {
	ID        int       `json:"id"`
	Mux       string    `json:"mux"`
	Frames    []cpFrame `json:"frames"`
	Exp       []string  `json:"exp"`
	MayChange bool      `json:"maychange"`
	Random    string    `json:"random,omitempty"` // class of a random stream (no frames)
}

type cpObs struct {
	ID         int      `json:"id"`
	Sent       int      `json:"sent"`
	SentHead   string   `json:"sent_head"`
	Resp       []string `json:"resp"`     // parsed response frames: ok | unauth | nilerr | err:<text> | meta | stream
	Trailing   int      `json:"trailing"` // bytes after the last parsable response frame
	Bytes      int      `json:"bytes"`
	Closed     bool     `json:"closed"` // the server closed the connection (EOF) before the deadline
	Crashed    bool     `json:"crashed"`
	Exit       string   `json:"exit,omitempty"`
	Panic      string   `json:"panic,omitempty"`
	MetaOK     bool     `json:"meta_ok"`
	MetaErr    string   `json:"meta_err,omitempty"`
	DAlloc     int64    `json:"d_total_alloc"` // bytes allocated by the node during the case
	DHWMKB     int64    `json:"d_hwm_kb"`
	DRSSKB     int64    `json:"d_rss_kb"`
	Changed    []string `json:"changed"`
	Head       string   `json:"head"`
	Restarted  bool     `json:"restarted,omitempty"`
	RandomKind string   `json:"random,omitempty"`
}

var cpTypeNum = map[string]int32{"UNKNOWN": 0, "GET_NODE_META": 1, "EXECUTE": 2, "QUERY": 3, "BACKUP": 4, "LOAD": 5, "REMOVE_NODE": 6,
	"NOTIFY": 7, "JOIN": 8, "REQUEST": 9, "LOAD_CHUNK": 10, "BACKUP_STREAM": 11, "STEPDOWN": 12, "HIGHWATER_MARK_UPDATE": 13, "OUTOFRANGE": 99}

type cpGen struct {
	n      *cpNode
	nextID int
}

func (g *cpGen) insert() string {
	g.nextID++
	return fmt.Sprintf("INSERT INTO w(id,v) VALUES(%d,'c%d')", g.nextID, g.nextID)
}

// command renders the protobuf of payload class k for type t.
func (g *cpGen) command(k, t string) ([]byte, error) {
	num, ok := cpTypeNum[t]
	if !ok {
		return nil, fmt.Errorf("unknown type %q", t)
	}
	cmd := &cproto.Command{Type: cproto.Command_Type(num)}
	switch k {
	case "bad":
		cmd.Credentials = &cproto.Credentials{Username: cpUser, Password: cpWrong}
	case "good", "nil":
		cmd.Credentials = &cproto.Credentials{Username: cpUser, Password: cpPass}
	case "anon":
	}
	if k != "nil" {
		switch t {
		case "EXECUTE":
			cmd.Request = &cproto.Command_ExecuteRequest{ExecuteRequest: &proto.ExecuteRequest{Request: stmts(g.insert())}}
		case "QUERY":
			cmd.Request = &cproto.Command_QueryRequest{QueryRequest: &proto.QueryRequest{Request: stmts(selectSecret), Level: proto.ConsistencyLevel_NONE}}
		case "REQUEST":
			cmd.Request = &cproto.Command_ExecuteQueryRequest{ExecuteQueryRequest: &proto.ExecuteQueryRequest{Request: stmts(g.insert(), selectSecret)}}
		case "BACKUP", "BACKUP_STREAM":
			cmd.Request = &cproto.Command_BackupRequest{BackupRequest: &proto.BackupRequest{Format: proto.BackupRequest_BACKUP_REQUEST_FORMAT_BINARY}}
		case "LOAD":
			cmd.Request = &cproto.Command_LoadRequest{LoadRequest: &proto.LoadRequest{Data: g.n.b0}}
		case "LOAD_CHUNK":
			cmd.Request = &cproto.Command_LoadChunkRequest{LoadChunkRequest: &proto.LoadChunkRequest{StreamId: "s", SequenceNum: 1, Data: []byte("xx")}}
		case "REMOVE_NODE":
			cmd.Request = &cproto.Command_RemoveNodeRequest{RemoveNodeRequest: &proto.RemoveNodeRequest{Id: "ghost2"}}
		case "NOTIFY":
			cmd.Request = &cproto.Command_NotifyRequest{NotifyRequest: &proto.NotifyRequest{Id: "n9", Address: "127.0.0.1:9"}}
		case "JOIN":
			cmd.Request = &cproto.Command_JoinRequest{JoinRequest: &proto.JoinRequest{Id: "ghost2", Address: "127.0.0.1:9", Voter: false}}
		case "STEPDOWN":
			cmd.Request = &cproto.Command_StepdownRequest{StepdownRequest: &proto.StepdownRequest{Wait: false}}
		case "HIGHWATER_MARK_UPDATE":
			cmd.Request = &cproto.Command_HighwaterMarkUpdateRequest{HighwaterMarkUpdateRequest: &cproto.HighwaterMarkUpdateRequest{NodeId: "n9", HighwaterMark: 7}}
		}
	}
	return pb.Marshal(cmd)
}

func garbage(r *rand.Rand) []byte {
	// ten 0xff bytes cannot be a protobuf tag (varint overflow): Unmarshal must fail
	b := bytes.Repeat([]byte{0xff}, 10)
	n := 8 + r.Intn(48)
	for i := 0; i < n; i++ {
		b = append(b, byte(r.Intn(256)))
	}
	return b
}

func lenPrefix(v uint64) []byte {
	b := make([]byte, 8)
	binary.LittleEndian.PutUint64(b, v)
	return b
}

// render produces the bytes of a TLC case and the types of the frames that are expected to answer.
func (g *cpGen) render(c *cpCase) ([]byte, error) {
	r := rand.New(rand.NewSource(seedFromEnv()*7919 + int64(c.ID)))
	var out []byte
	switch c.Mux {
	case "cluster":
		out = append(out, 2)
	case "raft":
		out = append(out, 1)
	default:
		out = append(out, []byte{0, 3, 9, 0x16, 'G', 255}[c.ID%6]) // 0x16: TLS hello, 'G': HTTP
	}
	for _, f := range c.Frames {
		var p []byte
		var err error
		if f.Pay.K == "garbage" {
			p = garbage(r)
		} else if p, err = g.command(f.Pay.K, f.Pay.T); err != nil {
			return nil, err
		}
		switch f.Len {
		case "0":
			out = append(out, lenPrefix(0)...)
		case "lt":
			out = append(append(out, lenPrefix(uint64(len(p)/2))...), p...)
		case "eq":
			out = append(append(out, lenPrefix(uint64(len(p)))...), p...)
		case "gt":
			out = append(append(out, lenPrefix(uint64(len(p)+1000))...), p...)
		case "2^31":
			out = append(append(out, lenPrefix(1<<31)...), p...)
		case "2^62":
			out = append(append(out, lenPrefix(1<<62)...), p...)
		case "2^64-1":
			out = append(append(out, lenPrefix(^uint64(0))...), p...)
		default:
			return nil, fmt.Errorf("unknown length class %q", f.Len)
		}
	}
	return out, nil
}

// randomStream produces a seeded byte stream of the named class.  No stream carries valid credentials, so
// no state change is ever authorised.
func (g *cpGen) randomStream(c *cpCase) []byte {
	r := rand.New(rand.NewSource(seedFromEnv()*104729 + int64(c.ID)))
	types := []string{"GET_NODE_META", "EXECUTE", "QUERY", "BACKUP", "LOAD", "REMOVE_NODE", "NOTIFY", "JOIN", "REQUEST", "LOAD_CHUNK", "BACKUP_STREAM", "STEPDOWN", "HIGHWATER_MARK_UPDATE"}
	rb := func(n int) []byte {
		b := make([]byte, n)
		r.Read(b)
		return b
	}
	valid := func() []byte {
		k := []string{"bad", "anon", "nil"}[r.Intn(3)]
		p, _ := g.command(k, types[r.Intn(len(types))])
		if k == "nil" { // nil sub-request without usable credentials
			cmd := &cproto.Command{}
			pb.Unmarshal(p, cmd)
			cmd.Credentials = nil
			p, _ = pb.Marshal(cmd)
		}
		return p
	}
	var out []byte
	switch c.Random {
	case "pure": // nothing but noise, any first byte
		out = rb(1 + r.Intn(512))
	case "cluster-noise": // the cluster service parses noise as length + payload
		out = append([]byte{2}, rb(r.Intn(600))...)
	case "raft-noise": // the raft transport parses noise as an RPC
		out = append([]byte{1}, rb(r.Intn(600))...)
	case "bitflip": // a valid frame with 1..8 flipped bits anywhere (length prefix included)
		p := valid()
		fr := append(lenPrefix(uint64(len(p))), p...)
		for k := 1 + r.Intn(8); k > 0; k-- {
			i := r.Intn(len(fr))
			fr[i] ^= 1 << uint(r.Intn(8))
		}
		out = append([]byte{2}, fr...)
	case "lenfuzz": // a valid payload behind a random length (small, off by a few, huge)
		p := valid()
		var l uint64
		switch r.Intn(5) {
		case 0:
			l = uint64(r.Intn(len(p) + 1))
		case 1:
			l = uint64(len(p) + 1 + r.Intn(16))
		case 2:
			l = uint64(1) << uint(20+r.Intn(44))
		case 3:
			l = r.Uint64()
		default:
			l = uint64(1)<<uint(31+r.Intn(33)) - uint64(r.Intn(3))
		}
		out = append(append([]byte{2}, lenPrefix(l)...), p...)
	case "truncated": // a valid frame cut anywhere, possibly followed by another valid frame
		p := valid()
		fr := append(lenPrefix(uint64(len(p))), p...)
		fr = fr[:r.Intn(len(fr)+1)]
		q := valid()
		out = append(append(append([]byte{2}, fr...), lenPrefix(uint64(len(q)))...), q...)
	default: // "protonoise": well-formed protobuf wire data that is not a Command we know
		var p []byte
		for k := 0; k < 1+r.Intn(6); k++ {
			field := uint64(1 + r.Intn(20))
			switch r.Intn(3) {
			case 0:
				p = binary.AppendUvarint(p, field<<3|0)
				p = binary.AppendUvarint(p, r.Uint64())
			case 1:
				b := rb(r.Intn(40))
				p = binary.AppendUvarint(p, field<<3|2)
				p = binary.AppendUvarint(p, uint64(len(b)))
				p = append(p, b...)
			default:
				p = binary.AppendUvarint(p, field<<3|5)
				p = append(p, rb(4)...)
			}
		}
		out = append(append([]byte{2}, lenPrefix(uint64(len(p)))...), p...)
	}
	return out
}

var cpRandomKinds = []string{"pure", "cluster-noise", "raft-noise", "bitflip", "lenfuzz", "truncated", "protonoise"}

// parseResponses splits what the server sent into response frames and classifies them; types are the
// command types of the frames expected to answer, in order (needed to decode BACKUP and NodeMeta).
func parseResponses(raw []byte, types []string) (kinds []string, trailing int) {
	off := 0
	for i := 0; off+8 <= len(raw); i++ {
		sz := binary.LittleEndian.Uint64(raw[off:])
		if sz > uint64(len(raw)-off-8) {
			break
		}
		p := raw[off+8 : off+8+int(sz)]
		off += 8 + int(sz)
		t := ""
		if i < len(types) {
			t = types[i]
		}
		if t == "GET_NODE_META" {
			m := &cproto.NodeMeta{}
			if pb.Unmarshal(p, m) == nil {
				kinds = append(kinds, "meta")
			} else {
				kinds = append(kinds, "err:undecodable")
			}
			continue
		}
		if t == "BACKUP" {
			if zr, err := gzip.NewReader(bytes.NewReader(p)); err == nil {
				if q, err := io.ReadAll(zr); err == nil {
					p = q
				}
			}
		}
		r := &cproto.CommandBackupResponse{} // error = 1 (string), data = 2 (bytes): superset of the others' field 1
		var e string
		if err := pb.Unmarshal(p, r); err == nil {
			e = r.Error
		} else {
			g := &cproto.CommandLoadResponse{}
			if pb.Unmarshal(p, g) == nil {
				e = g.Error
			} else {
				e = "undecodable"
			}
		}
		switch {
		case e == "":
			kinds = append(kinds, "ok")
		case e == "unauthorized":
			kinds = append(kinds, "unauth")
		case strings.HasSuffix(e, "is nil"):
			kinds = append(kinds, "nilerr")
		default:
			if len(e) > 60 {
				e = e[:60]
			}
			kinds = append(kinds, "err:"+e)
		}
		if t == "BACKUP_STREAM" && e == "" {
			// an unframed gzip stream follows; whatever comes after it cannot be delimited here
			kinds[len(kinds)-1] = "stream"
			return kinds, len(raw) - off
		}
	}
	return kinds, len(raw) - off
}

// cpExchange writes the stream, half-closes and reads until the server closes (eof) or the deadline.
func cpExchange(addr string, data []byte, d time.Duration) (resp []byte, eof bool) {
	conn, err := net.DialTimeout("tcp", addr, 10*time.Second)
	if err != nil {
		return nil, false
	}
	defer conn.Close()
	conn.SetDeadline(time.Now().Add(d))
	if _, err := conn.Write(data); err == nil {
		if tc, ok := conn.(*net.TCPConn); ok {
			tc.CloseWrite()
		}
	}
	buf := make([]byte, 64<<10)
	for {
		n, err := conn.Read(buf)
		resp = append(resp, buf[:n]...)
		if err != nil {
			var ne net.Error
			if errors.As(err, &ne) && ne.Timeout() {
				return resp, false
			}
			return resp, true // EOF or reset: the server let go of the connection
		}
	}
}

func cpStateDiff(a, b map[string]any) []string {
	var d []string
	for _, k := range []string{"dump", "commit", "members", "leader"} {
		if fmt.Sprint(a[k]) != fmt.Sprint(b[k]) {
			d = append(d, k)
		}
	}
	return d
}

func metaRoundTrip(addr string) error {
	cmd := &cproto.Command{Type: cproto.Command_COMMAND_TYPE_GET_NODE_META}
	p, _ := pb.Marshal(cmd)
	raw, err := rawExchange(addr, frameBytes(2, uint64(len(p)), p), true, 20*time.Second)
	if err != nil {
		return err
	}
	if len(raw) < 8 {
		return fmt.Errorf("%d bytes in answer to GET_NODE_META", len(raw))
	}
	sz := binary.LittleEndian.Uint64(raw)
	if sz == 0 || sz != uint64(len(raw)-8) {
		return fmt.Errorf("GET_NODE_META answer: length %d, %d bytes follow", sz, len(raw)-8)
	}
	return pb.Unmarshal(raw[8:], &cproto.NodeMeta{})
}

func f64(m map[string]any, k string) int64 {
	if v, ok := m[k].(float64); ok {
		return int64(v)
	}
	return 0
}

func cpReplay(args []string) error {
	fs := flag.NewFlagSet("clusterproto-replay", flag.ExitOnError)
	in := fs.String("in", "cases.ndjson", "")
	out := fs.String("out", "obs.ndjson", "")
	base := fs.String("dir", "", "scratch dir")
	fs.Parse(args)
	if *base == "" {
		d, _ := os.MkdirTemp("", "vcp")
		*base = d
		defer os.RemoveAll(d)
	}
	raw, err := os.ReadFile(*in)
	if err != nil {
		return err
	}
	var cases []*cpCase
	for _, line := range bytes.Split(raw, []byte("\n")) {
		if len(bytes.TrimSpace(line)) == 0 {
			continue
		}
		c := &cpCase{}
		if err := json.Unmarshal(line, c); err != nil {
			return err
		}
		cases = append(cases, c)
	}
	w, err := newND(*out)
	if err != nil {
		return err
	}
	defer w.Close()
	nchild := 0
	node, err := cpSpawn(*base, nchild)
	if err != nil {
		return err
	}
	defer func() { node.quit() }()
	g := &cpGen{n: node, nextID: 1000}
	stats := map[string]int{}
	t0 := time.Now()
	restarted := false
	for _, c := range cases {
		o := &cpObs{ID: c.ID, Changed: []string{}, Resp: []string{}, Restarted: restarted, RandomKind: c.Random}
		restarted = false
		var stream []byte
		var types []string
		if c.Random != "" {
			stream = g.randomStream(c)
		} else {
			if stream, err = g.render(c); err != nil {
				return err
			}
			for i, f := range c.Frames {
				if i < len(c.Exp) {
					switch c.Exp[i] {
					case "served", "stream", "nilerr", "unauth":
						types = append(types, f.Pay.T)
					}
				}
			}
		}
		o.Sent = len(stream)
		o.SentHead = printable(stream, 48)
		s0, err := node.ctl("state")
		if err != nil {
			return fmt.Errorf("case %d: node not usable before the case: %w (%s)", c.ID, err, node.stderrTail())
		}
		hwm0, rss0 := procStatusKB(node.pid, "VmHWM"), procStatusKB(node.pid, "VmRSS")
		resp, eof := cpExchange(node.addr, stream, 40*time.Second)
		o.Bytes = len(resp)
		o.Head = printable(resp, 60)
		o.Closed = eof
		if c.Mux == "cluster" || c.Random != "" {
			o.Resp, o.Trailing = parseResponses(resp, types)
			if o.Resp == nil {
				o.Resp = []string{}
			}
		}
		// a crashing process is gone within moments of the fatal frame
		crashed := node.dead(30 * time.Millisecond)
		var s1 map[string]any
		if !crashed {
			if merr := metaRoundTrip(node.addr); merr != nil {
				o.MetaErr = merr.Error()
				crashed = node.dead(2 * time.Second)
			} else {
				o.MetaOK = true
			}
		}
		if !crashed {
			if s1, err = node.ctl("state"); err != nil {
				crashed = node.dead(2 * time.Second)
				if !crashed {
					return fmt.Errorf("case %d: control channel: %w", c.ID, err)
				}
			}
		}
		if crashed {
			o.Crashed = true
			o.Exit = node.exitInfo()
			o.Panic = node.stderrTail()
			stats["crashes"]++
			nchild++
			if node, err = cpSpawn(*base, nchild); err != nil {
				return fmt.Errorf("restart after crash: %w", err)
			}
			g.n = node
			restarted = true
		} else {
			o.DAlloc = f64(s1, "total_alloc") - f64(s0, "total_alloc")
			o.DHWMKB = procStatusKB(node.pid, "VmHWM") - hwm0
			o.DRSSKB = procStatusKB(node.pid, "VmRSS") - rss0
			if d := cpStateDiff(s0, s1); d != nil {
				o.Changed = d
			}
		}
		w.Write(o)
		stats["cases"]++
		if len(o.Changed) > 0 {
			stats["state_changed"]++
		}
		if !o.Closed {
			stats["not_closed"]++
		}
		if stats["cases"]%200 == 0 {
			node.ctl("gc")
		}
	}
	stats["children"] = nchild + 1
	stats["wall_ms"] = int(time.Since(t0).Milliseconds())
	b, _ := json.Marshal(stats)
	fmt.Println(string(b))
	return nil
}
