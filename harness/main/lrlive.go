package main

// lr-live (C38): histories of writes, strong/linearizable reads, joins, removals, stepdowns,
// barriers, snapshots and restarts on a live cluster; after EVERY operation a linearizable read
// is issued on the leader with no intervening write.  The node events (lr.*, fsm.*) go to the
// trace validated by TraceCluster.tla, whose LrAbort action evaluates Cluster!NoStuckRead on
// the real values (wait timed out although Raft had applied the read index).

import (
	"context"
	"encoding/json"
	"errors"
	"flag"
	"fmt"
	"os"
	"path/filepath"
	"time"

	"github.com/rqlite/rqlite/v10/command/proto"
	"github.com/rqlite/rqlite/v10/store"
)

func init() { register("lr-live", lrLive) }

type lrLiveStats struct {
	Ops, Reads, ReadsOK, Stuck, Other int
	ByOp                             map[string]int
	StuckAfter                       map[string]int
}

func lrLive(args []string) error {
	fs := flag.NewFlagSet("lr-live", flag.ExitOnError)
	out := fs.String("out", "lrlive.ndjson", "trace file")
	nops := fs.Int("ops", 30, "operations")
	nodes := fs.Int("nodes", 3, "initial voters")
	base := fs.String("dir", "", "scratch dir")
	fs.Parse(args)
	if *base == "" {
		*base, _ = os.MkdirTemp("", "vlr")
		defer os.RemoveAll(*base)
	}
	w, err := newND(*out)
	if err != nil {
		return err
	}
	traceTo(w, linFilter)
	defer traceOff()
	rng := newRand(38)
	st := lrLiveStats{ByOp: map[string]int{}, StuckAfter: map[string]int{}}
	emit("", "reset", "nodes", *nodes)
	c, err := newCluster(vClusterOpts{N: *nodes, Base: *base, NoHTTP: true})
	if err != nil {
		return err
	}
	defer c.Close()
	if err := linSetup(c); err != nil {
		return err
	}
	spareN := 0
	var extras []*vNode // joined spare nodes
	val := 0
	// the alphabet; every kind is exercised at least once in order, then at random
	kinds := []string{"write", "strong", "lin", "join-voter", "barrier", "join-nonvoter", "remove", "snapshot", "stepdown", "restart-follower", "noop"}
	for i := 0; i < *nops; i++ {
		kind := kinds[i%len(kinds)]
		if i >= len(kinds) {
			kind = kinds[rng.Intn(len(kinds))]
		}
		l := c.Leader(10 * time.Second)
		if l == nil {
			return errors.New("no leader")
		}
		var operr error
		switch kind {
		case "write":
			val++
			_, _, operr = sExec(l.Store, false, fmt.Sprintf("UPDATE reg SET v=%d WHERE k=1", val))
		case "strong":
			_, operr = sQuery(l.Store, proto.ConsistencyLevel_STRONG, "SELECT v FROM reg WHERE k=1")
		case "lin":
			_, operr = sQuery(l.Store, proto.ConsistencyLevel_LINEARIZABLE, "SELECT v FROM reg WHERE k=1")
		case "join-voter", "join-nonvoter":
			if len(extras) >= 2 {
				kind = "remove"
				v := extras[0]
				extras = extras[1:]
				operr = l.Store.Remove(context.Background(), &proto.RemoveNodeRequest{Id: v.ID})
				v.Stop()
				break
			}
			spareN++
			id := fmt.Sprintf("s%d", spareN)
			dir := filepath.Join(*base, id)
			os.MkdirAll(dir, 0755)
			v, err := startNode(c.nw, vNodeOpts{ID: id, Dir: dir, NoHTTP: true})
			if err != nil {
				return err
			}
			operr = l.Store.Join(&proto.JoinRequest{Id: id, Address: v.Addr, Voter: kind == "join-voter"})
			if operr == nil {
				extras = append(extras, v)
				c.nodes = append(c.nodes, v)
			} else {
				v.Stop()
			}
		case "remove":
			if len(extras) == 0 {
				kind = "noop"
				_, operr = l.Store.Noop("x")
				break
			}
			v := extras[0]
			extras = extras[1:]
			operr = l.Store.Remove(context.Background(), &proto.RemoveNodeRequest{Id: v.ID})
			v.Stop()
		case "barrier":
			operr = l.Store.Barrier()
		case "snapshot":
			operr = l.Store.Snapshot(0)
		case "stepdown":
			operr = l.Store.Stepdown(true, "")
		case "restart-follower":
			fl := c.Followers()
			var v *vNode
			for _, f := range fl {
				if f.ID[0] == 'n' {
					v = f
					break
				}
			}
			if v == nil {
				kind = "noop"
				break
			}
			nv, err := v.Restart()
			if err != nil {
				return fmt.Errorf("restart %s: %w", v.ID, err)
			}
			for j := range c.nodes {
				if c.nodes[j] == v {
					c.nodes[j] = nv
				}
			}
		case "noop":
			_, operr = l.Store.Noop("x")
		}
		st.Ops++
		st.ByOp[kind]++
		es := ""
		if operr != nil {
			es = operr.Error()
		}
		emit("", "note", "op", kind, "err", es)
		// the linearizable read(s) with no intervening write
		for attempt := 0; attempt < 6; attempt++ {
			l = c.Leader(10 * time.Second)
			if l == nil {
				return errors.New("no leader after " + kind)
			}
			st.Reads++
			_, _, _, err := l.Store.Query(context.Background(), &proto.QueryRequest{
				Request: stmts("SELECT v FROM reg WHERE k=1"), Level: proto.ConsistencyLevel_LINEARIZABLE,
				LinearizableTimeout: int64(1500 * time.Millisecond)})
			if err == nil {
				st.ReadsOK++
				emit("", "note", "read", "ok", "after", kind)
				break
			}
			if errors.Is(err, store.ErrWaitForFSMTimeout) {
				st.Stuck++
				st.StuckAfter[kind]++
				emit("", "note", "read", "stuck", "after", kind)
				// un-stick with a write so that the history can continue
				val++
				sExec(l.Store, false, fmt.Sprintf("UPDATE reg SET v=%d WHERE k=1", val))
				break
			}
			st.Other++
			emit("", "note", "read", "retry", "after", kind, "err", err.Error())
			time.Sleep(200 * time.Millisecond)
		}
	}
	traceOff()
	if err := w.Close(); err != nil {
		return err
	}
	b, _ := json.Marshal(st)
	fmt.Println(string(b))
	return nil
}
