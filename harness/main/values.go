package main

// values-replay: C30 "values round-trip through the HTTP API without loss".
//
// Input: the paths of specs/Values.tla (TLC-enumerated, one JSON object per path with the
// expected bound class, stored typeof() and JSON output class).  Every path is concretised
// with several seeded values per input class.  Each value is
//   1. rendered as JSON *text* (number tokens, escapes and spacing chosen by the generator,
//      never by encoding/json) inside a request body of the HTTP API form,
//   2. sent through the REAL pipeline, on two layers:
//        db   : http.ParseRequest -> db.Execute/Query/Request -> encoding.Encoder
//        http : a real single-node store.Store behind proxy + http.Service, over loopback HTTP
//               (/db/execute, /db/query, /db/request; ?associative, ?blob_array)
//   3. observed in SQLite with a plain database/sql connection that bypasses rqlite
//      (typeof(), value, hex(CAST(.. AS BLOB))), and compared with an ORACLE database into
//      which the intended native value (int64/float64/string/[]byte/nil) was bound directly:
//      "bound to SQLite with the same type and value";
//   4. read back through rqlite in every response form (array/associative x blob_array on/off),
//      from the column itself and through an expression over it, one row at a time and in
//      multi-row result sets; the response is decoded with json.Number and compared exactly
//      with what is stored: "read back without loss".
// A mismatch of the real code is written to -out as one ndjson line with a stable key.
// The spec's expectations are cross-checked against the oracle (disagreement = defect of the
// spec, reported in the stats, never a violation).

import (
	"bytes"
	"database/sql"
	"encoding/base64"
	"encoding/hex"
	"encoding/json"
	"flag"
	"fmt"
	"io"
	"log"
	"math"
	"math/rand"
	"net"
	"net/http"
	"os"
	"path/filepath"
	"regexp"
	"sort"
	"strconv"
	"strings"
	"time"
	"unicode/utf8"

	"github.com/rqlite/rqlite/v10/cluster"
	"github.com/rqlite/rqlite/v10/command/encoding"
	"github.com/rqlite/rqlite/v10/command/proto"
	"github.com/rqlite/rqlite/v10/db"
	httpd "github.com/rqlite/rqlite/v10/http"
	"github.com/rqlite/rqlite/v10/proxy"
	"github.com/rqlite/rqlite/v10/store"
	"github.com/rqlite/rqlite/v10/tcp"
)

func init() { register("values-replay", valuesReplay) }

// ------------------------------------------------------------------ spec cases

type valCase struct {
	Inp      string `json:"inp"`
	Via      string `json:"via"`
	Col      string `json:"col"`
	Read     string `json:"read"`
	Form     string `json:"form"`
	Blobarr  bool   `json:"blobarr"`
	Bound    string `json:"bound"`
	Stored   string `json:"stored"`
	Out      string `json:"out"`
	Identity bool   `json:"identity"`
}

var valCols = []string{"none", "integer", "real", "text", "blob", "numeric"}

// ------------------------------------------------------------------ concrete values

// one concrete value of an input class
type valValue struct {
	cls    string
	token  string // JSON text of the parameter
	lit    string // SQL literal text ("" = none)
	native any    // what SQLite must be handed: int64 / float64 / string / []byte / nil
}

func sqlQuote(s string) string { return "'" + strings.ReplaceAll(s, "'", "''") + "'" }

// jsonString renders s as a JSON string token; mode 0: minimal escaping, raw UTF-8;
// mode 1: every non-ASCII rune as \uXXXX (surrogate pairs above the BMP); mode 2: mixed.
func jsonString(s string, mode int, r *rand.Rand) string {
	var b strings.Builder
	b.WriteByte('"')
	for _, c := range s {
		switch {
		case c == '"':
			b.WriteString(`\"`)
		case c == '\\':
			b.WriteString(`\\`)
		case c == '\n':
			b.WriteString(`\n`)
		case c == '\r':
			b.WriteString(`\r`)
		case c == '\t':
			b.WriteString(`\t`)
		case c < 0x20 || c == 0x7f:
			fmt.Fprintf(&b, `\u%04x`, c)
		case c == '/' && mode != 0 && r.Intn(2) == 0:
			b.WriteString(`\/`)
		case c > 0x7f && (mode == 1 || (mode == 2 && r.Intn(2) == 0)):
			if c > 0xffff {
				c -= 0x10000
				fmt.Fprintf(&b, `\u%04X\u%04x`, 0xd800+(c>>10), 0xdc00+(c&0x3ff))
			} else {
				fmt.Fprintf(&b, `\u%04x`, c)
			}
		default:
			b.WriteRune(c)
		}
	}
	b.WriteByte('"')
	return b.String()
}

func textValue(cls, s string, r *rand.Rand) valValue {
	v := valValue{cls: cls, token: jsonString(s, r.Intn(3), r), native: s}
	if !strings.ContainsRune(s, 0) {
		v.lit = sqlQuote(s)
	}
	return v
}

func floatValue(cls, tok string) valValue {
	f, err := strconv.ParseFloat(tok, 64)
	if err != nil || math.IsInf(f, 0) || math.IsNaN(f) {
		panic("bad float token " + tok)
	}
	return valValue{cls: cls, token: tok, lit: tok, native: f}
}

func intValue(cls string, i int64) valValue {
	s := strconv.FormatInt(i, 10)
	return valValue{cls: cls, token: s, lit: s, native: i}
}

func randBytes(r *rand.Rand, n int) []byte {
	if r.Intn(25) == 0 {
		n = 500 + r.Intn(4000) // now and then a long one (multi-KB bodies, compressed raft commands)
	}
	b := make([]byte, n)
	switch r.Intn(4) {
	case 0: // printable ASCII: also valid text
		for i := range b {
			b[i] = byte(0x20 + r.Intn(0x5f))
		}
	case 1: // valid multi-byte UTF-8
		b = []byte(randRunes(r, n/2+1))
	default:
		r.Read(b)
	}
	return b
}

func hexCase(r *rand.Rand, b []byte) string {
	s := hex.EncodeToString(b)
	switch r.Intn(3) {
	case 0:
		return strings.ToUpper(s)
	case 1:
		var o strings.Builder
		for _, c := range s {
			if r.Intn(2) == 0 {
				o.WriteString(strings.ToUpper(string(c)))
			} else {
				o.WriteRune(c)
			}
		}
		return o.String()
	}
	return s
}

func hexLitValue(cls string, r *rand.Rand, b []byte) valValue {
	x := "x"
	if r.Intn(2) == 0 {
		x = "X"
	}
	t := x + "'" + hexCase(r, b) + "'"
	return valValue{cls: cls, token: `"` + t + `"`, lit: t, native: append([]byte{}, b...)}
}

func byteArrayValue(cls string, r *rand.Rand, b []byte) valValue {
	var o strings.Builder
	o.WriteByte('[')
	sp := r.Intn(2) == 0
	for i, c := range b {
		if i > 0 {
			o.WriteByte(',')
			if sp {
				o.WriteByte(' ')
			}
		}
		o.WriteString(strconv.Itoa(int(c)))
	}
	o.WriteByte(']')
	return valValue{cls: cls, token: o.String(), native: append([]byte{}, b...)}
}

var runeRanges = [][2]rune{{0xa1, 0x24f}, {0x370, 0x3ff}, {0x400, 0x4ff}, {0x5d0, 0x5ea}, {0x621, 0x64a}, {0x3041, 0x3096},
	{0x4e00, 0x9fa5}, {0xac00, 0xd7a3}, {0x2000, 0x206f}, {0x1f300, 0x1f64f}, {0x1d400, 0x1d7ff}, {0xfff0, 0xfffd}, {0x300, 0x36f}}

func randRunes(r *rand.Rand, n int) string {
	var b strings.Builder
	for i := 0; i < n; i++ {
		if r.Intn(4) == 0 {
			b.WriteByte(byte('a' + r.Intn(26)))
			continue
		}
		rg := runeRanges[r.Intn(len(runeRanges))]
		b.WriteRune(rg[0] + rune(r.Intn(int(rg[1]-rg[0]+1))))
	}
	return b.String()
}

func randASCII(r *rand.Rand, n int, alphabet string) string {
	b := make([]byte, n)
	for i := range b {
		b[i] = alphabet[r.Intn(len(alphabet))]
	}
	return string(b)
}

const alnum = "abcdefghijklmnopqrstuvwxyzABCDEFGHIJKLMNOPQRSTUVWXYZ0123456789"

// valuesFor returns k concrete values of class cls: fixed boundary representatives first,
// then seeded random ones.
func valuesFor(cls string, k int, r *rand.Rand) []valValue {
	var fixed []valValue
	var gen func() valValue
	switch cls {
	case "int_small":
		for _, i := range []int64{0, 1, -1, 42, 255, -32768, 2147483647, -2147483648, 4294967296, 9007199254740992, -9007199254740992, 9007199254740991} {
			fixed = append(fixed, intValue(cls, i))
		}
		gen = func() valValue { return intValue(cls, r.Int63n(1<<uint(1+r.Intn(53)))*int64(1-2*r.Intn(2))) }
	case "int_big53":
		for _, i := range []int64{9007199254740993, -9007199254740993, 1234567890123456789, -1234567890123456789, math.MaxInt64 - 1,
			math.MinInt64 + 1, 9223372036854775295, 4611686018427387905, 1000000000000000001} {
			fixed = append(fixed, intValue(cls, i))
		}
		gen = func() valValue {
			for {
				i := (r.Int63() | 1) * int64(1-2*r.Intn(2))
				if i > 1<<53 || i < -(1<<53) {
					return intValue(cls, i)
				}
			}
		}
	case "int_min":
		fixed = []valValue{intValue(cls, math.MinInt64)}
	case "int_max":
		fixed = []valValue{intValue(cls, math.MaxInt64)}
	case "float_frac":
		for _, t := range []string{"0.5", "-2.75", "0.1", "3.141592653589793", "123456.789", "-0.000123", "0.30000000000000004", "9007199254740.5"} {
			fixed = append(fixed, floatValue(cls, t))
		}
		gen = func() valValue {
			for {
				f := (r.Float64()*2 - 1) * math.Pow(10, float64(r.Intn(10)-3))
				t := strconv.FormatFloat(f, 'f', -1, 64)
				if strings.Contains(t, ".") && f != math.Trunc(f) {
					return floatValue(cls, t)
				}
			}
		}
	case "float_integral":
		for _, t := range []string{"1.0", "-3.0", "100.0", "0.0", "-0.0", "1234567.0", "2.00", "9007199254740992.0"} {
			fixed = append(fixed, floatValue(cls, t))
		}
		gen = func() valValue {
			return floatValue(cls, strconv.FormatInt(r.Int63n(1<<uint(1+r.Intn(50)))*int64(1-2*r.Intn(2)), 10)+".0")
		}
	case "float_exp_frac":
		for _, t := range []string{"2.5e-3", "1.25E-7", "-6.5e-1", "5e-324", "2.2250738585072014e-308", "1.5e0", "3.3E-10", "123456789e-4"} {
			fixed = append(fixed, floatValue(cls, t))
		}
		gen = func() valValue {
			m := r.Intn(99999) + 1
			if m%10 == 0 {
				m++
			}
			e := len(strconv.Itoa(m)) + r.Intn(25)
			es := []string{"e", "E"}[r.Intn(2)]
			sign := []string{"", "-"}[r.Intn(2)]
			return floatValue(cls, fmt.Sprintf("%s%d%s-%d", sign, m, es, e))
		}
	case "float_exp_integral":
		for _, t := range []string{"1e3", "1E3", "2e10", "1e+2", "-4E+5", "12e1", "1.5e1", "0e0", "2.5E+2"} {
			fixed = append(fixed, floatValue(cls, t))
		}
		gen = func() valValue {
			es := []string{"e", "E", "e+", "E+"}[r.Intn(4)]
			sign := []string{"", "-"}[r.Intn(2)]
			return floatValue(cls, fmt.Sprintf("%s%d%s%d", sign, r.Intn(999)+1, es, r.Intn(12)+1))
		}
	case "float_huge":
		for _, t := range []string{"1e300", "1.7976931348623157e308", "1e19", "-1e19", "9.3e18", "1E20", "-2.5e+200", "18446744073709551616.0"} {
			fixed = append(fixed, floatValue(cls, t))
		}
		gen = func() valValue {
			sign := []string{"", "-"}[r.Intn(2)]
			return floatValue(cls, fmt.Sprintf("%s%d.%de%d", sign, r.Intn(9)+1, r.Intn(100000), 19+r.Intn(280)))
		}
	case "bool_true":
		fixed = []valValue{{cls: cls, token: "true", lit: "TRUE", native: int64(1)}}
	case "bool_false":
		fixed = []valValue{{cls: cls, token: "false", lit: "FALSE", native: int64(0)}}
	case "null":
		fixed = []valValue{{cls: cls, token: "null", lit: "NULL", native: nil}}
	case "text_plain":
		for _, s := range []string{"hello", "Hello, World", "a", "fiona", " leading and trailing ", "SELECT 1", "time(now)"} {
			fixed = append(fixed, textValue(cls, s, r))
		}
		gen = func() valValue {
			n := 1 + r.Intn(40)
			if r.Intn(20) == 0 {
				n = 500 + r.Intn(6000)
			}
			return textValue(cls, randASCII(r, n, alnum+"  _-.,;:!?()[]{}+*=#@%&|~^$"), r)
		}
	case "text_empty":
		fixed = []valValue{textValue(cls, "", r)}
	case "text_escapes":
		for _, s := range []string{"it's", `say "hi"`, `back\slash`, "a\nb", "tab\there", "cr\r\nlf", "<tag> & </tag>", "''", `A`, "a\x01b\x1f", "\x7f", "%s %d", "?", ":x", "'; DROP TABLE v; --"} {
			fixed = append(fixed, textValue(cls, s, r))
		}
		gen = func() valValue {
			return textValue(cls, randASCII(r, 1+r.Intn(30), "ab'\"\\/\n\r\t<>&%?: ;-\x01\x1b"), r)
		}
	case "text_nonascii":
		for _, s := range []string{"h\u00e9llo", "\u00dcn\u00efc\u00f6d\u00e9", "\u65e5\u672c\u8a9e", "\U0001F600", "\U0001F469\u200d\U0001F469\u200d\U0001F467", "e\u0301", "line\u2028sep\u2029", "\u00df", "\u03a9\u2248\u00e7\u221a\u222b", "\ufffd", "\u0645\u0631\u062d\u0628\u0627", "\u00a0", "\U0001D4B3", "\uffff", "na\u00efve caf\u00e9 'quoted'", "\u0080\u07ff\u0800"} {
			fixed = append(fixed, textValue(cls, s, r))
		}
		gen = func() valValue {
			n := 1 + r.Intn(24)
			if r.Intn(20) == 0 {
				n = 300 + r.Intn(2000)
			}
			return textValue(cls, randRunes(r, n), r)
		}
	case "text_nul":
		for _, s := range []string{"a\x00b", "\x00", "x\x00", "\x00y", "日\x00本"} {
			fixed = append(fixed, textValue(cls, s, r))
		}
		gen = func() valValue {
			// letters only: SQLite's numeric affinity reads "7\x00abc" as the number 7 (C string), not our subject
			s := randASCII(r, 1+r.Intn(10), alnum[:52])
			i := r.Intn(len(s) + 1)
			return textValue(cls, s[:i]+"\x00"+s[i:], r)
		}
	case "text_hexlooking":
		for _, s := range []string{"0x1F", "DEADBEEF", "x'zz'", "x'abc'", "x'41", "x41'", "y'41'", "'41'", `x"41"`, "xx'41'", "x'41'x", "x'", "X", "x'4 1'", "CAFEBABE", "0XFF"} {
			fixed = append(fixed, textValue(cls, s, r))
		}
		gen = func() valValue {
			h := hexCase(r, randBytes(r, 1+r.Intn(8)))
			var s string
			switch r.Intn(8) {
			case 0:
				s = "0x" + h
			case 1:
				s = "AB" + h
			case 2:
				s = "x'" + h
			case 3:
				s = "x" + h + "'"
			case 4:
				s = "y'" + h + "'"
			case 5:
				s = "x'" + h + "g'"
			case 6:
				s = "x'" + h + "a'" // odd number of digits
			case 7:
				s = "x'" + h + "'x"
			}
			return textValue(cls, s, r)
		}
	case "text_numint":
		for _, s := range []string{"123", "-7", "0", "007", "9223372036854775807", "-9223372036854775808", "42"} {
			fixed = append(fixed, textValue(cls, s, r))
		}
		gen = func() valValue {
			return textValue(cls, strconv.FormatInt(r.Int63n(1<<uint(1+r.Intn(62)))*int64(1-2*r.Intn(2)), 10), r)
		}
	case "text_numreal":
		for _, s := range []string{"1.5", "-0.25", "2.5e-3", "3.14159", "9223372036854775808", "0.1", "1e-2"} {
			fixed = append(fixed, textValue(cls, s, r))
		}
		gen = func() valValue {
			for {
				f := (r.Float64()*2 - 1) * math.Pow(10, float64(r.Intn(8)-2))
				t := strconv.FormatFloat(f, 'f', -1, 64)
				if strings.Contains(t, ".") && f != math.Trunc(f) {
					return textValue(cls, t, r)
				}
			}
		}
	case "text_numintegral":
		for _, s := range []string{"1e3", "4.0", "-2.0e2", "1.5e1", "100.0", "1E2"} {
			fixed = append(fixed, textValue(cls, s, r))
		}
		gen = func() valValue {
			if r.Intn(2) == 0 {
				return textValue(cls, strconv.Itoa(r.Intn(100000)-50000)+".0", r)
			}
			return textValue(cls, fmt.Sprintf("%de%d", r.Intn(999)+1, r.Intn(10)+1), r)
		}
	case "text_numlike":
		for _, s := range []string{"0x10", "1_000", "12abc", "NaN", "true", "null", "1.2.3", "--5", "1e", "e5", ".", "1,5", "\u0663\u0664", "1 2", "abc123", "$5"} {
			fixed = append(fixed, textValue(cls, s, r))
		}
		gen = func() valValue {
			return textValue(cls, strconv.Itoa(r.Intn(100000))+randASCII(r, 1+r.Intn(3), "abcxyz_,"), r)
		}
	case "hexlit":
		for _, b := range [][]byte{[]byte("AB"), {0x00, 0xff}, {0xde, 0xad, 0xbe, 0xef}, []byte("SQLite"), {0x00}, {0xff, 0xfe, 0x80}, []byte("héllo"), {0xc3}, []byte("123"), []byte("x'41'")} {
			fixed = append(fixed, hexLitValue(cls, r, b))
		}
		gen = func() valValue { return hexLitValue(cls, r, randBytes(r, 1+r.Intn(40))) }
	case "hexlit_empty":
		fixed = []valValue{{cls: cls, token: `"x''"`, lit: "x''", native: []byte{}}, {cls: cls, token: `"X''"`, lit: "X''", native: []byte{}}}
	case "bytearray":
		for _, b := range [][]byte{{1, 2, 255}, {0}, []byte("SQLite"), {0xff, 0xfe, 0x80}, {0, 0, 0}, []byte("日本"), {0x80}, []byte("42"), []byte("hello world")} {
			fixed = append(fixed, byteArrayValue(cls, r, b))
		}
		gen = func() valValue { return byteArrayValue(cls, r, randBytes(r, 1+r.Intn(40))) }
	case "bytearray_empty":
		fixed = []valValue{{cls: cls, token: "[]", native: []byte{}}, {cls: cls, token: "[ ]", native: []byte{}}}
	default:
		panic("unknown input class " + cls)
	}
	// seeded choice of the fixed representatives (all of them when k is large enough), then random ones
	r.Shuffle(len(fixed), func(i, j int) { fixed[i], fixed[j] = fixed[j], fixed[i] })
	out := fixed
	if gen == nil || len(out) > k {
		if len(out) > k {
			out = out[:k]
		}
		return out
	}
	for len(out) < k {
		out = append(out, gen())
	}
	return out
}

// ------------------------------------------------------------------ raw observation

// rawVal is a value as SQLite holds it.
type rawVal struct {
	Typ string  `json:"typ"`
	I   int64   `json:"i,omitempty"`
	F   float64 `json:"f,omitempty"`
	B   []byte  `json:"b,omitempty"` // bytes of text or blob
}

func (a rawVal) equal(b rawVal) bool {
	if a.Typ != b.Typ {
		return false
	}
	switch a.Typ {
	case "integer":
		return a.I == b.I
	case "real":
		return a.F == b.F
	case "text", "blob":
		return bytes.Equal(a.B, b.B)
	}
	return true
}

func (a rawVal) String() string {
	switch a.Typ {
	case "integer":
		return fmt.Sprintf("integer(%d)", a.I)
	case "real":
		return "real(" + strconv.FormatFloat(a.F, 'g', -1, 64) + ")"
	case "text":
		return fmt.Sprintf("text(%q)", string(a.B))
	case "blob":
		return "blob(x'" + hex.EncodeToString(a.B) + "')"
	}
	return a.Typ
}

func nativeRaw(n any) rawVal {
	switch v := n.(type) {
	case nil:
		return rawVal{Typ: "null"}
	case int64:
		return rawVal{Typ: "integer", I: v}
	case float64:
		return rawVal{Typ: "real", F: v}
	case string:
		return rawVal{Typ: "text", B: []byte(v)}
	case []byte:
		return rawVal{Typ: "blob", B: v}
	}
	panic("native")
}

// mkRaw builds a rawVal from typeof(), the driver value and hex(CAST(x AS BLOB)); the hex rendering
// is the authority for text/blob/integer, so a driver conversion cannot hide a difference.
func mkRaw(typ string, v any, hx sql.NullString) (rawVal, error) {
	r := rawVal{Typ: typ}
	hb, _ := hex.DecodeString(hx.String)
	switch typ {
	case "null":
	case "integer":
		i, err := strconv.ParseInt(string(hb), 10, 64)
		if err != nil {
			return r, fmt.Errorf("raw integer rendering %q: %v", hb, err)
		}
		if dv, ok := v.(int64); ok && dv != i {
			return r, fmt.Errorf("raw integer: driver %d vs SQLite text %d", dv, i)
		}
		r.I = i
	case "real":
		f, ok := v.(float64)
		if !ok {
			return r, fmt.Errorf("raw real: driver returned %T", v)
		}
		r.F = f
	case "text", "blob":
		r.B = hb
		if r.B == nil {
			r.B = []byte{}
		}
	default:
		return r, fmt.Errorf("typeof %q", typ)
	}
	return r, nil
}

func rawSelectList(table string) string {
	var s []string
	for _, c := range valCols {
		s = append(s, fmt.Sprintf("typeof(c_%[1]s), c_%[1]s, hex(CAST(c_%[1]s AS BLOB))", c))
	}
	return "SELECT " + strings.Join(s, ", ") + " FROM " + table + " WHERE id = ?"
}

func rawRow(q interface {
	QueryRow(string, ...any) *sql.Row
}, query string, args ...any) ([]rawVal, error) {
	n := strings.Count(query, "typeof(")
	dst := make([]any, 0, 3*n)
	typs := make([]string, n)
	vals := make([]any, n)
	hxs := make([]sql.NullString, n)
	for i := 0; i < n; i++ {
		dst = append(dst, &typs[i], &vals[i], &hxs[i])
	}
	if err := q.QueryRow(query, args...).Scan(dst...); err != nil {
		return nil, err
	}
	out := make([]rawVal, n)
	for i := range out {
		var err error
		if out[i], err = mkRaw(typs[i], vals[i], hxs[i]); err != nil {
			return nil, err
		}
	}
	return out, nil
}

// ------------------------------------------------------------------ judging a JSON output

func jsonClassOf(g any) string {
	switch v := g.(type) {
	case nil:
		return "null"
	case json.Number:
		if valIntRe.MatchString(string(v)) {
			return "int"
		}
		return "number"
	case string:
		return "string"
	case bool:
		return "bool"
	case []any:
		return "array"
	}
	return fmt.Sprintf("%T", g)
}

var valIntRe = regexp.MustCompile(`^-?(0|[1-9][0-9]*)$`)

// judge compares one decoded JSON value with what is stored.  kind "" = faithful.
func judge(want rawVal, blobarr bool, got any) (kind, detail string) {
	gc := jsonClassOf(got)
	switch want.Typ {
	case "null":
		if got != nil {
			return "null-as-" + gc, fmt.Sprintf("stored NULL, JSON %v", got)
		}
	case "integer":
		n, ok := got.(json.Number)
		if !ok {
			return "integer-as-" + gc, fmt.Sprintf("stored %s, JSON %s %v", want, gc, got)
		}
		if string(n) != strconv.FormatInt(want.I, 10) {
			return "int-precision", fmt.Sprintf("stored %s, JSON number %s", want, n)
		}
	case "real":
		n, ok := got.(json.Number)
		if !ok {
			return "real-as-" + gc, fmt.Sprintf("stored %s, JSON %s %v", want, gc, got)
		}
		f, err := strconv.ParseFloat(string(n), 64)
		if err != nil || f != want.F {
			return "float-mismatch", fmt.Sprintf("stored %s, JSON number %s", want, n)
		}
	case "text":
		s, ok := got.(string)
		if !ok {
			return "text-as-" + gc, fmt.Sprintf("stored %s, JSON %s %v", want, gc, got)
		}
		if s != string(want.B) {
			return "text-mismatch", fmt.Sprintf("stored %s, JSON string %q", want, s)
		}
	case "blob":
		if s, ok := got.(string); ok && (blobarr || !base64Is(s, want.B)) {
			if s == string(want.B) || s == lossyText(want.B) {
				return "blob-as-text", fmt.Sprintf("stored %s, JSON string %q (the bytes as text)", want, s)
			}
			return "blob-mismatch", fmt.Sprintf("stored %s, JSON string %q", want, s)
		}
		if blobarr {
			a, ok := got.([]any)
			if !ok {
				return "blob-as-" + gc, fmt.Sprintf("stored %s, JSON %s %v", want, gc, got)
			}
			if len(a) != len(want.B) {
				return "blob-mismatch", fmt.Sprintf("stored %s, JSON array %v", want, a)
			}
			for i, e := range a {
				n, ok := e.(json.Number)
				if !ok || string(n) != strconv.Itoa(int(want.B[i])) {
					return "blob-mismatch", fmt.Sprintf("stored %s, JSON array %v", want, a)
				}
			}
		} else if _, ok := got.(string); !ok {
			return "blob-as-" + gc, fmt.Sprintf("stored %s, JSON %s %v", want, gc, got)
		}
	}
	return "", ""
}

// lossyText is what encoding/json makes of bytes taken for a string: every invalid byte -> U+FFFD.
func lossyText(b []byte) string {
	var o strings.Builder
	for len(b) > 0 {
		c, n := utf8.DecodeRune(b)
		o.WriteRune(c) // RuneError is U+FFFD
		b = b[n:]
	}
	return o.String()
}

func base64Is(s string, b []byte) bool {
	d, err := base64.StdEncoding.DecodeString(s)
	return err == nil && bytes.Equal(d, b)
}

// outClass mirrors JsonOf of the spec.
func outClass(typ string, blobarr bool) string {
	switch typ {
	case "integer":
		return "int"
	case "real":
		return "number"
	case "text":
		return "string"
	case "blob":
		if blobarr {
			return "bytearray"
		}
		return "base64"
	}
	return typ
}

// ------------------------------------------------------------------ backends (the real code)

type valBackend interface {
	layer() string
	// exec sends a write request body; returns one raw JSON result per statement
	exec(body []byte, unified bool) ([]json.RawMessage, error)
	// query sends a read request body; returns one raw JSON result per statement
	query(body []byte, assoc, blobarr, unified bool) ([]json.RawMessage, error)
	dbPath() string
	close()
}

// ---- db layer: real parser, real db, real encoder
type valDB struct {
	d    *db.DB
	path string
}

func newValDB(dir string) (*valDB, error) {
	p := filepath.Join(dir, "values.db")
	d, err := db.Open(p, false, true)
	if err != nil {
		return nil, err
	}
	return &valDB{d: d, path: p}, nil
}
func (b *valDB) layer() string  { return "db" }
func (b *valDB) dbPath() string { return b.path }
func (b *valDB) close()         { b.d.Close() }

func splitResults(j []byte) ([]json.RawMessage, error) {
	var out []json.RawMessage
	dec := json.NewDecoder(bytes.NewReader(j))
	dec.UseNumber()
	if err := dec.Decode(&out); err != nil {
		return nil, fmt.Errorf("results are not a JSON array: %v: %.200s", err, j)
	}
	return out, nil
}

func (b *valDB) exec(body []byte, unified bool) ([]json.RawMessage, error) {
	stmts, err := httpd.ParseRequest(bytes.NewReader(body))
	if err != nil {
		return nil, err
	}
	req := &proto.Request{Statements: stmts}
	var res []*proto.ExecuteQueryResponse
	if unified {
		res, err = b.d.Request(req, false)
	} else {
		res, err = b.d.Execute(req, false)
	}
	if err != nil {
		return nil, err
	}
	enc := encoding.Encoder{}
	j, err := enc.JSONMarshal(res)
	if err != nil {
		return nil, err
	}
	return splitResults(j)
}

func (b *valDB) query(body []byte, assoc, blobarr, unified bool) ([]json.RawMessage, error) {
	stmts, err := httpd.ParseRequest(bytes.NewReader(body))
	if err != nil {
		return nil, err
	}
	req := &proto.Request{Statements: stmts}
	enc := encoding.Encoder{Associative: assoc, BlobsAsByteArrays: blobarr}
	var j []byte
	if unified {
		res, err := b.d.Request(req, false)
		if err != nil {
			return nil, err
		}
		if j, err = enc.JSONMarshal(res); err != nil {
			return nil, fmt.Errorf("encode: %v", err)
		}
	} else {
		res, err := b.d.Query(req, false)
		if err != nil {
			return nil, err
		}
		if j, err = enc.JSONMarshal(res); err != nil {
			return nil, fmt.Errorf("encode: %v", err)
		}
	}
	return splitResults(j)
}

// ---- http layer: single-node store + proxy + http.Service, requests over loopback
type valHTTP struct {
	strong bool // read with level=strong: the query and its parameters travel through the Raft log
	st     *store.Store
	svc    *httpd.Service
	mux    *tcp.Mux
	ln     net.Listener
	url    string
	client *http.Client
}

func newValHTTP(dir string) (*valHTTP, error) {
	ln, err := net.Listen("tcp", "127.0.0.1:0")
	if err != nil {
		return nil, err
	}
	mux, err := tcp.NewMux(ln, nil)
	if err != nil {
		return nil, err
	}
	go mux.Serve()
	raftLn := mux.Listen(cluster.MuxRaftHeader)
	raftTn := tcp.NewLayer(raftLn, tcp.NewDialer(cluster.MuxRaftHeader, nil))
	st := store.New(&store.Config{DBConf: store.NewDBConfig(), Dir: dir, ID: "n1", Logger: log.New(io.Discard, "", 0)}, raftTn)
	st.RaftLogLevel = "ERROR"
	if err := st.Open(); err != nil {
		return nil, fmt.Errorf("store open: %v", err)
	}
	if err := st.Bootstrap(store.NewServer(st.ID(), st.Addr(), true)); err != nil {
		return nil, fmt.Errorf("bootstrap: %v", err)
	}
	if _, err := st.WaitForLeader(20 * time.Second); err != nil {
		return nil, fmt.Errorf("no leader: %v", err)
	}
	cl := cluster.NewClient(tcp.NewDialer(cluster.MuxClusterHeader, nil), 30*time.Second)
	pxy := proxy.New(st, cl)
	svc := httpd.New("127.0.0.1:0", st, cl, pxy, nil)
	if err := svc.Start(); err != nil {
		return nil, fmt.Errorf("http start: %v", err)
	}
	pxy.SetAPIAddr(svc.Addr().String())
	return &valHTTP{st: st, svc: svc, mux: mux, ln: ln, url: "http://" + svc.Addr().String(),
		client: &http.Client{Timeout: 120 * time.Second}}, nil
}
func (b *valHTTP) layer() string  { return "http" }
func (b *valHTTP) dbPath() string { return filepath.Join(b.st.Path(), "db.sqlite") }
func (b *valHTTP) close() {
	b.svc.Close()
	b.st.Close(true)
	b.ln.Close()
}

func (b *valHTTP) post(path string, body []byte) ([]json.RawMessage, error) {
	resp, err := b.client.Post(b.url+path, "application/json", bytes.NewReader(body))
	if err != nil {
		return nil, err
	}
	defer resp.Body.Close()
	rb, err := io.ReadAll(resp.Body)
	if err != nil {
		return nil, err
	}
	if resp.StatusCode != 200 {
		return nil, fmt.Errorf("HTTP %d: %.300s", resp.StatusCode, strings.TrimSpace(string(rb)))
	}
	var r struct {
		Results json.RawMessage `json:"results"`
		Error   string          `json:"error"`
	}
	dec := json.NewDecoder(bytes.NewReader(rb))
	dec.UseNumber()
	if err := dec.Decode(&r); err != nil {
		return nil, fmt.Errorf("response is not JSON: %v: %.200s", err, rb)
	}
	if r.Error != "" {
		return nil, fmt.Errorf("response error: %s", r.Error)
	}
	return splitResults(r.Results)
}

func (b *valHTTP) exec(body []byte, unified bool) ([]json.RawMessage, error) {
	if unified {
		return b.post("/db/request", body)
	}
	return b.post("/db/execute", body)
}

func (b *valHTTP) query(body []byte, assoc, blobarr, unified bool) ([]json.RawMessage, error) {
	p := "/db/query"
	if unified {
		p = "/db/request"
	}
	var qs []string
	if assoc {
		qs = append(qs, "associative")
	}
	if blobarr {
		qs = append(qs, "blob_array")
	}
	if b.strong {
		qs = append(qs, "level=strong")
	}
	if len(qs) > 0 {
		p += "?" + strings.Join(qs, "&")
	}
	return b.post(p, body)
}

// ------------------------------------------------------------------ decoding results

// decodeResult returns the rows of one result as maps column->value (json.Number kept).
func decodeResult(raw json.RawMessage, assoc bool) ([]map[string]any, error) {
	dec := json.NewDecoder(bytes.NewReader(raw))
	dec.UseNumber()
	if assoc {
		var r struct {
			Rows  []map[string]any `json:"rows"`
			Error string           `json:"error"`
		}
		if err := dec.Decode(&r); err != nil {
			return nil, err
		}
		if r.Error != "" {
			return nil, fmt.Errorf("result error: %s", r.Error)
		}
		return r.Rows, nil
	}
	var r struct {
		Columns []string `json:"columns"`
		Values  [][]any  `json:"values"`
		Error   string   `json:"error"`
	}
	if err := dec.Decode(&r); err != nil {
		return nil, err
	}
	if r.Error != "" {
		return nil, fmt.Errorf("result error: %s", r.Error)
	}
	out := make([]map[string]any, len(r.Values))
	for i, row := range r.Values {
		if len(row) != len(r.Columns) {
			return nil, fmt.Errorf("row has %d values for %d columns", len(row), len(r.Columns))
		}
		m := make(map[string]any, len(row))
		for j, c := range r.Columns {
			m[c] = row[j]
		}
		out[i] = m
	}
	return out, nil
}

func resultError(raw json.RawMessage) string {
	var r struct {
		Error string `json:"error"`
	}
	json.Unmarshal(raw, &r)
	return r.Error
}

// ------------------------------------------------------------------ the replay

type valRow struct {
	id   int64
	v    valValue
	via  string
	ok   bool     // written without error
	raw  []rawVal // what rqlite's database holds, per column of valCols
	orc  []rawVal // what the oracle database holds
	exNo rawVal   // oracle for the no-column expression
	stmt string   // the insert statement as sent (JSON text)
}

var exprShapes = []string{"coalesce(%[1]s,%[1]s)", "ifnull(%[1]s,%[1]s)", "CASE WHEN 1 THEN %[1]s END", "+%[1]s", "max(%[1]s)"}

type valMismatch struct {
	Key    string `json:"key"`
	Kind   string `json:"kind"`
	What   string `json:"what"`
	Inp    string `json:"inp"`
	Via    string `json:"via"`
	Col    string `json:"col"`
	Token  string `json:"json_token"`
	SQL    string `json:"sql,omitempty"`
	Body   string `json:"request_body,omitempty"`
	Stored string `json:"stored,omitempty"`
	Got    string `json:"got,omitempty"`
}

type valStats struct {
	Cases        int            `json:"cases"`
	Paths        int            `json:"paths"`
	Values       int            `json:"values"`
	Rows         int            `json:"rows_written"`
	Lists        int            `json:"parameter_lists"`
	Evaluations  int            `json:"evaluations"`
	BindChecks   int            `json:"bind_checks"`
	Requests     int            `json:"requests"`
	Mismatches   int            `json:"mismatches"`
	ByKind       map[string]int `json:"by_kind"`
	SpecVsSQLite []string       `json:"spec_vs_sqlite"`
	SelfTried    int            `json:"selftest_tried"`
	SelfCaught   int            `json:"selftest_caught"`
	Distinct     int            `json:"distinct_tokens"`
	Samples      []string       `json:"samples"`
	Layers       []string       `json:"layers"`
}

type valRun struct {
	be      valBackend
	unified bool
	table   string
	decl    map[string]string
	rng     *rand.Rand
	cases   map[string]valCase // inp|via|col|read|form|blobarr
	vals    map[string][]valValue
	out     *ndWriter
	st      *valStats
	seen    map[string]int
	oracle  *sql.DB
	raw     *sql.DB
	maxPer  int
}

func caseKey(inp, via, col, read, form string, ba bool) string {
	return fmt.Sprintf("%s|%s|%s|%s|%s|%v", inp, via, col, read, form, ba)
}

func (r *valRun) api() string {
	if r.unified {
		return "unified"
	}
	return "eq"
}

func (r *valRun) report(m valMismatch) {
	if len(m.Body) > 3000 {
		m.Body = m.Body[:3000] + "...(truncated)"
	}
	if len(m.Token) > 1000 {
		m.Token = m.Token[:1000] + "...(truncated)"
	}
	if len(m.What) > 1500 {
		m.What = m.What[:1500] + "...(truncated)"
	}
	r.st.Mismatches++
	r.st.ByKind[m.Kind]++
	r.seen[m.Key]++
	if r.seen[m.Key] <= r.maxPer {
		r.out.Write(m)
	}
}

func (r *valRun) specDisagree(s string) {
	if len(r.st.SpecVsSQLite) < 20 {
		r.st.SpecVsSQLite = append(r.st.SpecVsSQLite, s)
	}
}

func (r *valRun) createSQL() string {
	return fmt.Sprintf("CREATE TABLE %s (id INTEGER PRIMARY KEY, c_none %s, c_integer %s, c_real %s, c_text %s, c_blob %s, c_numeric %s)",
		r.table, r.decl["none"], r.decl["integer"], r.decl["real"], r.decl["text"], r.decl["blob"], r.decl["numeric"])
}

// insertStmt renders one statement (JSON text) that stores the value in every column.
func (r *valRun) insertStmt(w *valRow) string {
	cols := "id,c_none,c_integer,c_real,c_text,c_blob,c_numeric"
	switch w.via {
	case "positional":
		sqlt := fmt.Sprintf("INSERT INTO %s(%s) VALUES(?,?,?,?,?,?,?)", r.table, cols)
		ps := []string{strconv.Quote(sqlt), strconv.FormatInt(w.id, 10)}
		for range valCols {
			ps = append(ps, w.v.token)
		}
		return "[" + strings.Join(ps, ", ") + "]"
	case "named":
		sqlt := fmt.Sprintf("INSERT INTO %s(%s) VALUES(:id,:x,:x,:x,:x,:x,:x)", r.table, cols)
		if r.rng.Intn(2) == 0 {
			return fmt.Sprintf(`[%s, {"id": %d, "x": %s}]`, strconv.Quote(sqlt), w.id, w.v.token)
		}
		return fmt.Sprintf(`[%s, {"x": %s, "id": %d}]`, strconv.Quote(sqlt), w.v.token, w.id)
	default:
		l := w.v.lit
		sqlt := fmt.Sprintf("INSERT INTO %s(%s) VALUES(%d,%s,%s,%s,%s,%s,%s)", r.table, cols, w.id, l, l, l, l, l, l)
		return jsonString(sqlt, 0, r.rng)
	}
}

func (r *valRun) selectList(read, shape string) string {
	var s []string
	for _, c := range valCols {
		if read == "column" {
			s = append(s, "c_"+c)
		} else {
			s = append(s, fmt.Sprintf(shape, "c_"+c)+" AS c_"+c)
		}
	}
	return strings.Join(s, ", ")
}

func (r *valRun) checkOut(w *valRow, col, read, form string, ba bool, rows string, want rawVal, got any, present bool, body string) {
	c, ok := r.cases[caseKey(w.v.cls, w.via, col, read, form, ba)]
	if !ok {
		return
	}
	r.st.Evaluations++
	kind, detail := "", ""
	if !present {
		kind, detail = "missing", "no value for the column in the response"
	} else {
		kind, detail = judge(want, ba, got)
	}
	// the design's output class for what is stored must be the spec's
	if want.Typ == c.Stored && outClass(want.Typ, ba) != c.Out {
		r.specDisagree(fmt.Sprintf("out class: spec %s, harness %s for %+v", c.Out, outClass(want.Typ, ba), c))
	}
	if kind == "" {
		// binding self-test: the same observation judged against a perturbed expectation must fail
		if r.st.SelfTried < 400 && r.rng.Intn(40) == 0 {
			r.st.SelfTried++
			if k2, _ := judge(perturb(want), ba, got); k2 != "" {
				r.st.SelfCaught++
			}
		}
		return
	}
	key := fmt.Sprintf("values:%s:col=%s:read=%s:form=%s:blob_array=%v:rows=%s:layer=%s", kind, col, read, form, ba, rows, r.be.layer())
	gj, _ := json.Marshal(got)
	r.report(valMismatch{Key: key, Kind: kind, What: fmt.Sprintf("%s [input %s %s via %s, api %s, decl %q]", detail, w.v.cls, w.v.token, w.via, r.api(), r.decl[col]),
		Inp: w.v.cls, Via: w.via, Col: col, Token: w.v.token, Body: body, Stored: want.String(), Got: string(gj)})
}

func perturb(w rawVal) rawVal {
	switch w.Typ {
	case "null":
		return rawVal{Typ: "integer", I: 0}
	case "integer":
		w.I ^= 1
	case "real":
		w.F = math.Nextafter(w.F, math.Inf(1))
	case "text":
		w.B = append(append([]byte{}, w.B...), 'x')
	case "blob":
		w.B = append(append([]byte{}, w.B...), 0)
	}
	return w
}

func (r *valRun) run(k int) error {
	be := r.be
	// 1. create the table in rqlite and in the oracle
	res, err := be.exec([]byte(`[`+strconv.Quote(r.createSQL())+`]`), r.unified)
	r.st.Requests++
	if err != nil {
		return fmt.Errorf("create: %v", err)
	}
	if e := resultError(res[0]); e != "" {
		return fmt.Errorf("create: %s", e)
	}
	if _, err := r.oracle.Exec(r.createSQL()); err != nil {
		return fmt.Errorf("oracle create: %v", err)
	}

	// 2. rows = (class, via, value), ids in seeded order so that multi-row result sets interleave classes
	var rows []*valRow
	classes := map[string]map[string]bool{}
	for _, c := range r.cases {
		if classes[c.Inp] == nil {
			classes[c.Inp] = map[string]bool{}
		}
		classes[c.Inp][c.Via] = true
	}
	var inps []string
	for i := range classes {
		inps = append(inps, i)
	}
	sort.Strings(inps)
	for _, inp := range inps {
		var vias []string
		for v := range classes[inp] {
			vias = append(vias, v)
		}
		sort.Strings(vias)
		for _, via := range vias {
			for _, v := range r.vals[inp] {
				if via == "literal" && v.lit == "" {
					continue
				}
				rows = append(rows, &valRow{v: v, via: via})
			}
		}
	}
	r.rng.Shuffle(len(rows), func(i, j int) { rows[i], rows[j] = rows[j], rows[i] })
	for i, w := range rows {
		w.id = int64(i + 1)
	}

	// 3. write through the real pipeline in batches; isolate a failing batch statement by statement
	const batch = 40
	writeBatch := func(ws []*valRow) error {
		var parts []string
		for _, w := range ws {
			w.stmt = r.insertStmt(w)
			parts = append(parts, w.stmt)
		}
		body := "[" + strings.Join(parts, ",\n ") + "]"
		res, err := be.exec([]byte(body), r.unified)
		r.st.Requests++
		if err != nil || len(res) != len(ws) {
			if len(ws) == 1 {
				w := ws[0]
				r.report(valMismatch{Key: fmt.Sprintf("values:rejected:inp=%s:via=%s:layer=%s", w.v.cls, w.via, be.layer()), Kind: "rejected",
					What: fmt.Sprintf("request rejected: %v (%d results)", err, len(res)), Inp: w.v.cls, Via: w.via, Token: w.v.token, Body: body})
				return nil
			}
			for _, w := range ws {
				if err := writeBatchOne(r, w); err != nil {
					return err
				}
			}
			return nil
		}
		for i, w := range ws {
			if e := resultError(res[i]); e != "" {
				r.report(valMismatch{Key: fmt.Sprintf("values:rejected:inp=%s:via=%s:layer=%s", w.v.cls, w.via, be.layer()), Kind: "rejected",
					What: "statement failed: " + e, Inp: w.v.cls, Via: w.via, Token: w.v.token, Body: parts[i]})
				continue
			}
			w.ok = true
		}
		return nil
	}
	for i := 0; i < len(rows); i += batch {
		j := i + batch
		if j > len(rows) {
			j = len(rows)
		}
		if err := writeBatch(rows[i:j]); err != nil {
			return err
		}
	}
	r.st.Rows += len(rows)

	// 4. oracle: the intended native value bound directly; then observe both databases without rqlite
	otx, err := r.oracle.Begin()
	if err != nil {
		return err
	}
	for _, w := range rows {
		n := w.v.native
		if _, err := otx.Exec("INSERT INTO "+r.table+" VALUES(?,?,?,?,?,?,?)", w.id, n, n, n, n, n, n); err != nil {
			return fmt.Errorf("oracle insert %s: %v", w.v.token, err)
		}
	}
	if err := otx.Commit(); err != nil {
		return err
	}
	rsl := rawSelectList(r.table)
	var live []*valRow
	for _, w := range rows {
		if w.orc, err = rawRow(r.oracle, rsl, w.id); err != nil {
			return fmt.Errorf("oracle read: %v", err)
		}
		ex, err := rawRow(r.oracle, "SELECT typeof(?1), ?1, hex(CAST(?1 AS BLOB))", w.v.native)
		if err != nil {
			return fmt.Errorf("oracle expr: %v", err)
		}
		w.exNo = ex[0]
		// spec vs SQLite (a disagreement is a defect of the spec, not of rqlite)
		for ci, col := range valCols {
			if c, ok := r.cases[caseKey(w.v.cls, w.via, col, "column", "array", false)]; ok {
				if c.Stored != w.orc[ci].Typ {
					r.specDisagree(fmt.Sprintf("typeof: spec %s, SQLite %s for %s %s in %s column", c.Stored, w.orc[ci].Typ, w.v.cls, w.v.token, col))
				}
				if c.Identity && !w.orc[ci].equal(nativeRaw(w.v.native)) {
					r.specDisagree(fmt.Sprintf("identity: SQLite stores %s for %s %s in %s column", w.orc[ci], w.v.cls, w.v.token, col))
				}
			}
		}
		if c, ok := r.cases[caseKey(w.v.cls, w.via, "nostore", "expr", "array", false)]; ok && (c.Stored != w.exNo.Typ || !w.exNo.equal(nativeRaw(w.v.native))) {
			r.specDisagree(fmt.Sprintf("expr: spec %s, SQLite %s for %s %s", c.Stored, w.exNo, w.v.cls, w.v.token))
		}
		if !w.ok {
			continue
		}
		if w.raw, err = rawRow(r.raw, rsl, w.id); err != nil {
			if err == sql.ErrNoRows {
				r.report(valMismatch{Key: fmt.Sprintf("values:row-missing:inp=%s:via=%s:layer=%s", w.v.cls, w.via, be.layer()), Kind: "row-missing",
					What: "insert acknowledged but the row is not in the database", Inp: w.v.cls, Via: w.via, Token: w.v.token})
				continue
			}
			return fmt.Errorf("raw read: %v", err)
		}
		for ci, col := range valCols {
			r.st.BindChecks++
			got, want := w.raw[ci], w.orc[ci]
			if got.equal(want) {
				continue
			}
			kind := "bind-value"
			if got.Typ != want.Typ {
				kind = "typeof"
			} else if want.Typ == "integer" {
				kind = "int-precision"
			}
			r.report(valMismatch{Key: fmt.Sprintf("values:%s:stage=bind:inp=%s:via=%s:col=%s:layer=%s", kind, w.v.cls, w.via, col, be.layer()), Kind: kind,
				What: fmt.Sprintf("SQLite holds %s, a directly bound %s gives %s [input %s via %s, api %s]", got, nativeRaw(w.v.native), want, w.v.token, w.via, r.api()),
				Inp:  w.v.cls, Via: w.via, Col: col, Token: w.v.token, Body: w.stmt, Stored: got.String(), Got: want.String()})
		}
		live = append(live, w)
	}

	// 5. read back through the real pipeline: every form, column and expression, single rows (batched statements)
	type formT struct {
		assoc, ba bool
		name      string
	}
	forms := []formT{{false, false, "array"}, {false, true, "array"}, {true, false, "assoc"}, {true, true, "assoc"}}
	const qbatch = 40
	for _, read := range []string{"column", "expr"} {
		for _, f := range forms {
			for i := 0; i < len(live); i += qbatch {
				j := i + qbatch
				if j > len(live) {
					j = len(live)
				}
				ws := live[i:j]
				var parts []string
				for _, w := range ws {
					shape := exprShapes[r.rng.Intn(len(exprShapes))]
					q := fmt.Sprintf("SELECT id, %s FROM %s WHERE id = ?", r.selectList(read, shape), r.table)
					if strings.HasPrefix(shape, "max(") && read == "expr" {
						q += " GROUP BY id"
					}
					parts = append(parts, fmt.Sprintf("[%s, %d]", strconv.Quote(q), w.id))
				}
				body := "[" + strings.Join(parts, ",\n ") + "]"
				res, err := be.query([]byte(body), f.assoc, f.ba, r.unified)
				r.st.Requests++
				if err != nil || len(res) != len(ws) {
					return fmt.Errorf("read-back request failed (%s %s): %v (%d results for %d statements)", read, f.name, err, len(res), len(ws))
				}
				for wi, w := range ws {
					rr, err := decodeResult(res[wi], f.assoc)
					if err != nil || len(rr) != 1 {
						r.report(valMismatch{Key: fmt.Sprintf("values:read-error:read=%s:form=%s:blob_array=%v:layer=%s", read, f.name, f.ba, be.layer()), Kind: "read-error",
							What: fmt.Sprintf("reading the row back failed: %v (%d rows): %.300s", err, len(rr), res[wi]), Inp: w.v.cls, Via: w.via, Token: w.v.token, Body: parts[wi]})
						continue
					}
					for ci, col := range valCols {
						g, present := rr[0]["c_"+col]
						r.checkOut(w, col, read, f.name, f.ba, "single", w.raw[ci], g, present, parts[wi])
					}
				}
			}
		}
	}

	// 6. multi-row result sets (windows of consecutive ids: every window has another first row)
	win := 7 + r.rng.Intn(10)
	for _, read := range []string{"column", "expr"} {
		for _, f := range forms {
			shape := exprShapes[r.rng.Intn(len(exprShapes))]
			for lo := int64(1); lo <= int64(len(rows)); lo += int64(win) {
				hi := lo + int64(win) - 1
				q := fmt.Sprintf("SELECT id, %s FROM %s WHERE id BETWEEN :lo AND :hi", r.selectList(read, shape), r.table)
				if strings.HasPrefix(shape, "max(") && read == "expr" {
					q += " GROUP BY id"
				}
				q += " ORDER BY id"
				body := fmt.Sprintf(`[[%s, {"lo": %d, "hi": %d}]]`, strconv.Quote(q), lo, hi)
				res, err := be.query([]byte(body), f.assoc, f.ba, r.unified)
				r.st.Requests++
				if err != nil || len(res) != 1 {
					return fmt.Errorf("multi-row request failed: %v", err)
				}
				rr, err := decodeResult(res[0], f.assoc)
				if err != nil {
					r.report(valMismatch{Key: fmt.Sprintf("values:read-error:read=%s:form=%s:blob_array=%v:layer=%s", read, f.name, f.ba, be.layer()), Kind: "read-error",
						What: fmt.Sprintf("multi-row read failed: %v: %.300s", err, res[0]), Body: body})
					continue
				}
				byID := map[int64]map[string]any{}
				for _, m := range rr {
					if n, ok := m["id"].(json.Number); ok {
						id, _ := n.Int64()
						byID[id] = m
					}
				}
				for _, w := range live {
					if w.id < lo || w.id > hi {
						continue
					}
					m, ok := byID[w.id]
					for ci, col := range valCols {
						var g any
						present := false
						if ok {
							g, present = m["c_"+col]
						}
						r.checkOut(w, col, read, f.name, f.ba, "multi", w.raw[ci], g, present, body)
					}
				}
			}
		}
	}

	// 7. no column at all: SELECT typeof(?), ?  (one value per statement)
	type noQ struct {
		w    *valRow
		part string
	}
	var nq []noQ
	for _, w := range rows {
		if _, ok := r.cases[caseKey(w.v.cls, w.via, "nostore", "expr", "array", false)]; !ok {
			continue
		}
		var part string
		switch w.via {
		case "positional":
			part = fmt.Sprintf(`["SELECT typeof(?) AS t, ? AS e", %s, %s]`, w.v.token, w.v.token)
		case "named":
			part = fmt.Sprintf(`["SELECT typeof(:x) AS t, :x AS e", {"x": %s}]`, w.v.token)
		default:
			part = jsonString(fmt.Sprintf("SELECT typeof(%s) AS t, %s AS e", w.v.lit, w.v.lit), 0, r.rng)
		}
		nq = append(nq, noQ{w, part})
	}
	if h, ok := be.(*valHTTP); ok {
		h.strong = true
		defer func() { h.strong = false }()
	}
	for _, f := range forms {
		for i := 0; i < len(nq); i += qbatch {
			j := i + qbatch
			if j > len(nq) {
				j = len(nq)
			}
			qs := nq[i:j]
			var parts []string
			for _, q := range qs {
				parts = append(parts, q.part)
			}
			body := "[" + strings.Join(parts, ",\n ") + "]"
			res, err := be.query([]byte(body), f.assoc, f.ba, r.unified)
			r.st.Requests++
			if err != nil || len(res) != len(qs) {
				// isolate
				for _, q := range qs {
					r1, err := be.query([]byte("["+q.part+"]"), f.assoc, f.ba, r.unified)
					r.st.Requests++
					if err != nil || len(r1) != 1 {
						r.report(valMismatch{Key: fmt.Sprintf("values:rejected:inp=%s:via=%s:layer=%s", q.w.v.cls, q.w.via, be.layer()), Kind: "rejected",
							What: fmt.Sprintf("query request rejected: %v", err), Inp: q.w.v.cls, Via: q.w.via, Token: q.w.v.token, Body: q.part})
						continue
					}
					r.checkNoStore(q.w, f.name, f.assoc, f.ba, r1[0], q.part)
				}
				continue
			}
			for qi, q := range qs {
				r.checkNoStore(q.w, f.name, f.assoc, f.ba, res[qi], q.part)
			}
		}
	}
	return r.runLists(10 * k)
}

// runLists: parameter LISTS.  Six values of different classes in one statement, positional or named
// (names given in shuffled order, prefixes : @ $), each into its own untyped column: position and name
// must select the value, type and content as for single parameters.
func (r *valRun) runLists(n int) error {
	be := r.be
	t := r.table + "l"
	create := "CREATE TABLE " + t + " (id INTEGER PRIMARY KEY, p1, p2, p3, p4, p5, p6)"
	if res, err := be.exec([]byte(`[`+strconv.Quote(create)+`]`), r.unified); err != nil || resultError(res[0]) != "" {
		return fmt.Errorf("create list table: %v", err)
	}
	if _, err := r.oracle.Exec(create); err != nil {
		return err
	}
	var pool []valValue
	var classes []string
	for c := range r.vals {
		classes = append(classes, c)
	}
	sort.Strings(classes)
	for _, c := range classes {
		pool = append(pool, r.vals[c]...)
	}
	type lrow struct {
		id    int64
		named bool
		vs    [6]valValue
		stmt  string
	}
	var ls []*lrow
	for i := 0; i < n; i++ {
		l := &lrow{id: int64(i + 1), named: r.rng.Intn(2) == 0}
		for j := range l.vs {
			l.vs[j] = pool[r.rng.Intn(len(pool))]
		}
		if l.named {
			pfx := []string{":", "@", "$"}
			ph := []string{":id"}
			kv := []string{fmt.Sprintf(`"id": %d`, l.id)}
			for j, v := range l.vs {
				ph = append(ph, fmt.Sprintf("%sp%d", pfx[r.rng.Intn(3)], j+1))
				kv = append(kv, fmt.Sprintf(`"p%d": %s`, j+1, v.token))
			}
			r.rng.Shuffle(len(kv), func(a, b int) { kv[a], kv[b] = kv[b], kv[a] })
			l.stmt = fmt.Sprintf(`[%s, {%s}]`, strconv.Quote("INSERT INTO "+t+" VALUES("+strings.Join(ph, ",")+")"), strings.Join(kv, ", "))
		} else {
			ps := []string{strconv.Quote("INSERT INTO " + t + " VALUES(?,?,?,?,?,?,?)"), strconv.FormatInt(l.id, 10)}
			for _, v := range l.vs {
				ps = append(ps, v.token)
			}
			l.stmt = "[" + strings.Join(ps, ", ") + "]"
		}
		ls = append(ls, l)
		if _, err := r.oracle.Exec("INSERT INTO "+t+" VALUES(?,?,?,?,?,?,?)", l.id, l.vs[0].native, l.vs[1].native, l.vs[2].native, l.vs[3].native, l.vs[4].native, l.vs[5].native); err != nil {
			return err
		}
	}
	via := func(l *lrow) string {
		if l.named {
			return "named"
		}
		return "positional"
	}
	const batch = 40
	for i := 0; i < len(ls); i += batch {
		j := i + batch
		if j > len(ls) {
			j = len(ls)
		}
		var parts []string
		for _, l := range ls[i:j] {
			parts = append(parts, l.stmt)
		}
		res, err := be.exec([]byte("["+strings.Join(parts, ",\n ")+"]"), r.unified)
		r.st.Requests++
		if err != nil || len(res) != j-i {
			return fmt.Errorf("list insert failed: %v", err)
		}
		for x, l := range ls[i:j] {
			if e := resultError(res[x]); e != "" {
				r.report(valMismatch{Key: fmt.Sprintf("values:rejected:list:via=%s:layer=%s", via(l), be.layer()), Kind: "rejected", What: "parameter list rejected: " + e, Via: via(l), Body: l.stmt})
				l.stmt = ""
			}
		}
	}
	rsl := "SELECT typeof(p1), p1, hex(CAST(p1 AS BLOB)), typeof(p2), p2, hex(CAST(p2 AS BLOB)), typeof(p3), p3, hex(CAST(p3 AS BLOB)), typeof(p4), p4, hex(CAST(p4 AS BLOB)), typeof(p5), p5, hex(CAST(p5 AS BLOB)), typeof(p6), p6, hex(CAST(p6 AS BLOB)) FROM " + t + " WHERE id = ?"
	forms := []struct {
		assoc, ba bool
		name      string
	}{{false, false, "array"}, {false, true, "array"}, {true, false, "assoc"}, {true, true, "assoc"}}
	for _, l := range ls {
		if l.stmt == "" {
			continue
		}
		got, err := rawRow(r.raw, rsl, l.id)
		if err != nil {
			return fmt.Errorf("raw list read: %v", err)
		}
		want, err := rawRow(r.oracle, rsl, l.id)
		if err != nil {
			return err
		}
		for j := range l.vs {
			r.st.BindChecks++
			if !got[j].equal(want[j]) {
				kind := "bind-value"
				if got[j].Typ != want[j].Typ {
					kind = "typeof"
				} else if want[j].Typ == "integer" {
					kind = "int-precision"
				}
				r.report(valMismatch{Key: fmt.Sprintf("values:%s:stage=bind:list:inp=%s:via=%s:layer=%s", kind, l.vs[j].cls, via(l), be.layer()), Kind: kind,
					What: fmt.Sprintf("parameter %d of a list: SQLite holds %s, a directly bound value gives %s [api %s]", j+1, got[j], want[j], r.api()),
					Inp:  l.vs[j].cls, Via: via(l), Col: "none", Token: l.vs[j].token, Body: l.stmt, Stored: got[j].String(), Got: want[j].String()})
			}
		}
		f := forms[r.rng.Intn(len(forms))]
		body := fmt.Sprintf(`[["SELECT p1, p2, p3, p4, p5, p6 FROM %s WHERE id = :id", {"id": %d}]]`, t, l.id)
		res, err := be.query([]byte(body), f.assoc, f.ba, r.unified)
		r.st.Requests++
		if err != nil || len(res) != 1 {
			return fmt.Errorf("list read-back failed: %v", err)
		}
		rr, err := decodeResult(res[0], f.assoc)
		if err != nil || len(rr) != 1 {
			return fmt.Errorf("list read-back: %v (%d rows)", err, len(rr))
		}
		for j, v := range l.vs {
			r.st.Evaluations++
			g, present := rr[0][fmt.Sprintf("p%d", j+1)]
			kind, detail := "missing", "no value in the response"
			if present {
				kind, detail = judge(got[j], f.ba, g)
			}
			if kind != "" {
				gj, _ := json.Marshal(g)
				r.report(valMismatch{Key: fmt.Sprintf("values:%s:col=none:read=column:form=%s:blob_array=%v:rows=list:layer=%s", kind, f.name, f.ba, be.layer()), Kind: kind,
					What: fmt.Sprintf("%s [parameter %d of a list, input %s %s via %s, api %s]", detail, j+1, v.cls, v.token, via(l), r.api()),
					Inp:  v.cls, Via: via(l), Col: "none", Token: v.token, Body: l.stmt, Stored: got[j].String(), Got: string(gj)})
			}
		}
	}
	r.st.Lists += len(ls)
	return nil
}

func writeBatchOne(r *valRun, w *valRow) error {
	body := "[" + w.stmt + "]"
	res, err := r.be.exec([]byte(body), r.unified)
	r.st.Requests++
	if err != nil || len(res) != 1 {
		r.report(valMismatch{Key: fmt.Sprintf("values:rejected:inp=%s:via=%s:layer=%s", w.v.cls, w.via, r.be.layer()), Kind: "rejected",
			What: fmt.Sprintf("request rejected: %v", err), Inp: w.v.cls, Via: w.via, Token: w.v.token, Body: body})
		return nil
	}
	if e := resultError(res[0]); e != "" {
		r.report(valMismatch{Key: fmt.Sprintf("values:rejected:inp=%s:via=%s:layer=%s", w.v.cls, w.via, r.be.layer()), Kind: "rejected",
			What: "statement failed: " + e, Inp: w.v.cls, Via: w.via, Token: w.v.token, Body: body})
		return nil
	}
	w.ok = true
	return nil
}

func (r *valRun) checkNoStore(w *valRow, form string, assoc, ba bool, raw json.RawMessage, body string) {
	rr, err := decodeResult(raw, assoc)
	if err != nil || len(rr) != 1 {
		r.report(valMismatch{Key: fmt.Sprintf("values:read-error:read=expr:form=%s:blob_array=%v:layer=%s", form, ba, r.be.layer()), Kind: "read-error",
			What: fmt.Sprintf("SELECT of a parameter failed: %v: %.300s", err, raw), Inp: w.v.cls, Via: w.via, Token: w.v.token, Body: body})
		return
	}
	want := w.exNo
	// bound with the same type: typeof() as SQLite reports it
	if t, _ := rr[0]["t"].(string); t != want.Typ {
		r.st.BindChecks++
		r.report(valMismatch{Key: fmt.Sprintf("values:typeof:stage=bind:inp=%s:via=%s:col=nostore:layer=%s", w.v.cls, w.via, r.be.layer()), Kind: "typeof",
			What: fmt.Sprintf("typeof(parameter) = %q, a directly bound %s gives %q [input %s via %s]", t, want, want.Typ, w.v.token, w.via),
			Inp:  w.v.cls, Via: w.via, Col: "nostore", Token: w.v.token, Body: body, Got: t})
		return // the value check below would only repeat it
	}
	r.st.BindChecks++
	g, present := rr[0]["e"]
	r.checkOut(w, "nostore", "expr", form, ba, "single", want, g, present, body)
}

func valuesReplay(args []string) error {
	fs := flag.NewFlagSet("values-replay", flag.ExitOnError)
	in := fs.String("in", "cases.ndjson", "")
	out := fs.String("out", "mismatch.ndjson", "")
	k := fs.Int("k", 3, "concrete values per input class")
	layers := fs.String("layers", "db,http", "")
	decls := fs.Int("decls", 1, "number of declared-type variants of the table (first = canonical names)")
	fs.Parse(args)
	log.SetOutput(io.Discard)

	raw, err := os.ReadFile(*in)
	if err != nil {
		return err
	}
	cases := map[string]valCase{}
	for _, line := range bytes.Split(raw, []byte("\n")) {
		if len(line) == 0 {
			continue
		}
		var c valCase
		if err := json.Unmarshal(line, &c); err != nil {
			return err
		}
		cases[caseKey(c.Inp, c.Via, c.Col, c.Read, c.Form, c.Blobarr)] = c
	}
	w, err := newND(*out)
	if err != nil {
		return err
	}
	defer w.Close()
	dir, err := os.MkdirTemp("", "values")
	if err != nil {
		return err
	}
	defer os.RemoveAll(dir)

	st := &valStats{Cases: len(cases), ByKind: map[string]int{}, SpecVsSQLite: []string{}}
	rng := newRand(30)
	// the concrete values (same for every layer of this run)
	vals := map[string][]valValue{}
	inps := map[string]bool{}
	for _, c := range cases {
		inps[c.Inp] = true
	}
	var inpl []string
	for i := range inps {
		inpl = append(inpl, i)
	}
	sort.Strings(inpl)
	tokens := map[string]bool{}
	for _, i := range inpl {
		vals[i] = valuesFor(i, *k, rng)
		st.Values += len(vals[i])
		for _, v := range vals[i] {
			tokens[i+"|"+v.token] = true
			if !utf8.ValidString(v.token) {
				return fmt.Errorf("generator produced invalid UTF-8 token for %s", i)
			}
		}
		if len(st.Samples) < 8 && len(vals[i]) > 0 {
			st.Samples = append(st.Samples, i+": "+vals[i][len(vals[i])-1].token)
		}
	}
	st.Distinct = len(tokens)
	st.Paths = len(cases)

	declVariants := map[string][]string{
		"none": {""}, "integer": {"INTEGER", "INT", "BIGINT"}, "real": {"REAL", "DOUBLE", "FLOAT"},
		"text": {"TEXT", "VARCHAR(64)", "CLOB", "NVARCHAR(10)"}, "blob": {"BLOB"}, "numeric": {"NUMERIC", "DECIMAL(10,5)"},
	}
	seen := map[string]int{}
	tn := 0
	for _, layer := range strings.Split(*layers, ",") {
		var be valBackend
		ldir := filepath.Join(dir, layer)
		if err := os.MkdirAll(ldir, 0755); err != nil {
			return err
		}
		switch layer {
		case "db":
			be, err = newValDB(ldir)
		case "http":
			be, err = newValHTTP(ldir)
		default:
			err = fmt.Errorf("unknown layer %q", layer)
		}
		if err != nil {
			return fmt.Errorf("layer %s: %v", layer, err)
		}
		st.Layers = append(st.Layers, layer)
		rawDB, err := sql.Open("sqlite3", "file:"+be.dbPath()+"?mode=ro")
		if err != nil {
			return err
		}
		rawDB.SetMaxOpenConns(1)
		oracle, err := sql.Open("sqlite3", "file:"+filepath.Join(ldir, "oracle.db"))
		if err != nil {
			return err
		}
		oracle.SetMaxOpenConns(1)
		for dv := 0; dv < *decls; dv++ {
			for _, unified := range []bool{false, true} {
				tn++
				decl := map[string]string{}
				for a, vs := range declVariants {
					decl[a] = vs[0]
					if dv > 0 {
						decl[a] = vs[rng.Intn(len(vs))]
					}
				}
				run := &valRun{be: be, unified: unified, table: fmt.Sprintf("v%d", tn), decl: decl, rng: rng, cases: cases, vals: vals,
					out: w, st: st, seen: seen, oracle: oracle, raw: rawDB, maxPer: 3}
				if err := run.run(*k); err != nil {
					return fmt.Errorf("layer %s api %s: %v", layer, run.api(), err)
				}
			}
		}
		rawDB.Close()
		oracle.Close()
		be.close()
	}
	sj, _ := json.Marshal(st)
	fmt.Println(string(sj))
	return nil
}
