package main

import (
	"bytes"
	"encoding/json"
	"flag"
	"fmt"
	"os"

	"github.com/rqlite/rqlite/v10/auth"
)

func init() { register("auth-replay", authReplay) }

type authCase struct {
	File []struct {
		User  string   `json:"user"`
		Pw    string   `json:"pw"`
		Perms []string `json:"perms"`
	} `json:"file"`
	Q   [][]string `json:"q"`
	Exp []bool     `json:"exp"`
}

// authReplay loads every TLC-generated credentials file with the real loader and
// compares the real AA decision with the spec's for every query.
func authReplay(args []string) error {
	fs := flag.NewFlagSet("auth-replay", flag.ExitOnError)
	in := fs.String("in", "cases.ndjson", "")
	out := fs.String("out", "mismatch.ndjson", "")
	fs.Parse(args)
	rows, err := os.ReadFile(*in)
	if err != nil {
		return err
	}
	w, err := newND(*out)
	if err != nil {
		return err
	}
	defer w.Close()
	nfiles, nq, nbad := 0, 0, 0
	distinct := map[string]bool{}
	for _, line := range bytes.Split(rows, []byte("\n")) {
		if len(line) == 0 {
			continue
		}
		var c authCase
		if err := json.Unmarshal(line, &c); err != nil {
			return err
		}
		nfiles++
		// concretise: omitted fields are really omitted from the JSON text
		var ents []map[string]any
		shape := ""
		for _, e := range c.File {
			m := map[string]any{}
			sh := ""
			if e.User != "ABSENT" {
				m["username"] = e.User
				sh += "u"
			}
			if e.Pw != "ABSENT" {
				m["password"] = e.Pw
				sh += "p"
			}
			if !(len(e.Perms) == 1 && e.Perms[0] == "ABSENT") {
				if e.Perms == nil {
					e.Perms = []string{}
				}
				m["perms"] = e.Perms
				sh += "s"
			}
			ents = append(ents, m)
			shape += sh + "/"
		}
		text, _ := json.Marshal(ents)
		if ents == nil {
			text = []byte("[]")
		}
		distinct[string(text)] = true
		cs := auth.NewCredentialsStore()
		if err := cs.Load(bytes.NewReader(text)); err != nil {
			w.Write(map[string]any{"key": "auth:load-error:" + shape, "file": string(text), "err": err.Error()})
			nbad++
			continue
		}
		for i, q := range c.Q {
			nq++
			got := cs.AA(q[0], q[1], q[2])
			if got != c.Exp[i] {
				nbad++
				w.Write(map[string]any{"key": "auth:decision:omits=" + shape, "file": string(text),
					"query": q, "got": got, "want": c.Exp[i]})
				break
			}
		}
	}
	fmt.Printf("{\"files\":%d,\"queries\":%d,\"distinct_files\":%d,\"mismatches\":%d}\n", nfiles, nq, len(distinct), nbad)
	return nil
}
