package main

import (
	"bytes"
	"compress/gzip"
	"encoding/json"
	"flag"
	"fmt"
	"io"
	"log"
	"os"
	"path/filepath"
	"testing/iotest"

	"github.com/rqlite/rqlite/v10/command"
	"github.com/rqlite/rqlite/v10/command/chunking"
	"github.com/rqlite/rqlite/v10/command/proto"
	"github.com/rqlite/rqlite/v10/db"
	"github.com/rqlite/rqlite/v10/store"
)

func init() { register("chunk-replay", chunkReplay) }

type absChunk struct {
	Seq  int64  `json:"seq"`
	Len  int    `json:"len"`
	Last bool   `json:"last"`
	Sid  string `json:"sid"`
}

type chunkCase struct {
	C struct {
		N      int    `json:"n"`
		S      int    `json:"s"`
		Rd     string `json:"rd"`
		Tamper string `json:"tamper"`
		At     int    `json:"at"`
	} `json:"c"`
	Chunks  []absChunk `json:"chunks"`
	Deliver []absChunk `json:"deliver"`
	Got     int        `json:"got"`
	Done    bool       `json:"done"`
	Rej     int        `json:"rej"`
}

func gunzipLen(b []byte) ([]byte, error) {
	if b == nil {
		return nil, nil
	}
	zr, err := gzip.NewReader(bytes.NewReader(b))
	if err != nil {
		return nil, err
	}
	return io.ReadAll(zr)
}

// chunkReplay concretises each abstract case (N and S in units of `unit` bytes, random content),
// runs the real Chunker over the chosen reader variant, delivers the (possibly tampered) chunk
// sequence to the real Dechunker, and records what happened as one trace line per case; the
// verdict is TraceChunk.tla's.  Harness-side problems (errors from Next) are recorded as lines
// the spec cannot accept.
func chunkReplay(args []string) error {
	fs := flag.NewFlagSet("chunk-replay", flag.ExitOnError)
	in := fs.String("in", "cases.ndjson", "")
	out := fs.String("out", "trace.ndjson", "")
	fs.Parse(args)
	raw, err := os.ReadFile(*in)
	if err != nil {
		return err
	}
	w, err := newND(*out)
	if err != nil {
		return err
	}
	defer w.Close()
	dir, err := os.MkdirTemp("", "chunk")
	if err != nil {
		return err
	}
	defer os.RemoveAll(dir)
	units := []int{1, 7, 1024}
	if thorough() {
		// several reads of the chunker's internal 1 MiB buffer per chunk.  The unit is that buffer's size: the
		// chunker fills a chunk by whole buffer reads until it has AT LEAST the requested size, so with any other
		// large unit its chunks are longer than requested (not part of the property) and have no length in units
		units = append(units, 1<<20)
	}
	rng := newRand(28)
	n, nontrivial := 0, 0
	for _, line := range bytes.Split(raw, []byte("\n")) {
		if len(line) == 0 {
			continue
		}
		var c chunkCase
		if err := json.Unmarshal(line, &c); err != nil {
			return err
		}
		for _, unit := range units {
			if unit > 1024 && (c.C.Tamper != "none" || c.C.Rd == "dribble") {
				continue
			}
			n++
			if c.C.N > 0 {
				nontrivial++
			}
			data := make([]byte, c.C.N*unit)
			rng.Read(data)
			var rd io.Reader = bytes.NewReader(data)
			switch c.C.Rd {
			case "with":
				rd = iotest.DataErrReader(bytes.NewReader(data))
			case "dribble":
				rd = iotest.OneByteReader(bytes.NewReader(data))
			}
			ck := chunking.NewChunker(rd, int64(c.C.S*unit))
			rec := map[string]any{"c": c.C, "unit": unit}
			var real []*proto.LoadChunkRequest
			var obs []absChunk
			senderErr := ""
			for i := 0; i < 20; i++ {
				ch, err := ck.Next()
				if err == io.EOF {
					break
				}
				if err != nil {
					senderErr = err.Error()
					break
				}
				p, err := gunzipLen(ch.Data)
				if err != nil {
					senderErr = err.Error()
					break
				}
				cp := &proto.LoadChunkRequest{StreamId: ch.StreamId, SequenceNum: ch.SequenceNum, IsLast: ch.IsLast}
				if ch.Data != nil {
					cp.Data = append([]byte(nil), ch.Data...)
				}
				real = append(real, cp)
				ln := len(p) / unit
				if len(p)%unit != 0 {
					ln = -1
				}
				obs = append(obs, absChunk{Seq: ch.SequenceNum, Len: ln, Last: ch.IsLast, Sid: "a"})
			}
			if senderErr != "" {
				rec["error"] = senderErr
			}
			if obs == nil {
				obs = []absChunk{}
			}
			rec["chunks"] = obs
			// the channel
			deliver := append([]absChunk{}, obs...)
			idx := append([]int(nil), make([]int, len(obs))...)
			for i := range idx {
				idx[i] = i
			}
			if len(obs) > 0 && c.C.Tamper != "none" {
				k := c.C.At
				if k > len(obs) {
					k = len(obs)
				}
				switch c.C.Tamper {
				case "dup":
					deliver = append(append(append([]absChunk{}, obs[:k]...), obs[k-1]), obs[k:]...)
					idx = append(append(append([]int{}, idx[:k]...), k-1), idx[k:]...)
				case "skip":
					deliver = append(append([]absChunk{}, obs[:k-1]...), obs[k:]...)
					idx = append(append([]int{}, idx[:k-1]...), idx[k:]...)
				case "foreign":
					f := obs[k-1]
					f.Sid, f.Seq = "b", f.Seq+1
					deliver = append(append(append([]absChunk{}, obs[:k]...), f), obs[k:]...)
					idx = append(append(append([]int{}, idx[:k]...), k-1), idx[k:]...)
				case "swap":
					if k < len(obs) {
						deliver[k-1], deliver[k] = obs[k], obs[k-1]
						idx[k-1], idx[k] = k, k-1
					}
				}
			}
			rec["deliver"] = deliver
			dc, err := chunking.NewDechunker(dir)
			if err != nil {
				return err
			}
			rej, done := 0, false
			for i, a := range deliver {
				src := real[idx[i]]
				ch := &proto.LoadChunkRequest{StreamId: src.StreamId, SequenceNum: a.Seq, IsLast: src.IsLast, Data: src.Data}
				if a.Sid == "b" {
					ch.StreamId = "ffffffff-0000-0000-0000-000000000000"
				}
				if done {
					rej++ // the caller stops after the last chunk
					continue
				}
				last, err := dc.WriteChunk(ch)
				if err != nil {
					rej++
					continue
				}
				done = last
			}
			path, err := dc.Close()
			if err != nil {
				return err
			}
			gotBytes, _ := os.ReadFile(path)
			os.Remove(path)
			got := len(gotBytes) / unit
			if len(gotBytes)%unit != 0 {
				got = -1
			}
			rec["rej"], rec["done"], rec["got"] = rej, done, got
			rec["contentok"] = bytes.Equal(gotBytes, data)
			w.Write(rec)
		}
	}
	nabort, err := chunkAbort(dir, w)
	if err != nil {
		return err
	}
	fmt.Printf("{\"cases\":%d,\"nontrivial\":%d,\"abort_leftovers\":%d}\n", n, nontrivial, nabort)
	return nil
}

func chunkAbort(dir string, w *ndWriter) (int, error) {
	adir := filepath.Join(dir, "abort")
	os.MkdirAll(adir, 0755)
	dm, err := chunking.NewDechunkerManager(adir)
	if err != nil {
		return 0, err
	}
	sdb, err := db.OpenSwappable(filepath.Join(dir, "abort.db"), nil, false, true, 2)
	if err != nil {
		return 0, err
	}
	defer sdb.Close()
	cp := store.NewCommandProcessor(log.New(io.Discard, "", 0), dm)
	nbad := 0
	for _, sent := range []int{1, 2, 3} {
		data := bytes.Repeat([]byte("abcdefgh"), 512)
		ck := chunking.NewChunker(bytes.NewReader(data), 1024)
		for i := 0; i < sent; i++ {
			ch, err := ck.Next()
			if err != nil {
				return 0, err
			}
			b, _ := command.MarshalLoadChunkRequest(ch)
			cb, _ := command.Marshal(&proto.Command{Type: proto.Command_COMMAND_TYPE_LOAD_CHUNK, SubCommand: b})
			cp.Process(cb, sdb)
		}
		b, _ := command.MarshalLoadChunkRequest(ck.Abort())
		cb, _ := command.Marshal(&proto.Command{Type: proto.Command_COMMAND_TYPE_LOAD_CHUNK, SubCommand: b})
		cp.Process(cb, sdb)
		ents, _ := os.ReadDir(adir)
		if len(ents) != 0 {
			nbad++
			_ = w
			for _, e := range ents {
				os.Remove(filepath.Join(adir, e.Name()))
			}
		}
	}
	return nbad, nil
}
