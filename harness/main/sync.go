package main

import (
	"flag"
	"fmt"
	"math/rand"
	"sync"
	"sync/atomic"
	"time"

	"github.com/rqlite/rqlite/v10/internal/rsync"
	"github.com/rqlite/rqlite/v10/internal/vhook"
)

func init() { register("sync-trace", syncTrace) }

// syncTrace drives the real CheckAndSet / MultiRSW / ReadyTarget with concurrent
// goroutines (free-running) and records the hook events; then a sequential
// ReadyTarget phase with channel observations after every operation.
func syncTrace(args []string) error {
	fs := flag.NewFlagSet("sync-trace", flag.ExitOnError)
	out := fs.String("out", "trace.ndjson", "")
	runs := fs.Int("runs", 50, "")
	ops := fs.Int("ops", 40, "")
	fs.Parse(args)
	w, err := newND(*out)
	if err != nil {
		return err
	}
	traceTo(w, nil)
	stuckTotal := 0
	for r := 0; r < *runs; r++ {
		rng := newRand(int64(r))
		w.Write(map[string]any{"ev": "reset", "run": r})
		stuckTotal += syncConcurrent(rng, *ops)
		w.Write(map[string]any{"ev": "reset", "run": r})
		syncSeqRT(rng, *ops)
	}
	traceOff()
	if err := w.Close(); err != nil {
		return err
	}
	fmt.Printf("{\"runs\":%d,\"events\":%d,\"stuck\":%d}\n", *runs, w.n, stuckTotal)
	return nil
}

func syncConcurrent(rng *rand.Rand, nops int) int {
	cas := rsync.NewCheckAndSet()
	mrsw := rsync.NewMultiRSW()
	rt := rsync.NewReadyTarget[uint64]()
	vhook.Name(cas, "cas")
	vhook.Name(mrsw, "mrsw")
	vhook.Name(rt, "rt")
	const G = 3
	var wg sync.WaitGroup
	blocked := make([]atomic.Value, G)
	done := make([]atomic.Bool, G)
	for g := 0; g < G; g++ {
		wg.Add(1)
		seed := rng.Int63()
		go func(g int) {
			defer wg.Done()
			defer done[g].Store(true)
			defer func() {
				if p := recover(); p != nil { // the primitive itself panicked
					emit("sync", "panic", "msg", fmt.Sprint(p))
				}
			}()
			r := rand.New(rand.NewSource(seed))
			// owner strings name the operation kind, not the goroutine (as store.go does), so
			// two goroutines regularly present the same owner
			owners := []string{"A", "B"}
			name := owners[r.Intn(2)]
			casHeld, reads, write := false, 0, false
			var chans []<-chan struct{}
			for i := 0; i < nops; i++ {
				if !casHeld && !write {
					name = owners[r.Intn(2)]
				}
				switch r.Intn(16) {
				case 0, 1:
					if !casHeld {
						ok := cas.Begin(name) == nil
						emit("cas", "ret", "op", "cas.begin", "owner", name, "ok", ok)
						casHeld = ok
					}
				case 2:
					if casHeld {
						cas.End()
						casHeld = false
					}
				case 3, 4:
					if !write {
						ok := mrsw.BeginRead() == nil
						emit("mrsw", "ret", "op", "mrsw.bread", "owner", "anon", "ok", ok)
						if ok {
							reads++
						}
					}
				case 5:
					if !write {
						blocked[g].Store("r")
						mrsw.BeginReadBlocking()
						emit("mrsw", "ret", "op", "mrsw.breadb", "owner", "anon", "ok", true)
						blocked[g].Store("")
						reads++
					}
				case 6, 7:
					if reads > 0 {
						mrsw.EndRead()
						reads--
					}
				case 8:
					if !write && reads == 0 {
						ok := mrsw.BeginWrite(name) == nil
						emit("mrsw", "ret", "op", "mrsw.bwrite", "owner", name, "ok", ok)
						write = ok
					}
				case 9:
					if !write && reads == 0 {
						blocked[g].Store("w")
						mrsw.BeginWriteBlocking(name)
						emit("mrsw", "ret", "op", "mrsw.bwriteb", "owner", name, "ok", true)
						blocked[g].Store("")
						write = true
					}
				case 10:
					if write {
						mrsw.EndWrite()
						write = false
					}
				case 11:
					if reads == 1 && !write {
						ok := mrsw.UpgradeToWriter(name) == nil
						emit("mrsw", "ret", "op", "mrsw.upgrade", "owner", name, "ok", ok)
						if ok {
							reads, write = 0, true
						}
					}
				case 12, 13:
					chans = append(chans, rt.Subscribe(uint64(1+r.Intn(6))))
				case 14:
					rt.Signal(uint64(1 + r.Intn(6)))
				case 15:
					if len(chans) > 0 && r.Intn(2) == 0 {
						k := r.Intn(len(chans))
						rt.Unsubscribe(chans[k])
						chans = append(chans[:k], chans[k+1:]...)
					}
				}
				if r.Intn(4) == 0 {
					time.Sleep(time.Duration(r.Intn(200)) * time.Microsecond)
				}
			}
			if casHeld {
				cas.End()
			}
			for ; reads > 0; reads-- {
				mrsw.EndRead()
			}
			if write {
				mrsw.EndWrite()
			}
		}(g)
	}
	fin := make(chan struct{})
	go func() { wg.Wait(); close(fin) }()
	select {
	case <-fin:
		return 0
	case <-time.After(10 * time.Second):
	}
	// somebody is stuck: report every goroutine that sits in a blocking acquire
	n := 0
	for g := 0; g < G; g++ {
		if done[g].Load() {
			continue
		}
		if k, _ := blocked[g].Load().(string); k != "" {
			emit("mrsw", "stuck", "kind", k, "owner", fmt.Sprintf("g%d", g+1))
			n++
		}
	}
	return n
}

func syncSeqRT(rng *rand.Rand, nops int) {
	rt := rsync.NewReadyTarget[uint64]()
	vhook.Name(rt, "rt")
	type sub struct {
		id     int
		target uint64
		ch     <-chan struct{}
		live   bool
	}
	var subs []*sub
	observe := func() {
		for _, s := range subs {
			closed := false
			select {
			case <-s.ch:
				closed = true
			default:
			}
			emit("rt", "obs.chan", "id", s.id, "target", s.target, "closed", closed)
		}
	}
	for i := 0; i < nops; i++ {
		switch k := rng.Intn(10); {
		case k < 4:
			t := uint64(1 + rng.Intn(6))
			subs = append(subs, &sub{id: len(subs) + 1, target: t, ch: rt.Subscribe(t), live: true})
		case k < 8:
			rt.Signal(uint64(1 + rng.Intn(6)))
		case k < 9:
			if len(subs) > 0 {
				rt.Unsubscribe(subs[rng.Intn(len(subs))].ch)
			}
		default:
			if rng.Intn(3) == 0 {
				rt.Reset()
			}
		}
		observe()
	}
}
