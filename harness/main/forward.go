package main

// forward-trace (C20): every request kind sent over HTTP to every node of a live 3-node cluster
// with a credential store, with and without redirect, with sufficient and insufficient
// credentials, on a stable leader and while leadership is being transferred.  One request at a
// time; hooks in proxy / cluster service / FSM show the steps taken.  See TraceForward.tla.

import (
	"encoding/json"
	"flag"
	"fmt"
	"os"
	"strings"
	"time"

	"github.com/rqlite/rqlite/v10/internal/vhook"
)

func init() { register("forward-trace", forwardTrace) }

func fwdFilter(e vhook.Event) bool {
	switch {
	case strings.HasPrefix(e.Ev, "px."), strings.HasPrefix(e.Ev, "cl."), e.Ev == "fsm.apply", strings.HasPrefix(e.Ev, "c."), e.Ev == "reset", e.Ev == "note":
		return true
	}
	return false
}

type fwdUser struct {
	name, pw string
	perms    map[string]bool
}

func forwardTrace(args []string) error {
	fs := flag.NewFlagSet("forward-trace", flag.ExitOnError)
	out := fs.String("out", "forward.ndjson", "trace file")
	rounds := fs.Int("rounds", 1, "rounds of the stable matrix")
	churn := fs.Int("churn", 20, "requests sent while leadership is being transferred")
	base := fs.String("dir", "", "scratch dir")
	fs.Parse(args)
	if *base == "" {
		*base, _ = os.MkdirTemp("", "vfw")
		defer os.RemoveAll(*base)
	}
	w, err := newND(*out)
	if err != nil {
		return err
	}
	traceTo(w, fwdFilter)
	defer traceOff()
	users := []fwdUser{
		{"good", "pw1", map[string]bool{"all": true}},
		{"ro", "pw2", map[string]bool{"query": true}},
	}
	cs := &credStore{users: map[string]string{}, perms: map[string]map[string]bool{}}
	for _, u := range users {
		cs.users[u.name] = u.pw
		cs.perms[u.name] = u.perms
	}
	emit("", "reset")
	c, err := newCluster(vClusterOpts{N: 3, Base: *base, Creds: cs})
	if err != nil {
		return err
	}
	defer c.Close()
	l := c.Leader(10 * time.Second)
	if _, _, err := sExec(l.Store, false, "CREATE TABLE f(id INTEGER PRIMARY KEY, v TEXT)", "INSERT INTO f VALUES(1,'one')"); err != nil {
		return err
	}
	c.WaitConverged(10 * time.Second)
	rng := newRand(20)
	nextID := 100
	op := 0
	acked := map[int]bool{}
	written := []int{}
	stats := map[string]int{}
	kinds := []string{"execute", "qstrong", "qweak", "qlin", "qnone", "request"}
	need := map[string]string{"execute": "execute", "qstrong": "query", "qweak": "query", "qlin": "query", "qnone": "query", "request": "execute"}

	doOne := func(n *vNode, kind string, redirect bool, u fwdUser, churning bool) {
		l := c.Leader(10 * time.Second)
		if l == nil {
			return
		}
		op++
		nextID++
		id := nextID
		var ep, q string
		var body any
		switch kind {
		case "execute":
			ep, body = "execute", []string{fmt.Sprintf("INSERT INTO f VALUES(%d,'v%d')", id, id)}
		case "request":
			ep, body = "request", []string{fmt.Sprintf("INSERT INTO f VALUES(%d,'v%d')", id, id), "SELECT v FROM f WHERE id=1"}
		default:
			ep, body = "query", []string{"SELECT v FROM f WHERE id=1"}
			q = "level=" + map[string]string{"qstrong": "strong", "qweak": "weak", "qlin": "linearizable", "qnone": "none"}[kind] + "&"
		}
		q += "raft_index&timeout=5s"
		if redirect {
			q += "&redirect"
		}
		allowed := u.perms["all"] || u.perms[need[kind]]
		if kind == "request" {
			allowed = u.perms["all"] || (u.perms["execute"] && u.perms["query"])
		}
		emit("", "c.req", "op", op, "kind", kind, "redirect", redirect, "user", u.name, "pw", u.pw, "allowed", allowed, "churn", churning,
			"atid", n.ID, "atapi", n.APIAddr, "leaderid", l.ID, "leaderapi", l.APIAddr, "leaderraft", l.Addr)
		b, _ := json.Marshal(body)
		resp, err := httpDo("POST", "http://"+n.APIAddr+"/db/"+ep+"?"+q, b, "application/json", u.name, u.pw)
		status, servedBy, location, resok, raftIdx := 0, "", "", false, uint64(0)
		bodyValid, bodyErr := false, ""
		if err == nil {
			status = resp.Status
			servedBy = resp.Header.Get("X-Rqlite-Served-By")
			location = resp.Header.Get("Location")
			if i := strings.Index(location, "/db/"); i >= 0 {
				location = location[:i]
			}
			location = strings.TrimPrefix(location, "http://")
			var parsed struct {
				Results []struct {
					Error        string  `json:"error"`
					LastInsertID int     `json:"last_insert_id"`
					RowsAffected int     `json:"rows_affected"`
					Values       [][]any `json:"values"`
				} `json:"results"`
				Error     string `json:"error"`
				RaftIndex uint64 `json:"raft_index"`
			}
			if status == 200 && json.Unmarshal(resp.Body, &parsed) == nil {
				// a 200 answer must say something: results, or an error
				bodyErr = parsed.Error
				for _, r := range parsed.Results {
					if r.Error != "" && bodyErr == "" {
						bodyErr = r.Error
					}
				}
				bodyValid = len(parsed.Results) > 0 || parsed.Error != ""
			}
			if status == 200 && bodyValid && parsed.Error == "" {
				raftIdx = parsed.RaftIndex
				rs := parsed.Results
				switch kind {
				case "execute":
					resok = len(rs) == 1 && rs[0].Error == "" && rs[0].LastInsertID == id && rs[0].RowsAffected == 1
				case "request":
					resok = len(rs) == 2 && rs[0].Error == "" && rs[0].LastInsertID == id && rs[0].RowsAffected == 1 &&
						len(rs[1].Values) == 1 && fmt.Sprint(rs[1].Values[0][0]) == "one"
				default:
					resok = len(rs) == 1 && rs[0].Error == "" && len(rs[0].Values) == 1 && fmt.Sprint(rs[0].Values[0][0]) == "one"
				}
			}
		}
		if kind == "execute" || kind == "request" {
			written = append(written, id)
			if resok {
				acked[id] = true
			}
		}
		stats[fmt.Sprintf("status%d", status)]++
		// a spontaneous election during the request (loaded machine) makes it a churn request
		l2 := c.Leader(10 * time.Second)
		moved := l2 == nil || l2.ID != l.ID || !l.Store.IsLeader()
		emit("", "c.resp", "op", op, "status", status, "servedby", servedBy, "location", location, "resok", resok, "raftidx", raftIdx, "moved", moved, "bodyvalid", bodyValid, "bodyerr", bodyErr)
		c.WaitConverged(10 * time.Second)
	}

	for r := 0; r < *rounds; r++ {
		for _, kind := range kinds {
			for _, n := range c.nodes {
				for _, rd := range []bool{false, true} {
					for _, u := range users {
						doOne(n, kind, rd, u, false)
						stats["stable"]++
					}
				}
			}
		}
		// move the leader so that the next round (and the churn phase) sees other roles
		if l := c.Leader(5 * time.Second); l != nil {
			l.Store.Stepdown(true, "")
			c.Leader(10 * time.Second)
			time.Sleep(300 * time.Millisecond)
		}
	}
	for i := 0; i < *churn; i++ {
		l := c.Leader(10 * time.Second)
		if l == nil {
			break
		}
		fl := c.Followers()
		if len(fl) == 0 {
			continue
		}
		to := fl[rng.Intn(len(fl))]
		emit("", "note", "churn", "transfer", "from", l.ID, "to", to.ID)
		go l.Store.Stepdown(false, to.ID)
		time.Sleep(time.Duration(rng.Intn(30)) * time.Millisecond)
		n := c.nodes[rng.Intn(len(c.nodes))]
		kind := []string{"execute", "request", "qstrong", "execute"}[rng.Intn(4)]
		doOne(n, kind, false, users[0], true)
		stats["churn"]++
		time.Sleep(100 * time.Millisecond)
	}
	// final: every written value is present at most once, acknowledged ones exactly once
	l = c.Leader(10 * time.Second)
	if l != nil {
		for _, id := range written {
			rows, err := sQuery(l.Store, 3 /* strong */, fmt.Sprintf("SELECT count(*) FROM f WHERE id=%d", id))
			if err != nil || rows[0].Error != "" {
				continue
			}
			emit("", "c.final", "id", id, "count", rows[0].Values[0].Parameters[0].GetI(), "acked", acked[id])
		}
	}
	traceOff()
	if err := w.Close(); err != nil {
		return err
	}
	b, _ := json.Marshal(stats)
	fmt.Println(string(b))
	return nil
}
