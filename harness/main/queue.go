package main

import (
	"flag"
	"fmt"
	"math/rand"
	"sync"
	"sync/atomic"
	"time"

	"github.com/rqlite/rqlite/v10/internal/vhook"
	"github.com/rqlite/rqlite/v10/queue"
)

func init() { register("queue-trace", queueTrace) }

// queueTrace runs concurrent writers, flushers and a consumer against the real
// queue.Queue and records hook + harness events.  Sequence numbers (UnixNano based)
// are rebased per run so that they fit TLC's integers.
func queueTrace(args []string) error {
	fs := flag.NewFlagSet("queue-trace", flag.ExitOnError)
	out := fs.String("out", "trace.ndjson", "")
	runs := fs.Int("runs", 30, "")
	writes := fs.Int("writes", 12, "")
	fs.Parse(args)
	w, err := newND(*out)
	if err != nil {
		return err
	}
	var base atomic.Int64
	rebase := func(v any) any {
		switch n := v.(type) {
		case int64:
			return n - base.Load()
		}
		return v
	}
	vhook.SetSink(func(e vhook.Event) {
		m := make(map[string]any, len(e.KV)+2)
		for k, v := range e.KV {
			m[k] = v
		}
		if e.Ev == "q.write" && base.Load() == 0 {
			base.Store(m["seq"].(int64) - 1)
		}
		if s, ok := m["seq"]; ok {
			m["seq"] = rebase(s)
		}
		m["ev"] = e.Ev
		w.Write(m)
	})
	stuck := 0
	for r := 0; r < *runs; r++ {
		rng := newRand(int64(r))
		base.Store(0)
		w.Write(map[string]any{"ev": "reset", "run": r})
		if !queueRun(rng, *writes) {
			stuck++
		}
	}
	vhook.SetSink(nil)
	if err := w.Close(); err != nil {
		return err
	}
	fmt.Printf("{\"runs\":%d,\"events\":%d,\"stuck\":%d}\n", *runs, w.n, stuck)
	return nil
}

func queueRun(rng *rand.Rand, nwrites int) bool {
	const batchSize = 3
	timeout := time.Duration(1+rng.Intn(4)) * time.Millisecond
	q := queue.New[int](1+rng.Intn(4), batchSize, timeout)
	defer q.Close()
	const W = 3
	var wg sync.WaitGroup
	var nextObj atomic.Int64
	var total atomic.Int64
	// consumer
	stop := make(chan struct{})
	consumed := make(chan int, 1024)
	cseed := rng.Int63()
	go func() {
		r := rand.New(rand.NewSource(cseed))
		for {
			select {
			case req := <-q.C:
				emit("q", "c.recv", "seq", req.SequenceNumber, "objs", req.Objects)
				if r.Intn(3) == 0 {
					time.Sleep(time.Duration(r.Intn(1500)) * time.Microsecond)
				}
				emit("q", "c.closing", "seq", req.SequenceNumber)
				req.Close()
				consumed <- len(req.Objects)
			case <-stop:
				return
			}
		}
	}()
	var fwg sync.WaitGroup
	for g := 0; g < W; g++ {
		wg.Add(1)
		seed := rng.Int63()
		go func() {
			defer wg.Done()
			r := rand.New(rand.NewSource(seed))
			for i := 0; i < nwrites; i++ {
				n := 1 + r.Intn(3)
				objs := make([]int, n)
				for k := range objs {
					objs[k] = int(nextObj.Add(1))
				}
				var fc queue.FlushChannel
				if r.Intn(2) == 0 {
					fc = make(queue.FlushChannel)
				}
				seq, err := q.Write(objs, fc)
				if err != nil {
					return
				}
				total.Add(int64(n))
				emit("q", "w.ret", "seq", seq, "objs", objs)
				if fc != nil {
					fwg.Add(1)
					go func() {
						defer fwg.Done()
						<-fc
						emit("q", "fc.closed", "seq", seq)
					}()
				}
				switch r.Intn(6) {
				case 0:
					emit("q", "flush.call")
					q.Flush()
				case 1, 2:
					time.Sleep(time.Duration(r.Intn(3000)) * time.Microsecond)
				}
			}
		}()
	}
	wg.Wait()
	emit("q", "flush.call")
	q.Flush()
	// wait until everything written has been consumed and every flush channel closed
	got := int64(0)
	deadline := time.After(10 * time.Second)
	for got < total.Load() {
		select {
		case n := <-consumed:
			got += int64(n)
		case <-deadline:
			close(stop)
			return false
		}
	}
	done := make(chan struct{})
	go func() { fwg.Wait(); close(done) }()
	select {
	case <-done:
	case <-time.After(10 * time.Second):
		close(stop)
		return false
	}
	close(stop)
	emit("q", "drained")
	return true
}
