package main

// load-cluster (C22): histories of writes, loads of generated databases (WAL and DELETE mode files),
// invalid loads, SQL-text loads, snapshots with log truncation, follower restarts and late joiners
// on a live 3-node cluster, plus a boot on a single node.  After every step the projection of EVERY
// node is written as a `state` line; TraceSnapshotting.tla requires each to be the acknowledged
// history applied once (a refused load changes nothing anywhere).

import (
	"context"
	"database/sql"
	"encoding/json"
	"flag"
	"fmt"
	"os"
	"path/filepath"
	"strings"
	"time"

	"github.com/rqlite/rqlite/v10/command/proto"
)

func init() { register("load-cluster", loadCluster) }

func makeLoadBytes(dir string, val int64, walMode bool) ([]byte, error) {
	p := filepath.Join(dir, fmt.Sprintf("mk-%d-%d.sqlite", val, time.Now().UnixNano()))
	if err := makeLoadFile(p, val); err != nil {
		return nil, err
	}
	defer os.Remove(p)
	if walMode {
		db, err := sql.Open("sqlite3", p)
		if err != nil {
			return nil, err
		}
		if _, err := db.Exec("PRAGMA journal_mode=WAL"); err != nil {
			db.Close()
			return nil, err
		}
		db.Exec("PRAGMA wal_checkpoint(TRUNCATE)")
		db.Close()
		os.Remove(p + "-wal")
		os.Remove(p + "-shm")
	}
	return os.ReadFile(p)
}

func loadCluster(args []string) error {
	fs := flag.NewFlagSet("load-cluster", flag.ExitOnError)
	out := fs.String("out", "load.ndjson", "trace")
	runs := fs.Int("runs", 2, "histories")
	steps := fs.Int("steps", 10, "steps per history")
	base := fs.String("dir", "", "scratch dir")
	fs.Parse(args)
	if *base == "" {
		*base, _ = os.MkdirTemp("", "vld")
		defer os.RemoveAll(*base)
	}
	w, err := newND(*out)
	if err != nil {
		return err
	}
	defer w.Close()
	stats := map[string]int{}
	for run := 0; run < *runs; run++ {
		rng := newRand(int64(run)*131 + 22)
		w.Write(map[string]any{"ev": "reset", "case": fmt.Sprintf("cluster%d", run)})
		rdir := filepath.Join(*base, fmt.Sprintf("r%d", run))
		c, err := newCluster(vClusterOpts{N: 3, Base: rdir})
		if err != nil {
			return err
		}
		err = func() error {
			defer c.Close()
			l := c.Leader(15 * time.Second)
			stm := []string{"CREATE TABLE t(tag INTEGER)"}
			for k := 1; k <= snapPages; k++ {
				stm = append(stm, fmt.Sprintf("CREATE TABLE p%d(id INTEGER PRIMARY KEY, v INTEGER)", k), fmt.Sprintf("INSERT INTO p%d VALUES(1,0)", k))
			}
			if _, _, err := sExec(l.Store, true, stm...); err != nil {
				return err
			}
			opn, joined := 0, 0
			states := func(why string) {
				c.WaitConverged(20 * time.Second)
				// raft's applied index only says the entries were handed to the FSM goroutine: wait for the databases
				if ld := c.Leader(10 * time.Second); ld != nil {
					want := ld.Store.DBAppliedIndex()
					for dl := time.Now().Add(15 * time.Second); time.Now().Before(dl); time.Sleep(10 * time.Millisecond) {
						behind := false
						for _, n := range c.nodes {
							if !n.stopped && n.Store.DBAppliedIndex() < want {
								behind = true
							}
						}
						if !behind {
							break
						}
					}
				}
				for _, n := range c.nodes {
					if n.stopped {
						continue
					}
					st := snapProject(n.Store, proto.ConsistencyLevel_NONE)
					w.Write(map[string]any{"ev": "state", "why": why, "node": n.ID, "pages": st.Pages, "rows": st.Rows, "sum": st.Sum, "err": st.Err})
				}
			}
			states("init")
			kinds := []string{"w", "load", "w", "badload", "snap", "w", "restart", "sqlload", "join", "w", "load-delete", "snap", "badload-garbage", "w"}
			for i := 0; i < *steps; i++ {
				kind := kinds[i%len(kinds)]
				if i >= len(kinds) {
					kind = kinds[rng.Intn(len(kinds))]
				}
				l = c.Leader(15 * time.Second)
				if l == nil {
					return fmt.Errorf("no leader")
				}
				stats[kind]++
				switch kind {
				case "w":
					opn++
					pages := [][]int{{1}, {2}, {1, 2}}[rng.Intn(3)]
					var q []string
					for _, k := range pages {
						q = append(q, fmt.Sprintf("UPDATE p%d SET v=v+1 WHERE id=1", k))
					}
					q = append(q, fmt.Sprintf("INSERT INTO t(tag) VALUES(%d)", opn))
					w.Write(map[string]any{"ev": "inv", "k": "w", "pages": pages, "n": opn})
					rs, _, err := sExec(l.Store, true, q...)
					ok := err == nil
					for _, r := range rs {
						if r.GetError() != "" {
							ok = false
						}
					}
					w.Write(map[string]any{"ev": "ack", "k": "w", "pages": pages, "n": opn, "ok": ok})
				case "load", "load-delete":
					opn++
					b, err := makeLoadBytes(rdir, int64(10*opn), kind == "load")
					if err != nil {
						return err
					}
					w.Write(map[string]any{"ev": "inv", "k": "L", "pages": []int{}, "n": opn})
					// through a follower's HTTP API: forwarded to the leader
					f := c.Followers()[0]
					resp, err := httpDo("POST", "http://"+f.APIAddr+"/db/load", b, "application/octet-stream", "", "")
					ok := err == nil && resp.Status == 200
					es := ""
					if !ok && resp != nil {
						es = string(resp.Body)
					}
					w.Write(map[string]any{"ev": "ack", "k": "L", "pages": []int{}, "n": opn, "ok": ok, "err": es})
				case "badload", "badload-garbage":
					opn++
					b, err := makeLoadBytes(rdir, int64(10*opn), false)
					if err != nil {
						return err
					}
					from := 100
					if kind == "badload-garbage" {
						from = 0
					}
					for j := from; j < len(b); j++ {
						b[j] = byte(0xA5 ^ j)
					}
					w.Write(map[string]any{"ev": "inv", "k": "LB", "pages": []int{}, "n": opn})
					err = l.Store.Load(context.Background(), &proto.LoadRequest{Data: b})
					es := ""
					if err != nil {
						es = err.Error()
					}
					w.Write(map[string]any{"ev": "ack", "k": "LB", "pages": []int{}, "n": opn, "ok": err == nil, "err": es})
				case "sqlload":
					// SQL text load: replaces nothing, executes the statements (here: one more write as a dump fragment)
					opn++
					w.Write(map[string]any{"ev": "inv", "k": "w", "pages": []int{1}, "n": opn})
					body := fmt.Sprintf("UPDATE p1 SET v=v+1 WHERE id=1;\nINSERT INTO t(tag) VALUES(%d);\n", opn)
					resp, err := httpDo("POST", "http://"+l.APIAddr+"/db/load", []byte(body), "text/plain", "", "")
					ok := err == nil && resp.Status == 200 && !strings.Contains(string(resp.Body), "\"error\"")
					w.Write(map[string]any{"ev": "ack", "k": "w", "pages": []int{1}, "n": opn, "ok": ok})
				case "snap":
					for _, n := range c.nodes {
						if !n.stopped {
							n.Store.Snapshot(1) // leaves one trailing log: later joiners need the snapshot
						}
					}
				case "restart":
					fl := c.Followers()
					v := fl[rng.Intn(len(fl))]
					nv, err := v.Restart()
					if err != nil {
						return fmt.Errorf("restart: %w", err)
					}
					for j := range c.nodes {
						if c.nodes[j] == v {
							c.nodes[j] = nv
						}
					}
				case "join":
					if joined >= 2 {
						continue
					}
					joined++
					id := fmt.Sprintf("j%d", joined)
					dir := filepath.Join(rdir, id)
					os.MkdirAll(dir, 0755)
					n, err := startNode(c.nw, vNodeOpts{ID: id, Dir: dir})
					if err != nil {
						return err
					}
					if err := l.Store.Join(&proto.JoinRequest{Id: id, Address: n.Addr, Voter: joined == 1}); err != nil {
						n.Stop()
						return fmt.Errorf("join: %w", err)
					}
					c.nodes = append(c.nodes, n)
					n.Store.WaitForLeader(15 * time.Second)
				}
				states(kind)
			}
			return nil
		}()
		if err != nil {
			w.Write(map[string]any{"ev": "note", "err": err.Error()})
			stats["errors"]++
		}
	}
	b, _ := json.Marshal(stats)
	fmt.Println(string(b))
	return nil
}
