package main

// C37 driver: the REAL backup.Uploader with the REAL store.Provider on a real single-node
// store, an in-memory StorageClient that can fail / be slow / lose its answer, and writers
// using the versioned-pages workload.  Every uploaded object is restored (gunzip when
// compressed), integrity-checked and projected.  Two modes, both recorded as one ordered
// trace (hook recorder) that TraceUploader.tla validates:
//   scripted   every sequence of a given length over an alphabet of steps (write, non-changing
//              entry, round ok / failing / failing-after-store / failing id check, round with a
//              write injected between index read and provide, after provide, during provide,
//              restart of the uploader), rounds driven by manual ticks;
//   concurrent the uploader's own ticker loop (Start) with a short interval against concurrent
//              writers, random storage faults and uploader restarts.
// Each run ends with quiescence + one healthy round and the comparison remote == database.

import (
	"bytes"
	"compress/gzip"
	"context"
	"encoding/json"
	"errors"
	"expvar"
	"flag"
	"fmt"
	"io"
	"math/rand"
	"os"
	"path/filepath"
	"sort"
	"strconv"
	"strings"
	"sync"
	"sync/atomic"
	"time"

	"github.com/rqlite/rqlite/v10/auto/backup"
	"github.com/rqlite/rqlite/v10/command/proto"
	"github.com/rqlite/rqlite/v10/db"
	"github.com/rqlite/rqlite/v10/internal/vhook"
	"github.com/rqlite/rqlite/v10/store"
)

func init() { register("uploader-trace", uploaderTrace) }

const upNPages = 6

type upWrite struct {
	Ver   int64
	Pages []int
	Idx   uint64
}

type upProj map[string]int64 // table -> version

// upWorld is one store plus the bookkeeping of the workload.
type upWorld struct {
	node *vNode
	s    *store.Store
	dir  string
	base uint64 // dbAppliedIdx after set-up

	verN atomic.Int64
	mu   sync.Mutex
	wr   []*upWrite // acknowledged writes
	nq   int
	fail error // first fatal harness-side error (write failed, ...)

	evmu   sync.Mutex
	events []map[string]any
	starts int
	ends   int
	lastEnd string
	projs  []upProj // projection of upload number n (nil = unreadable)
	perr   []string
	stats  map[string]int
	scratch string
}

func (w *upWorld) setFail(err error) {
	w.mu.Lock()
	if w.fail == nil {
		w.fail = err
	}
	w.mu.Unlock()
}

func upKeep(ev string) bool {
	for _, p := range []string{"up.", "prov.", "sc.", "w.", "q."} {
		if strings.HasPrefix(ev, p) {
			return true
		}
	}
	return ev == "reset" || ev == "restart" || ev == "quiesce"
}

func (w *upWorld) install() {
	vhook.SetSink(func(e vhook.Event) {
		if !upKeep(e.Ev) {
			return
		}
		m := make(map[string]any, len(e.KV)+1)
		for k, v := range e.KV {
			m[k] = v
		}
		m["ev"] = e.Ev
		w.evmu.Lock()
		w.events = append(w.events, m)
		switch e.Ev {
		case "prov.li.call":
			w.starts++
		case "up.skip", "up.skipid", "up.ok", "up.fail", "up.provfail":
			w.ends++
			w.lastEnd = e.Ev
		}
		w.stats[e.Ev]++
		w.evmu.Unlock()
	})
}

func (w *upWorld) counts() (int, int, string) {
	w.evmu.Lock()
	defer w.evmu.Unlock()
	return w.starts, w.ends, w.lastEnd
}

func upTables() []string {
	t := []string{"head"}
	for i := 0; i < upNPages; i++ {
		t = append(t, fmt.Sprintf("p_%d", i))
	}
	return t
}

func upProjQuery() string {
	var parts []string
	for _, t := range upTables() {
		parts = append(parts, fmt.Sprintf("SELECT '%s', v FROM %s", t, t))
	}
	return strings.Join(parts, " UNION ALL ")
}

func newUpWorld(dir string) (*upWorld, error) {
	c, err := newCluster(vClusterOpts{N: 1, Base: dir, NoHTTP: true})
	if err != nil {
		return nil, err
	}
	w := &upWorld{node: c.nodes[0], s: c.nodes[0].Store, dir: dir, stats: map[string]int{}, scratch: filepath.Join(dir, "restore")}
	os.MkdirAll(w.scratch, 0755)
	var sqls []string
	for _, t := range upTables() {
		sqls = append(sqls, fmt.Sprintf("CREATE TABLE %s (v INTEGER NOT NULL, pad TEXT)", t))
		sqls = append(sqls, fmt.Sprintf("INSERT INTO %s(v, pad) VALUES(0, '%s')", t, strings.Repeat("i", 1500)))
	}
	res, _, err := sExec(w.s, true, sqls...)
	if err != nil {
		return nil, err
	}
	for _, r := range res {
		if e := r.GetError(); e != "" {
			return nil, errors.New(e)
		}
		if e := r.GetE(); e != nil && e.Error != "" {
			return nil, errors.New(e.Error)
		}
	}
	w.base = w.s.DBAppliedIndex()
	return w, nil
}

func (w *upWorld) close() { w.node.Stop() }

// write performs one versioned-pages write (a transaction stamping a fresh version on the head
// row and on 1..3 page tables) and records the raft index it was given.
func (w *upWorld) write(rng *rand.Rand) {
	ver := w.verN.Add(1)
	np := 1 + rng.Intn(3)
	perm := rng.Perm(upNPages)[:np]
	sort.Ints(perm)
	pad := strings.Repeat(string(rune('a'+ver%26)), 200+rng.Intn(2600))
	sqls := []string{fmt.Sprintf("UPDATE head SET v=%d", ver)}
	for _, p := range perm {
		sqls = append(sqls, fmt.Sprintf("UPDATE p_%d SET v=%d, pad='%s'", p, ver, pad))
	}
	emit("h", "w.call", "ver", ver)
	res, idx, err := sExec(w.s, true, sqls...)
	if err == nil {
		for _, r := range res {
			if e := r.GetError(); e != "" {
				err = errors.New(e)
			} else if x := r.GetE(); x == nil || x.Error != "" || x.RowsAffected != 1 {
				err = fmt.Errorf("unexpected execute result %v", r)
			}
		}
	}
	if err != nil {
		w.setFail(fmt.Errorf("write ver %d failed: %w", ver, err))
		return
	}
	w.mu.Lock()
	w.wr = append(w.wr, &upWrite{Ver: ver, Pages: perm, Idx: idx})
	w.mu.Unlock()
	emit("h", "w.ret", "ver", ver, "idx", idx)
}

var upQN atomic.Int64

// nonChanging sends a query through the raft log: the FSM index advances, the database does not change.
func (w *upWorld) nonChanging() {
	n := upQN.Add(1)
	emit("h", "q.call", "n", n)
	_, _, idx, err := w.s.Query(context.Background(), &proto.QueryRequest{Request: stmts("SELECT v FROM head"),
		Level: proto.ConsistencyLevel_STRONG})
	if err != nil {
		w.setFail(fmt.Errorf("strong query failed: %w", err))
		return
	}
	w.mu.Lock()
	w.nq++
	w.mu.Unlock()
	emit("h", "q.ret", "n", n, "idx", idx)
}

// ---------------------------------------------------------------- projection of a SQLite image

func (w *upWorld) projectLive() (upProj, error) {
	rows, err := sQuery(w.s, proto.ConsistencyLevel_NONE, upProjQuery())
	if err != nil {
		return nil, err
	}
	if rows[0].Error != "" {
		return nil, errors.New(rows[0].Error)
	}
	p := upProj{}
	for _, v := range rows[0].Values {
		p[v.Parameters[0].GetS()] = v.Parameters[1].GetI()
	}
	return p, nil
}

var upRestoreN atomic.Int64

// projectBytes restores an uploaded object into a scratch SQLite file and projects it.
func (w *upWorld) projectBytes(b []byte) (upProj, bool, error) {
	gz := len(b) >= 2 && b[0] == 0x1f && b[1] == 0x8b
	if gz {
		zr, err := gzip.NewReader(bytes.NewReader(b))
		if err != nil {
			return nil, gz, fmt.Errorf("gunzip: %w", err)
		}
		zr.Multistream(true)
		ub, err := io.ReadAll(zr)
		if err != nil {
			return nil, gz, fmt.Errorf("gunzip: %w", err)
		}
		b = ub
	}
	path := filepath.Join(w.scratch, fmt.Sprintf("r%d.db", upRestoreN.Add(1)))
	if err := os.WriteFile(path, b, 0644); err != nil {
		return nil, gz, err
	}
	defer func() {
		os.Remove(path)
		os.Remove(path + "-wal")
		os.Remove(path + "-shm")
	}()
	if !db.IsValidSQLiteFile(path) {
		return nil, gz, errors.New("not a SQLite file")
	}
	d, err := db.Open(path, false, false)
	if err != nil {
		return nil, gz, fmt.Errorf("open: %w", err)
	}
	defer d.Close()
	rows, err := d.QueryStringStmt("PRAGMA integrity_check")
	if err != nil {
		return nil, gz, err
	}
	if rows[0].Error != "" || len(rows[0].Values) != 1 || rows[0].Values[0].Parameters[0].GetS() != "ok" {
		return nil, gz, fmt.Errorf("integrity_check: %v", rows[0])
	}
	rows, err = d.QueryStringStmt(upProjQuery())
	if err != nil {
		return nil, gz, err
	}
	if rows[0].Error != "" {
		return nil, gz, errors.New(rows[0].Error)
	}
	p := upProj{}
	for _, v := range rows[0].Values {
		p[v.Parameters[0].GetS()] = v.Parameters[1].GetI()
	}
	if len(p) != upNPages+1 {
		return nil, gz, fmt.Errorf("projection has %d tables", len(p))
	}
	return p, gz, nil
}

// ---------------------------------------------------------------- provider wrapper (call/return events)

type upProvider struct {
	p                             *store.Provider
	afterRead, before, afterwards func() // scripted injections (nil = none)
}

func (p *upProvider) LastIndex() (uint64, error) {
	emit("h", "prov.li.call")
	li, err := p.p.LastIndex()
	if f := p.afterRead; f != nil {
		f()
	}
	return li, err
}

func (p *upProvider) Provide(ws io.WriteSeeker) error {
	emit("h", "prov.begin")
	if f := p.before; f != nil {
		f()
	}
	err := p.p.Provide(ws)
	emit("h", "prov.end", "ok", err == nil)
	if f := p.afterwards; f != nil {
		f()
	}
	return err
}

// ---------------------------------------------------------------- storage double

type upPlan struct {
	fail    bool // Upload returns an error
	applied bool // ... although the object reached the storage
	idFail  bool // CurrentID returns an error
	slow    time.Duration
}

type upStorage struct {
	w    *upWorld
	mu   sync.Mutex
	has  bool
	id   string
	data []byte
	n    int // uploads seen
	plan func() upPlan
	cur  upPlan
}

func (s *upStorage) String() string { return "verif-memory-storage" }

func upIDNum(id string) int64 {
	if id == "" {
		return 0
	}
	n, err := strconv.ParseInt(id, 10, 64)
	if err != nil {
		return -1
	}
	return n
}

func (s *upStorage) CurrentID(ctx context.Context) (string, error) {
	s.mu.Lock()
	defer s.mu.Unlock()
	s.cur = s.plan() // one plan per round that gets this far
	if s.cur.idFail {
		emit("h", "sc.curid", "idn", int64(0), "ok", false)
		return "", errors.New("injected: storage unavailable")
	}
	emit("h", "sc.curid", "idn", upIDNum(s.id), "ok", true)
	return s.id, nil
}

func (s *upStorage) Upload(ctx context.Context, r io.Reader, id string) error {
	s.mu.Lock()
	defer s.mu.Unlock()
	pl := s.cur
	if pl == (upPlan{}) {
		pl = s.plan()
	}
	s.cur = upPlan{}
	if pl.slow > 0 {
		time.Sleep(pl.slow)
	}
	b, err := io.ReadAll(r)
	if err != nil {
		return err
	}
	proj, gz, perr := s.w.projectBytes(b)
	s.w.evmu.Lock()
	un := len(s.w.projs)
	s.w.projs = append(s.w.projs, proj)
	pe := ""
	if perr != nil {
		pe = perr.Error()
	}
	s.w.perr = append(s.w.perr, pe)
	if gz {
		s.w.stats["uploads_gzip"]++
	}
	s.w.evmu.Unlock()
	s.n++
	if !pl.fail || pl.applied {
		s.has, s.id, s.data = true, id, b
	}
	emit("h", "sc.upload", "idn", upIDNum(id), "un", un, "ok", !pl.fail, "applied", !pl.fail || pl.applied,
		"readable", perr == nil, "bytes", len(b))
	if pl.fail {
		return errors.New("injected: upload failed")
	}
	return nil
}

// ---------------------------------------------------------------- one run = one uploader life-cycle on a fresh storage

type uplRun struct {
	w        *upWorld
	st       *upStorage
	prov     *upProvider
	u        *backup.Uploader
	vacuum   bool
	compress bool
}

func (w *upWorld) newRun(vacuum, compress bool, mode string, n int) *uplRun {
	r := &uplRun{w: w, vacuum: vacuum, compress: compress}
	r.st = &upStorage{w: w, plan: func() upPlan { return upPlan{} }}
	r.prov = &upProvider{p: store.NewProvider(w.s, vacuum, compress)}
	r.u = backup.NewUploader(r.st, r.prov, time.Hour)
	emit("h", "reset", "db", false, "base", int64(0), "run", n, "mode", mode, "vacuum", vacuum, "compress", compress)
	return r
}

func (r *uplRun) restart(interval time.Duration) {
	emit("h", "restart")
	r.u = backup.NewUploader(r.st, r.prov, interval)
}

// tick runs one round by hand.
func (r *uplRun) tick(pl upPlan) {
	r.st.plan = func() upPlan { return pl }
	r.st.cur = upPlan{}
	r.u.VerifUpload(context.Background())
}

// quiesce: storage healthy, one full round (retried when Provide itself failed), then remote == database.
func (r *uplRun) quiesceCheck() error {
	st := r.st
	st.mu.Lock()
	has, data, id := st.has, st.data, st.id
	st.mu.Unlock()
	live, err := r.w.projectLive()
	if err != nil {
		return err
	}
	eq, detail := false, ""
	if has {
		rp, _, perr := r.w.projectBytes(data)
		if perr != nil {
			detail = "remote unreadable: " + perr.Error()
		} else {
			eq = fmt.Sprint(rp) == fmt.Sprint(live)
			if !eq {
				detail = fmt.Sprintf("remote(id=%s)=%v live=%v", id, rp, live)
			}
		}
	} else {
		detail = "storage holds nothing"
	}
	emit("h", "quiesce", "eq", eq, "detail", detail, "idn", upIDNum(id))
	return nil
}

// ---------------------------------------------------------------- scripted mode

var upAlphabet = []string{"W", "Q", "R", "F", "A", "I", "Ri", "Rp", "Rd", "Rb", "X"}

// upGateWriter is the destination of a user-initiated backup that stalls inside the file copy,
// i.e. while Store.Backup holds the snapshot gate.
type upGateWriter struct {
	held, release chan struct{}
	once          sync.Once
}

func (g *upGateWriter) Write(b []byte) (int, error) {
	g.once.Do(func() { close(g.held); <-g.release })
	return len(b), nil
}

func upUserSnapshotsFailed() int64 {
	if m, ok := expvar.Get("store").(*expvar.Map); ok {
		if v, ok := m.Get("num_user_snapshots_failed").(*expvar.Int); ok {
			return v.Value()
		}
	}
	return -1
}

func (r *uplRun) script(seq []string, rng *rand.Rand) {
	w := r.w
	for _, s := range seq {
		r.prov.afterRead, r.prov.before, r.prov.afterwards = nil, nil, nil
		switch s {
		case "W":
			w.write(rng)
		case "Q":
			w.nonChanging()
		case "R":
			r.tick(upPlan{})
		case "F":
			r.tick(upPlan{fail: true})
		case "A":
			r.tick(upPlan{fail: true, applied: true})
		case "I":
			r.tick(upPlan{idFail: true})
		case "Ri": // a write lands between the index read and Provide
			r.prov.afterRead = func() { w.write(rng) }
			r.tick(upPlan{})
		case "Rp": // a write lands after Provide returned, before the upload
			r.prov.afterwards = func() { w.write(rng) }
			r.tick(upPlan{})
		case "Rd": // writes race with Provide
			stop, done := make(chan struct{}), make(chan struct{})
			wrng := rand.New(rand.NewSource(rng.Int63()))
			r.prov.before = func() {
				go func() {
					defer close(done)
					for {
						select {
						case <-stop:
							return
						default:
							w.write(wrng)
						}
					}
				}()
			}
			r.prov.afterwards = func() { close(stop); <-done }
			r.tick(upPlan{}) // (a round that skips never calls Provide: nothing is started)
		case "Rb":
			// a user-initiated backup holds the snapshot gate while the round runs and the WAL is not empty:
			// the provider's own Store.Backup fails ("pre-backup snapshot failed") and Provide retries it
			g := &upGateWriter{held: make(chan struct{}), release: make(chan struct{})}
			done := make(chan error, 1)
			go func() {
				done <- w.s.Backup(context.Background(), &proto.BackupRequest{Format: proto.BackupRequest_BACKUP_REQUEST_FORMAT_BINARY}, g)
			}()
			select {
			case <-g.held:
				w.write(rng)
				before := upUserSnapshotsFailed()
				go func() { time.Sleep(120 * time.Millisecond); close(g.release) }()
				r.tick(upPlan{})
				if upUserSnapshotsFailed() > before {
					w.evmu.Lock()
					w.stats["provide_retried"]++
					w.evmu.Unlock()
				}
				if err := <-done; err != nil {
					w.setFail(fmt.Errorf("user backup failed: %w", err))
				}
			case err := <-done:
				w.setFail(fmt.Errorf("user backup ended without writing: %v", err))
			case <-time.After(30 * time.Second):
				w.setFail(errors.New("user backup did not start copying within 30 s"))
			}
		case "X":
			r.restart(time.Hour)
		case "J":
			// NOT in the alphabet (membership changes are outside C37's quantifier); only reachable with -only.
			// A configuration entry is committed after the last write: raft then refuses to snapshot
			// ("wait until the configuration entry ... has been applied"), which Store.Backup tolerates.
			if err := w.s.Join(&proto.JoinRequest{Id: fmt.Sprintf("ghost%d", upQN.Add(1)), Address: fmt.Sprintf("127.0.0.1:%d", 1+upQN.Add(1)), Voter: false}); err != nil {
				w.setFail(fmt.Errorf("join: %w", err))
			}
		}
	}
	r.prov.afterRead, r.prov.before, r.prov.afterwards = nil, nil, nil
	// quiescence + healthy rounds until one completes (Provide may fail on its own), then compare
	for i := 0; i < 3; i++ {
		r.tick(upPlan{})
		if _, _, le := w.counts(); le != "up.provfail" {
			break
		}
	}
	r.quiesceCheck()
}

// ---------------------------------------------------------------- concurrent mode

func (r *uplRun) concurrent(rng *rand.Rand, rounds int, writers int) error {
	w := r.w
	interval := time.Duration(2+rng.Intn(4)) * time.Millisecond
	var prng = rand.New(rand.NewSource(rng.Int63()))
	var healthy atomic.Bool
	r.st.plan = func() upPlan { // called by the uploader goroutine only
		if healthy.Load() {
			return upPlan{}
		}
		pl := upPlan{}
		switch k := prng.Intn(20); {
		case k < 4:
			pl.fail = true
		case k < 6:
			pl.fail, pl.applied = true, true
		case k < 8:
			pl.idFail = true
		}
		if prng.Intn(3) == 0 {
			pl.slow = time.Duration(prng.Intn(6)) * time.Millisecond
		}
		return pl
	}
	stopW := make(chan struct{})
	var wg sync.WaitGroup
	for i := 0; i < writers; i++ {
		wg.Add(1)
		wr := rand.New(rand.NewSource(rng.Int63()))
		go func() {
			defer wg.Done()
			for {
				select {
				case <-stopW:
					return
				default:
				}
				switch k := wr.Intn(10); {
				case k < 6:
					w.write(wr)
				case k < 7:
					w.nonChanging()
				case k < 9:
					time.Sleep(time.Duration(wr.Intn(3000)) * time.Microsecond)
				default: // a longer pause so that rounds with no change occur
					time.Sleep(time.Duration(5+wr.Intn(25)) * time.Millisecond)
				}
			}
		}()
	}
	_, e0, _ := w.counts()
	start := func() (context.CancelFunc, chan struct{}) {
		ctx, cancel := context.WithCancel(context.Background())
		return cancel, r.u.Start(ctx, w.s.IsLeader)
	}
	r.u = backup.NewUploader(r.st, r.prov, interval)
	cancel, done := start()
	dl := time.Now().Add(120 * time.Second)
	nextRestart := e0 + 5 + rng.Intn(15)
	for {
		_, e, _ := w.counts()
		if e-e0 >= rounds || time.Now().After(dl) {
			break
		}
		if e >= nextRestart {
			cancel()
			<-done
			r.restart(interval)
			cancel, done = start()
			nextRestart = e + 5 + rng.Intn(15)
		}
		time.Sleep(time.Millisecond)
	}
	close(stopW)
	wg.Wait()
	healthy.Store(true)
	// one complete round that STARTED after quiescence and did not fail in Provide
	sT, _, _ := w.counts()
	dl = time.Now().Add(60 * time.Second)
	for {
		s, e, le := w.counts()
		if e >= sT+1 && s == e && le != "up.provfail" && le != "up.fail" {
			break
		}
		if e >= sT+1 && s == e {
			sT = s // the round after quiescence failed on its own (Provide / upload of an earlier plan): wait for another
		}
		if time.Now().After(dl) {
			cancel()
			<-done
			return errors.New("uploader made no complete round within 60 s after quiescence")
		}
		time.Sleep(time.Millisecond)
	}
	cancel()
	<-done
	return r.quiesceCheck()
}

// ---------------------------------------------------------------- post-processing: annotate events, resolve projections

// resolve returns j = the largest write index k such that the projection holds every change up
// to k, and whether the projection is exactly State(j).
type upResolver struct {
	base   uint64
	wr     []*upWrite        // sorted by index
	verIdx map[int64]uint64  // version -> index of its write (0 -> base)
	states []map[string]int64 // states[i] = State after wr[i]
}

func newUpResolver(base uint64, wr []*upWrite) *upResolver {
	sort.Slice(wr, func(i, j int) bool { return wr[i].Idx < wr[j].Idx })
	rs := &upResolver{base: base, wr: wr, verIdx: map[int64]uint64{0: base}}
	cur := map[string]int64{}
	for _, t := range upTables() {
		cur[t] = 0
	}
	for _, x := range wr {
		rs.verIdx[x.Ver] = x.Idx
		cur["head"] = x.Ver
		for _, p := range x.Pages {
			cur[fmt.Sprintf("p_%d", p)] = x.Ver
		}
		cp := make(map[string]int64, len(cur))
		for k, v := range cur {
			cp[k] = v
		}
		rs.states = append(rs.states, cp)
	}
	return rs
}

func (rs *upResolver) state(i int) map[string]int64 { // i = -1 -> initial
	if i < 0 {
		m := map[string]int64{}
		for _, t := range upTables() {
			m[t] = 0
		}
		return m
	}
	return rs.states[i]
}

func (rs *upResolver) resolve(p upProj) (j uint64, exact bool, err error) {
	for _, v := range p {
		if _, ok := rs.verIdx[v]; !ok {
			return 0, false, fmt.Errorf("version %d in the image was never acknowledged", v)
		}
	}
	holds := func(i int) bool {
		st := rs.state(i)
		for t, v := range st {
			if rs.verIdx[p[t]] < rs.verIdx[v] {
				return false
			}
		}
		return true
	}
	// monotone: holds(i) => holds(i-1); binary search for the last i that holds
	lo, hi := -1, len(rs.wr)-1 // holds(-1) is always true
	for lo < hi {
		mid := (lo + hi + 1) / 2
		if holds(mid) {
			lo = mid
		} else {
			hi = mid - 1
		}
	}
	st := rs.state(lo)
	exact = true
	for t, v := range st {
		if p[t] != v {
			exact = false
		}
	}
	if lo < 0 {
		return rs.base, exact, nil
	}
	return rs.wr[lo].Idx, exact, nil
}

func uploaderTrace(args []string) error {
	fs := flag.NewFlagSet("uploader-trace", flag.ExitOnError)
	out := fs.String("out", "trace.ndjson", "")
	seqlen := fs.Int("len", 3, "scripted: enumerate all sequences of this length")
	sample := fs.Int("sample", 0, "scripted: if >0 run only this many randomly chosen sequences per configuration (plus the witnesses)")
	crounds := fs.Int("crounds", 40, "concurrent: rounds per run")
	cruns := fs.Int("cruns", 1, "concurrent: runs per configuration")
	writers := fs.Int("writers", 3, "")
	only := fs.String("only", "", "run just this scripted sequence (comma separated) on a fresh store, with -vacuum / -compress")
	oVac := fs.Bool("vacuum", false, "")
	oComp := fs.Bool("compress", true, "")
	fs.Parse(args)
	quietLogs()
	if os.Getenv("VERIF_VERBOSE") == "" { // the Uploader logs every upload to os.Stderr (captured at NewUploader)
		if dn, err := os.OpenFile(os.DevNull, os.O_WRONLY, 0); err == nil {
			real := os.Stderr
			os.Stderr = dn
			defer func() { os.Stderr = real }()
		}
	}
	dir, err := os.MkdirTemp("", "uploader")
	if err != nil {
		return err
	}
	defer os.RemoveAll(dir)
	nd, err := newND(*out)
	if err != nil {
		return err
	}
	defer nd.Close()

	// witnesses of the negative controls of Uploader.tla, always run
	witnesses := [][]string{
		{"W", "Rp", "R"},           // IndexBeforeProvide: a write after the copy must not be covered by the label
		{"W", "R", "R", "Q", "R"},  // SkipIfUnchanged / IndexIsDBApplied: no upload without change
		{"W", "F", "R", "R"},       // RecordOnlyOnSuccess: failed upload retried
		{"W", "A", "R", "X", "R"},  // failed-but-stored upload, then restart
		{"W", "R", "X", "R", "W", "R"}, // CheckCurrentID: first round after restart asks the storage
		{"W", "R", "X", "I", "R"},  // id check fails after restart
		{"Rd", "Rd", "W", "Ri", "R"},
		{"W", "Rb", "R"}, // backup production with retries: the first attempt fails on the busy snapshot gate
	}
	var seqs [][]string
	var gen func(pre []string, n int)
	gen = func(pre []string, n int) {
		if n == 0 {
			seqs = append(seqs, append([]string(nil), pre...))
			return
		}
		for _, a := range upAlphabet {
			gen(append(pre, a), n-1)
		}
	}
	gen(nil, *seqlen)

	stats := map[string]any{}
	total := map[string]int{}
	var msScripted, msConc int64
	nruns, nscripted, nconc, nuploads, nexact, ntorn, nwrites, nq := 0, 0, 0, 0, 0, 0, 0, 0
	cfgs := [][2]bool{{false, true}, {false, false}, {true, true}, {true, false}} // vacuum, compress
	if *only != "" {
		cfgs = [][2]bool{{*oVac, *oComp}}
		witnesses = [][]string{strings.Split(*only, ",")}
		seqs, *cruns = nil, 0
	}
	for ci, cf := range cfgs {
		w, err := newUpWorld(filepath.Join(dir, fmt.Sprintf("s%d", ci)))
		if err != nil {
			return err
		}
		w.install()
		emit("h", "reset", "db", true, "base", int64(w.base), "run", nruns, "mode", "init", "vacuum", cf[0], "compress", cf[1])
		rng := newRand(int64(ci))
		pick := seqs
		if *sample > 0 && *sample < len(seqs) {
			pick = nil
			for _, i := range rng.Perm(len(seqs))[:*sample] {
				pick = append(pick, seqs[i])
			}
		}
		t0 := time.Now()
		for _, sq := range append(append([][]string(nil), witnesses...), pick...) {
			nruns++
			nscripted++
			r := w.newRun(cf[0], cf[1], "scripted:"+strings.Join(sq, ","), nruns)
			r.script(sq, rng)
			if w.fail != nil {
				break
			}
		}
		msScripted += time.Since(t0).Milliseconds()
		t0 = time.Now()
		for k := 0; k < *cruns && w.fail == nil; k++ {
			nruns++
			nconc++
			r := w.newRun(cf[0], cf[1], "concurrent", nruns)
			if err := r.concurrent(rng, *crounds, *writers); err != nil {
				w.setFail(err)
			}
		}
		msConc += time.Since(t0).Milliseconds()
		traceOff()
		w.close()
		if w.fail != nil {
			return w.fail
		}
		// annotate and write out
		rs := newUpResolver(w.base, w.wr)
		verIdx := map[int64]uint64{}
		for _, x := range w.wr {
			verIdx[x.Ver] = x.Idx
		}
		qIdx := map[int64]uint64{}
		for _, e := range w.events {
			if e["ev"] == "q.ret" {
				qIdx[e["n"].(int64)] = e["idx"].(uint64)
			}
		}
		for _, e := range w.events {
			switch e["ev"] {
			case "w.call":
				idx, ok := verIdx[e["ver"].(int64)]
				if !ok {
					return fmt.Errorf("write %v never returned", e["ver"])
				}
				e["idx"] = idx
			case "q.call":
				idx, ok := qIdx[e["n"].(int64)]
				if !ok {
					return fmt.Errorf("query %v never returned", e["n"])
				}
				e["idx"] = idx
			case "sc.upload":
				un := e["un"].(int)
				nuploads++
				e["j"], e["exact"] = int64(-1), false
				if p := w.projs[un]; p != nil {
					j, exact, err := rs.resolve(p)
					if err != nil {
						e["readable"] = false
						e["perr"] = err.Error()
					} else {
						e["j"], e["exact"] = j, exact
						if exact {
							nexact++
						} else {
							ntorn++
							e["proj"] = fmt.Sprint(p)
						}
					}
				} else {
					e["perr"] = w.perr[un]
				}
			}
			nd.Write(e)
		}
		for k, v := range w.stats {
			total[k] += v
		}
		nwrites += len(w.wr)
		nq += w.nq
	}
	stats["runs"], stats["scripted_runs"], stats["concurrent_runs"] = nruns, nscripted, nconc
	stats["scripted_len"], stats["scripted_sequences_of_len"] = *seqlen, len(seqs)
	stats["writes"], stats["nonchanging_entries"] = nwrites, nq
	stats["uploads"], stats["uploads_exact_state"], stats["uploads_superset_not_exact"] = nuploads, nexact, ntorn
	stats["rounds"] = total["prov.li.call"]
	stats["ms_scripted"], stats["ms_concurrent"] = msScripted, msConc
	stats["provide_retried"] = total["provide_retried"]
	stats["events"] = total
	stats["lines"] = nd.n
	jb, err := json.Marshal(stats)
	if err != nil {
		return err
	}
	fmt.Println(string(jb))
	return nil
}
