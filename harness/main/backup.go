package main

// backup-trace (C21): backups of a live 3-node cluster in every format / flag combination, from
// the leader, through a follower (forwarded over the inter-node stream) and from a follower's own
// database, while writer goroutines run sum-preserving transfers between two tables and insert
// into a third.  Every backup is restored and projected; one trace line per backup is validated
// by TraceBackup.tla against the write history (phase C).  Phase B cuts the inter-node backup
// stream at chosen byte positions (FIN / RST) and records what the HTTP client of the follower
// saw.  Phase P (backup_pfail.go) makes the producing node fail after streaming has begun.  Phase S
// (backup_ident.go) repeats the workload's tables under table / column names of every identifier shape.

import (
	"bytes"
	"compress/gzip"
	"context"
	"encoding/json"
	"flag"
	"fmt"
	"io"
	"math/rand"
	"net/http"
	"os"
	"path/filepath"
	"sort"
	"strings"
	"sync"
	"sync/atomic"
	"time"

	"github.com/rqlite/rqlite/v10/cluster"
	"github.com/rqlite/rqlite/v10/command/proto"
	"github.com/rqlite/rqlite/v10/db"
	"github.com/rqlite/rqlite/v10/internal/vhook"
	"github.com/rqlite/rqlite/v10/store"
)

func init() { register("backup-trace", backupTrace) }

const (
	bkRowsA  = 6    // rows of t_a
	bkRowsZ  = 6    // rows of t_z
	bkStartV = 1000 // initial value of every t_a row
	bkNObj   = 5    // t_a, t_m, t_z, index t_m_k, view t_tot
)

var bkSchema = []string{
	"CREATE TABLE t_a(id INTEGER PRIMARY KEY, v INTEGER NOT NULL)",
	"CREATE TABLE t_m(k INTEGER NOT NULL, w INTEGER NOT NULL, d INTEGER NOT NULL, pad TEXT)",
	"CREATE TABLE t_z(id INTEGER PRIMARY KEY, v INTEGER NOT NULL)",
	"CREATE INDEX t_m_k ON t_m(k)",
	"CREATE VIEW t_tot AS SELECT (SELECT sum(v) FROM t_a) + (SELECT sum(v) FROM t_z) AS tot",
}

// ---------------------------------------------------------------- projection of a database

type bkProj struct {
	NA, NZ, NM int64 // row counts (-1: table missing)
	SA, SZ     int64 // sum of v
	SK, SD     int64 // sum of k and of d over t_m
	NObj       int64 // user objects in sqlite_master
	Integrity  string
}

func bkOne(d *db.DB, q string) ([]int64, error) {
	rows, err := d.QueryStringStmt(q)
	if err != nil {
		return nil, err
	}
	if rows[0].Error != "" {
		return nil, fmt.Errorf("%s", rows[0].Error)
	}
	if len(rows[0].Values) != 1 {
		return nil, fmt.Errorf("%d rows", len(rows[0].Values))
	}
	var out []int64
	for _, p := range rows[0].Values[0].Parameters {
		out = append(out, p.GetI())
	}
	return out, nil
}

// bkNames are the identifiers of the three workload tables and their columns (phase S varies their shape).
type bkNames struct {
	A, M, Z             string // tables
	ID, V, K, W, D, Pad string // columns: A(ID, V), Z(ID, V), M(K, W, D, Pad)
	Idx                 string // index on M(K)
}

var bkDefaultNames = bkNames{A: "t_a", M: "t_m", Z: "t_z", ID: "id", V: "v", K: "k", W: "w", D: "d", Pad: "pad", Idx: "t_m_k"}

// qi quotes an identifier for SQL text.
func qi(name string) string { return `"` + strings.ReplaceAll(name, `"`, `""`) + `"` }

func bkProject(d *db.DB) bkProj { return bkProjectNames(d, bkDefaultNames) }

func bkProjectNames(d *db.DB, nm bkNames) bkProj {
	p := bkProj{NA: -1, NZ: -1, NM: -1}
	if v, err := bkOne(d, fmt.Sprintf("SELECT count(*), COALESCE(sum(%s),0) FROM %s", qi(nm.V), qi(nm.A))); err == nil {
		p.NA, p.SA = v[0], v[1]
	}
	if v, err := bkOne(d, fmt.Sprintf("SELECT count(*), COALESCE(sum(%s),0) FROM %s", qi(nm.V), qi(nm.Z))); err == nil {
		p.NZ, p.SZ = v[0], v[1]
	}
	if v, err := bkOne(d, fmt.Sprintf("SELECT count(*), COALESCE(sum(%s),0), COALESCE(sum(%s),0) FROM %s", qi(nm.K), qi(nm.D), qi(nm.M))); err == nil {
		p.NM, p.SK, p.SD = v[0], v[1], v[2]
	}
	if v, err := bkOne(d, "SELECT count(*) FROM sqlite_master WHERE name NOT LIKE 'sqlite_%'"); err == nil {
		p.NObj = v[0]
	}
	if rows, err := d.QueryStringStmt("PRAGMA integrity_check"); err == nil && rows[0].Error == "" && len(rows[0].Values) > 0 {
		p.Integrity = rows[0].Values[0].Parameters[0].GetS()
	} else if err != nil {
		p.Integrity = err.Error()
	} else {
		p.Integrity = rows[0].Error
	}
	return p
}

func gunzipAll(b []byte) ([]byte, error) {
	zr, err := gzip.NewReader(bytes.NewReader(b))
	if err != nil {
		return nil, err
	}
	// multistream (the default): anything after the first member must itself be a gzip member,
	// so trailing garbage is an error, as it is for gunzip(1)
	return io.ReadAll(zr)
}

// bkRestore turns the body of a backup response into a database and projects it.
func bkRestore(dir string, body []byte, format string, compress bool) (bkProj, error) {
	return bkRestoreNames(dir, body, format, compress, bkDefaultNames)
}

func bkRestoreNames(dir string, body []byte, format string, compress bool, nm bkNames) (bkProj, error) {
	bkProject := func(d *db.DB) bkProj { return bkProjectNames(d, nm) }
	none := bkProj{NA: -1, NZ: -1, NM: -1}
	if compress {
		var err error
		if body, err = gunzipAll(body); err != nil {
			return none, fmt.Errorf("gunzip: %v", err)
		}
	}
	os.MkdirAll(dir, 0755)
	f, err := os.CreateTemp(dir, "restore-*.db")
	if err != nil {
		return none, err
	}
	path := f.Name()
	defer func() {
		os.Remove(path)
		os.Remove(path + "-wal")
		os.Remove(path + "-shm")
	}()
	if format == "sql" {
		f.Close()
		d, err := db.Open(path, false, false)
		if err != nil {
			return none, err
		}
		defer d.Close()
		rs, err := d.ExecuteStringStmt(string(body))
		if err != nil {
			return none, fmt.Errorf("replay: %v", err)
		}
		for _, r := range rs {
			if e := r.GetError(); e != "" {
				return bkProject(d), fmt.Errorf("replay: %s", e)
			}
		}
		if !bytes.HasSuffix(bytes.TrimSpace(body), []byte("COMMIT;")) {
			return bkProject(d), fmt.Errorf("replay: dump does not end with COMMIT")
		}
		return bkProject(d), nil
	}
	if _, err := f.Write(body); err != nil {
		f.Close()
		return none, err
	}
	f.Close()
	if !db.IsValidSQLiteData(body) {
		return none, fmt.Errorf("not a SQLite file (%d bytes)", len(body))
	}
	if format == "delete" && (len(body) < 20 || body[18] != 1 || body[19] != 1) {
		return none, fmt.Errorf("fmt=delete but the file is not in DELETE (rollback-journal) mode")
	}
	d, err := db.Open(path, false, false)
	if err != nil {
		return none, err
	}
	defer d.Close()
	p := bkProject(d)
	if p.Integrity != "ok" {
		return p, fmt.Errorf("integrity_check: %s", p.Integrity)
	}
	return p, nil
}

// ---------------------------------------------------------------- HTTP backup request

type bkResp struct {
	Status int
	Clean  bool // the response was read to its end without a transport error
	Err    string
	Body   []byte
}

// one connection per request: net/http silently repeats a GET whose reused connection died before any response byte
var bkHTTP = &http.Client{Timeout: 120 * time.Second, Transport: &http.Transport{DisableCompression: true, DisableKeepAlives: true}}

func bkGet(n *vNode, q string) bkResp {
	resp, err := bkHTTP.Get("http://" + n.APIAddr + "/db/backup?" + q)
	if err != nil {
		return bkResp{Err: err.Error()}
	}
	defer resp.Body.Close()
	b, err := io.ReadAll(resp.Body)
	r := bkResp{Status: resp.StatusCode, Body: b, Clean: err == nil}
	if err != nil {
		r.Err = err.Error()
	}
	return r
}

type bkCombo struct {
	Fmt      string // binary | sql | delete
	Vacuum   bool
	Compress bool
	Via      string // leader | follower (forwarded to the leader) | local (follower's own database, noleader)
}

func (c bkCombo) query(timeout string) string {
	q := "fmt=" + c.Fmt
	if c.Vacuum {
		q += "&vacuum"
	}
	if c.Compress {
		q += "&compress"
	}
	if c.Via == "local" {
		q += "&noleader"
	}
	if timeout != "" {
		q += "&timeout=" + timeout
	}
	return q
}

func bkCombos() []bkCombo {
	var out []bkCombo
	for _, via := range []string{"leader", "follower", "local"} {
		for _, f := range []struct {
			f string
			v bool
		}{{"binary", false}, {"binary", true}, {"sql", false}, {"delete", false}} {
			for _, z := range []bool{false, true} {
				out = append(out, bkCombo{Fmt: f.f, Vacuum: f.v, Compress: z, Via: via})
			}
		}
	}
	return out
}

// ---------------------------------------------------------------- writers

type bkWrite struct {
	K, W, D      int64
	X, Y         int
	Idx          uint64 // raft index from the acknowledgement (0: not acknowledged)
	Acked        bool
	Definitely   bool // definitely not applied (refused before the log)
	Err          string
	LoIdx, HiIdx uint64
	Rowid        int64
}

func bkDoWrite(n *vNode, wr *bkWrite, pad string) { bkDoWriteNames(n, wr, pad, bkDefaultNames) }

func bkDoWriteNames(n *vNode, wr *bkWrite, pad string, nm bkNames) {
	body := []string{
		fmt.Sprintf("UPDATE %s SET %s=%s-%d WHERE %s=%d", qi(nm.A), qi(nm.V), qi(nm.V), wr.D, qi(nm.ID), wr.X),
		fmt.Sprintf("UPDATE %s SET %s=%s+%d WHERE %s=%d", qi(nm.Z), qi(nm.V), qi(nm.V), wr.D, qi(nm.ID), wr.Y),
		fmt.Sprintf("INSERT INTO %s(%s,%s,%s,%s) VALUES(%d,%d,%d,'%s')", qi(nm.M), qi(nm.K), qi(nm.W), qi(nm.D), qi(nm.Pad), wr.K, wr.W, wr.D, pad),
	}
	resp, err := n.httpSQL("execute", "transaction&raft_index&timeout=20s", body)
	if err != nil {
		wr.Err = err.Error()
		return
	}
	var parsed struct {
		Results []struct {
			Error        string `json:"error"`
			RowsAffected int    `json:"rows_affected"`
		} `json:"results"`
		Error     string `json:"error"`
		RaftIndex uint64 `json:"raft_index"`
	}
	if resp.Status != 200 {
		wr.Err = fmt.Sprintf("status %d: %s", resp.Status, strings.TrimSpace(string(resp.Body)))
		return
	}
	if err := json.Unmarshal(resp.Body, &parsed); err != nil {
		wr.Err = err.Error()
		return
	}
	if parsed.Error != "" || len(parsed.Results) != 3 {
		wr.Err = "response: " + string(resp.Body)
		return
	}
	for _, r := range parsed.Results {
		if r.Error != "" || r.RowsAffected != 1 {
			wr.Err = "response: " + string(resp.Body)
			return
		}
	}
	wr.Idx, wr.Acked = parsed.RaftIndex, parsed.RaftIndex > 0
	if !wr.Acked {
		wr.Err = "no raft_index in the response"
	}
}

// pausingWriter collects a backup and calls pause once, in the middle of it: after the first chunk
// (binary) or after the first row of t_a has been written (sql).
type pausingWriter struct {
	buf     bytes.Buffer
	sql     bool
	paused  bool
	pause   func()
	snapErr string
}

func (p *pausingWriter) Write(b []byte) (int, error) {
	p.buf.Write(b)
	if !p.paused && (!p.sql || bytes.HasPrefix(b, []byte(`INSERT INTO "t_a"`))) {
		p.paused = true
		p.pause()
	}
	return len(b), nil
}

// ---------------------------------------------------------------- main

type bkStats struct {
	Backups, BackupsOK, BackupErrs   int
	ByVia                            map[string]int
	Writes, WritesAcked, WritesUnk   int
	Ambiguous                        int
	Cuts, CutFired, CutNotFired      int
	CutOutcomes                      map[string]int
	StreamBytes                      map[string]int64
	SlowCompressedForward            int
	Notes                            []string
	HistLen                          int
	ElapsedC, ElapsedB               float64
	DistinctStates, BackupsWithMoves int
	Rounds                           int
	Witnesses, WitnessPaused         int
	PFCases, PFFired, PFNotFired     int            // phase P: producer-failure cases
	PFOutcomes                       map[string]int // format/compress/via/at/outcome
	ElapsedP                         float64
	IdentShapes                      int // phase S: (table shape, column shape) pairs
	IdentBackups, IdentBackupsOK     int
	IdentOutcomes                    map[string]int // ident/fmt/outcome
	ElapsedS                         float64
	BadKept                          atomic.Int32 `json:"-"` // bodies + hook events kept of backups that did not restore
}

func backupTrace(args []string) error {
	fs := flag.NewFlagSet("backup-trace", flag.ExitOnError)
	out := fs.String("out", "backup.ndjson", "trace file")
	base := fs.String("dir", "", "scratch dir")
	rounds := fs.Int("rounds", 2, "phase C: rounds over all format/flag/via combinations")
	writers := fs.Int("writers", 4, "phase C: writer goroutines")
	cuts := fs.Int("cuts", 100, "phase B: cut positions per (format, compress, kind); 0 = every position; <0 = skip phase B")
	padN := fs.Int("pad", 120, "bytes of padding per t_m row")
	wps := fs.Int("wps", 60, "phase C: target write rate (writes per second over all writers)")
	secs := fs.Int("secs", 0, "phase C: keep starting rounds until this many seconds have passed (at least 2 rounds, at most -rounds)")
	fwdTimeout := fs.String("fwdtimeout", "", "timeout= parameter of forwarded backups")
	pfail := fs.Bool("pfail", true, "phase P: the producing node fails after streaming began (fault points backup.copy, dump.table)")
	ident := fs.String("ident", "star", "phase S: identifier shapes of table and column names: star (each shape against plain, and both alike) | full (every pair, every format/flag/via) | off")
	fs.Parse(args)
	if *base == "" {
		*base, _ = os.MkdirTemp("", "vbk")
		defer os.RemoveAll(*base)
	}
	w, err := newND(*out)
	if err != nil {
		return err
	}
	st := &bkStats{ByVia: map[string]int{}, CutOutcomes: map[string]int{}, StreamBytes: map[string]int64{}, PFOutcomes: map[string]int{}, IdentOutcomes: map[string]int{}}
	rng := newRand(21)
	os.RemoveAll(filepath.Join(*base, "cl")) // a repeated run starts from nothing
	c, err := newCluster(vClusterOpts{N: 3, Base: filepath.Join(*base, "cl"), Configure: func(s *store.Store) {
		// the machine is shared: generous Raft timing keeps the roles where they are
		s.HeartbeatTimeout, s.ElectionTimeout, s.LeaderLeaseTimeout = 2*time.Second, 2*time.Second, 2*time.Second
	}})
	if err != nil {
		return err
	}
	defer c.Close()
	l := c.Leader(10 * time.Second)
	if l == nil {
		return fmt.Errorf("no leader")
	}
	setup := append([]string{}, bkSchema...)
	for i := 1; i <= bkRowsA; i++ {
		setup = append(setup, fmt.Sprintf("INSERT INTO t_a VALUES(%d,%d)", i, bkStartV))
	}
	for i := 1; i <= bkRowsZ; i++ {
		setup = append(setup, fmt.Sprintf("INSERT INTO t_z VALUES(%d,0)", i))
	}
	rs, setupIdx, err := sExec(l.Store, true, setup...)
	if err != nil {
		return err
	}
	for _, r := range rs {
		if r.GetError() != "" {
			return fmt.Errorf("setup: %s", r.GetError())
		}
	}
	if err := c.WaitConverged(15 * time.Second); err != nil {
		return err
	}
	restoreDir := filepath.Join(*base, "restore")

	// ------------------------------------------------------------ phase B: cut the inter-node stream
	initIdx := setupIdx
	if *cuts >= 0 {
		t0 := time.Now()
		w.Write(map[string]any{"ev": "reset", "phase": "B"})
		idx, err := bkPhaseB(c, w, st, rng, *cuts, restoreDir, *fwdTimeout)
		if err != nil {
			return fmt.Errorf("phase B: %w", err)
		}
		initIdx = idx
		st.ElapsedB = time.Since(t0).Seconds()
	}

	// ------------------------------------------------------------ phase P: the producer fails
	if *pfail {
		tp := time.Now()
		w.Write(map[string]any{"ev": "reset", "phase": "P"})
		if err := bkPhaseP(c, w, st, restoreDir, *fwdTimeout); err != nil {
			return fmt.Errorf("phase P: %w", err)
		}
		st.ElapsedP = time.Since(tp).Seconds()
	}

	// ------------------------------------------------------------ phase S: identifier shapes
	if *ident != "off" {
		ts := time.Now()
		idx, err := bkPhaseS(c, w, st, restoreDir, *fwdTimeout, *ident == "full")
		if err != nil {
			return fmt.Errorf("phase S: %w", err)
		}
		if idx > initIdx {
			initIdx = idx
		}
		st.ElapsedS = time.Since(ts).Seconds()
	}

	// ------------------------------------------------------------ phase C: backups under load
	t0 := time.Now()
	w.Write(map[string]any{"ev": "reset", "phase": "C"})
	l = c.Leader(10 * time.Second)
	if l == nil {
		return fmt.Errorf("no leader")
	}
	pad := strings.Repeat("p", *padN)
	var wmu sync.Mutex
	var writes []*bkWrite
	var nextK atomic.Int64
	stop := make(chan struct{})
	var wg sync.WaitGroup
	for wi := 0; wi < *writers; wi++ {
		wg.Add(1)
		go func(wi int) {
			defer wg.Done()
			r := rand.New(rand.NewSource(seedFromEnv()*7919 + int64(wi)))
			perWrite := time.Duration(float64(time.Second) * float64(*writers) / float64(*wps))
			var budget time.Duration
			tw := time.Now()
			for {
				select {
				case <-stop:
					return
				default:
				}
				wr := &bkWrite{K: nextK.Add(1), W: int64(wi), D: int64(1 + r.Intn(9)), X: 1 + r.Intn(bkRowsA), Y: 1 + r.Intn(bkRowsZ)}
				if budget == 0 {
					tw = time.Now()
				}
				n := c.nodes[r.Intn(len(c.nodes))]
				if r.Intn(3) > 0 {
					if ll := c.Leader(time.Second); ll != nil {
						n = ll
					}
				}
				bkDoWrite(n, wr, pad)
				wmu.Lock()
				writes = append(writes, wr)
				wmu.Unlock()
				if wr.Err != "" {
					time.Sleep(50 * time.Millisecond)
				}
				// paced to about *wps writes per second over all writers, in bursts (keeps the history at a
				// size TLC reads quickly, and the database small enough for hundreds of backups)
				budget += perWrite
				if took := time.Since(tw); took < budget {
					if r.Intn(3) == 0 {
						time.Sleep(budget - took)
						budget = 0
					}
				} else {
					budget = 0
				}
			}
		}(wi)
	}
	type bkRec struct {
		c          bkCombo
		start, end uint64
		r          bkResp
		p          bkProj
		rerr       string
		ms         int64
		moved      bool
		bytes      int
		conc       bool
		paused     bool
		snapErr    string
	}
	var recs []bkRec
	var rmu sync.Mutex
	// diagnostics for a backup that is answered 200 and does not restore: the recent gate / checkpoint events
	ring := newBkRing(16384)
	vhook.SetSink(ring.sink)
	defer vhook.SetSink(nil)
	var opSeq atomic.Int64
	badDir := filepath.Join(filepath.Dir(*out), "bad")
	doBackup := func(cb bkCombo, rg *rand.Rand, conc bool) error {
		ld := c.Leader(10 * time.Second)
		if ld == nil {
			return fmt.Errorf("no leader")
		}
		at, src := ld, ld
		if cb.Via != "leader" {
			fl := c.Followers()
			if len(fl) == 0 {
				return nil
			}
			at = fl[rg.Intn(len(fl))]
			if cb.Via == "local" {
				src = at
			}
		}
		// the window: everything the source database certainly contains when the request is sent,
		// everything it can possibly contain when the response has been read
		start := src.Store.DBAppliedIndex()
		tb := time.Now()
		to := ""
		if cb.Via == "follower" {
			to = *fwdTimeout
		}
		seq := opSeq.Add(1)
		ring.add(map[string]any{"ev": "bk.begin", "seq": seq, "fmt": cb.Fmt, "vacuum": cb.Vacuum, "compress": cb.Compress, "via": cb.Via, "src": src.ID, "start": start})
		r := bkGet(at, cb.query(to))
		ms := time.Since(tb).Milliseconds()
		end, _ := src.Store.CommitIndex()
		ring.add(map[string]any{"ev": "bk.end", "seq": seq, "status": r.Status, "end": end})
		ld2 := c.Leader(10 * time.Second)
		moved := ld2 == nil || ld2.ID != ld.ID || !ld.Store.IsLeader()
		rec := bkRec{c: cb, start: start, end: end, r: r, ms: ms, moved: moved, bytes: len(r.Body), conc: conc, p: bkProj{NA: -1, NZ: -1, NM: -1}}
		if r.Status == 200 && r.Clean {
			p, rerr := bkRestore(restoreDir, r.Body, cb.Fmt, cb.Compress)
			rec.p = p
			if rerr != nil {
				rec.rerr = rerr.Error()
				if st.BadKept.Add(1) <= 3 {
					ring.dump(badDir, fmt.Sprintf("bad-seq%d-%s-%s", seq, cb.Fmt, cb.Via), r.Body)
				}
			}
		}
		if r.Status != 200 {
			rec.r.Err = strings.TrimSpace(string(r.Body))
		}
		if len(rec.r.Err) > 200 {
			rec.r.Err = rec.r.Err[:200]
		}
		rec.r.Body = nil
		rmu.Lock()
		defer rmu.Unlock()
		recs = append(recs, rec)
		st.Backups++
		st.ByVia[cb.Via]++
		if r.Status == 200 && r.Clean {
			st.BackupsOK++
		} else {
			st.BackupErrs++
			if len(st.Notes) < 8 {
				st.Notes = append(st.Notes, fmt.Sprintf("backup %v: status %d %s", cb, r.Status, rec.r.Err))
			}
		}
		if cb.Via == "follower" && cb.Compress && ms > 5000 {
			st.SlowCompressedForward++
		}
		return nil
	}
	// Witness of the negative controls GateDuringFileCopy / DumpInOneReadTxn: Store.Backup on the leader
	// writes into a destination that, at a chosen point in the middle of the copy (binary: after the first
	// chunk of the main file; sql: after the rows of t_a), runs acknowledged transfers and asks the store
	// for a snapshot (a checkpoint into the main file) before it lets the copy go on.
	doWitness := func(format string) error {
		ld := c.Leader(10 * time.Second)
		if ld == nil {
			return fmt.Errorf("no leader")
		}
		br := &proto.BackupRequest{Format: proto.BackupRequest_BACKUP_REQUEST_FORMAT_BINARY, Leader: true}
		if format == "sql" {
			br.Format = proto.BackupRequest_BACKUP_REQUEST_FORMAT_SQL
		}
		pw := &pausingWriter{sql: format == "sql"}
		pw.pause = func() {
			for i := 0; i < 3; i++ {
				wr := &bkWrite{K: nextK.Add(1), W: 77, D: int64(1 + i), X: 1 + i%bkRowsA, Y: 1 + i%bkRowsZ}
				bkDoWrite(ld, wr, pad)
				wmu.Lock()
				writes = append(writes, wr)
				wmu.Unlock()
			}
			if err := ld.Store.Snapshot(0); err != nil {
				pw.snapErr = err.Error()
			}
		}
		start := ld.Store.DBAppliedIndex()
		tb := time.Now()
		seq := opSeq.Add(1)
		ring.add(map[string]any{"ev": "bk.begin", "seq": seq, "fmt": format, "via": "leader", "witness": true, "src": ld.ID, "start": start})
		err := ld.Store.Backup(context.Background(), br, pw)
		ms := time.Since(tb).Milliseconds()
		end, _ := ld.Store.CommitIndex()
		ring.add(map[string]any{"ev": "bk.end", "seq": seq, "err": fmt.Sprint(err), "end": end})
		ld2 := c.Leader(10 * time.Second)
		moved := ld2 == nil || ld2.ID != ld.ID || !ld.Store.IsLeader()
		rec := bkRec{c: bkCombo{Fmt: format, Via: "leader"}, start: start, end: end, ms: ms, moved: moved, bytes: pw.buf.Len(),
			paused: pw.paused, snapErr: pw.snapErr, p: bkProj{NA: -1, NZ: -1, NM: -1}}
		if err == nil {
			rec.r = bkResp{Status: 200, Clean: true}
			p, rerr := bkRestore(restoreDir, pw.buf.Bytes(), format, false)
			rec.p = p
			if rerr != nil {
				rec.rerr = rerr.Error()
				if st.BadKept.Add(1) <= 3 {
					ring.dump(badDir, fmt.Sprintf("bad-seq%d-%s-witness", seq, format), pw.buf.Bytes())
				}
			}
		} else {
			rec.r = bkResp{Status: 500, Clean: true, Err: err.Error()}
		}
		rmu.Lock()
		defer rmu.Unlock()
		recs = append(recs, rec)
		st.Witnesses++
		if pw.paused {
			st.WitnessPaused++
		}
		if err != nil && len(st.Notes) < 8 {
			st.Notes = append(st.Notes, fmt.Sprintf("witness %s: %v", format, err))
		}
		return nil
	}
	combos := bkCombos()
	// a second requester, so that backups also overlap each other (gate conflicts, failing pre-backup snapshots)
	stop2 := make(chan struct{})
	var wg2 sync.WaitGroup
	wg2.Add(1)
	go func() {
		defer wg2.Done()
		r2 := rand.New(rand.NewSource(seedFromEnv()*104729 + 5))
		for {
			select {
			case <-stop2:
				return
			case <-time.After(time.Duration(100+r2.Intn(600)) * time.Millisecond):
			}
			doBackup(combos[r2.Intn(len(combos))], r2, true)
		}
	}()
	var berr error
	for round := 0; round < *rounds && berr == nil; round++ {
		if *secs > 0 && round >= 2 && time.Since(t0) > time.Duration(*secs)*time.Second {
			break
		}
		st.Rounds++
		for _, ci := range rng.Perm(len(combos)) {
			if *secs > 0 && round >= 2 && time.Since(t0) > 2*time.Duration(*secs)*time.Second {
				break // a round that crawls (starved machine) is cut short
			}
			if berr = doBackup(combos[ci], rng, false); berr != nil {
				break
			}
		}
		for _, f := range []string{"binary", "sql"} {
			if berr == nil {
				berr = doWitness(f)
			}
		}
		rmu.Lock()
		fmt.Fprintf(os.Stderr, "backup-trace: round %d done after %.0fs: %d backups, %d writes issued\n", round+1, time.Since(t0).Seconds(), st.Backups, nextK.Load())
		rmu.Unlock()
	}
	close(stop2)
	wg2.Wait()
	close(stop)
	wg.Wait()
	if berr != nil {
		return berr
	}
	if err := c.WaitConverged(30 * time.Second); err != nil {
		return err
	}
	// the apply order of all writes: rowid order of t_m on the leader
	l = c.Leader(10 * time.Second)
	if l == nil {
		return fmt.Errorf("no leader at the end")
	}
	rows, err := sQuery(l.Store, proto.ConsistencyLevel_STRONG, "SELECT rowid, k, d FROM t_m ORDER BY rowid")
	if err != nil {
		return err
	}
	if rows[0].Error != "" {
		return fmt.Errorf("final read: %s", rows[0].Error)
	}
	byK := map[int64]*bkWrite{}
	for _, wr := range writes {
		byK[wr.K] = wr
		st.Writes++
		if wr.Acked {
			st.WritesAcked++
		} else {
			st.WritesUnk++
			if len(st.Notes) < 5 {
				st.Notes = append(st.Notes, "write not acknowledged: "+wr.Err)
			}
		}
	}
	var hist []*bkWrite
	applied := map[int64]bool{}
	for _, v := range rows[0].Values {
		k := v.Parameters[1].GetI()
		wr := byK[k]
		if wr == nil {
			return fmt.Errorf("row k=%d in t_m was never written by the harness", k)
		}
		if applied[k] {
			return fmt.Errorf("row k=%d twice in t_m", k)
		}
		applied[k] = true
		wr.Rowid = v.Parameters[0].GetI()
		hist = append(hist, wr)
	}
	for _, wr := range writes {
		if wr.Acked && !applied[wr.K] {
			return fmt.Errorf("acknowledged write k=%d is not in the final database (not a C21 matter: see C03/C02)", wr.K)
		}
	}
	// index bounds for writes whose acknowledgement was lost: between the neighbours in apply order
	last := initIdx
	for i, wr := range hist {
		if wr.Acked {
			if wr.Idx <= last {
				return fmt.Errorf("apply order and acknowledged raft indexes disagree at k=%d (idx %d after %d)", wr.K, wr.Idx, last)
			}
			wr.LoIdx, wr.HiIdx = wr.Idx, wr.Idx
			last = wr.Idx
			continue
		}
		st.Ambiguous++
		wr.LoIdx = last + 1
		hi := uint64(0)
		for j := i + 1; j < len(hist); j++ {
			if hist[j].Acked {
				hi = hist[j].Idx - 1
				break
			}
		}
		if hi == 0 {
			hi, _ = l.Store.CommitIndex()
		}
		wr.HiIdx = hi
		last = wr.LoIdx
	}
	cur := map[string]int64{"na": bkRowsA, "nz": bkRowsZ, "sa": bkRowsA * bkStartV, "sz": 0, "nm": 0, "sk": 0, "sd": 0}
	line := func(ev string, lo, hi uint64, extra map[string]any) {
		m := map[string]any{"ev": ev, "lo": lo, "hi": hi, "nobj": bkNObj}
		for k, v := range cur {
			m[k] = v
		}
		for k, v := range extra {
			m[k] = v
		}
		w.Write(m)
	}
	line("init", initIdx, initIdx, nil)
	for _, wr := range hist {
		cur["sa"] -= wr.D
		cur["sz"] += wr.D
		cur["nm"]++
		cur["sk"] += wr.K
		cur["sd"] += wr.D
		line("w", wr.LoIdx, wr.HiIdx, map[string]any{"k": wr.K, "d": wr.D, "acked": wr.Acked})
	}
	st.HistLen = len(hist)
	distinct := map[string]bool{}
	for i, rec := range recs {
		ok := rec.r.Status == 200 && rec.r.Clean
		if ok {
			distinct[fmt.Sprintf("%d/%d/%d", rec.p.SA, rec.p.SZ, rec.p.NM)] = true
		}
		if rec.end > rec.start {
			st.BackupsWithMoves++
		}
		w.Write(map[string]any{"ev": "bk", "op": i + 1, "fmt": rec.c.Fmt, "vacuum": rec.c.Vacuum, "compress": rec.c.Compress, "via": rec.c.Via,
			"start": rec.start, "end": rec.end, "status": rec.r.Status, "clean": rec.r.Clean, "err": rec.r.Err,
			"restored": ok && rec.rerr == "", "rerr": rec.rerr, "bytes": rec.bytes, "ms": rec.ms, "moved": rec.moved, "conc": rec.conc, "paused": rec.paused, "snaperr": rec.snapErr,
			"na": rec.p.NA, "nz": rec.p.NZ, "nm": rec.p.NM, "sa": rec.p.SA, "sz": rec.p.SZ, "sk": rec.p.SK, "sd": rec.p.SD, "nobj": rec.p.NObj})
	}
	st.DistinctStates = len(distinct)
	st.ElapsedC = time.Since(t0).Seconds()
	if err := w.Close(); err != nil {
		return err
	}
	b, _ := json.Marshal(st)
	fmt.Println(string(b))
	return nil
}

// ---------------------------------------------------------------- phase B

// bkPhaseB: on a quiescent small database, take the reference backup through a follower for every
// (format, compress), learn the length of the leader->follower byte stream, then repeat the request
// with that stream cut after p bytes (FIN and RST) for the chosen positions p < length.
func bkPhaseB(c *vCluster, w *ndWriter, st *bkStats, rng *rand.Rand, ncuts int, restoreDir, fwdTimeout string) (uint64, error) {
	var l, f *vNode
	// roles can move on a loaded machine: (re)read them, and let a new leader settle
	roles := func() error {
		for i := 0; i < 50; i++ {
			l = c.Leader(10 * time.Second)
			fl := c.Followers()
			if l != nil && len(fl) > 0 {
				f = fl[0]
				if la, _ := f.Store.LeaderAddr(); la == l.Addr {
					return nil
				}
			}
			time.Sleep(200 * time.Millisecond)
		}
		return fmt.Errorf("no stable leader / follower")
	}
	stable := func() bool {
		if l == nil || f == nil || !l.Store.IsLeader() {
			return false
		}
		la, _ := f.Store.LeaderAddr()
		return la == l.Addr
	}
	if err := roles(); err != nil {
		return 0, err
	}
	// a few rows so that every table has content
	for i := 0; i < 12; i++ {
		wr := &bkWrite{K: int64(-1 - i), W: 99, D: int64(1 + i%5), X: 1 + i%bkRowsA, Y: 1 + i%bkRowsZ}
		bkDoWrite(l, wr, "q")
		if !wr.Acked {
			return 0, fmt.Errorf("setup write: %s", wr.Err)
		}
	}
	if err := c.WaitConverged(15 * time.Second); err != nil {
		return 0, err
	}
	// flush pooled connections that a cut has broken: a forwarded strong read retries through the pool
	flush := func() {
		for i := 0; i < 3; i++ {
			f.httpSQL("query", "level=strong&timeout=5s", []string{"SELECT 1"})
		}
	}
	type variant struct {
		fmt      string
		compress bool
	}
	for _, v := range []variant{{"binary", false}, {"binary", true}, {"sql", false}, {"sql", true}} {
		cb := bkCombo{Fmt: v.fmt, Compress: v.compress, Via: "follower"}
		q := cb.query(fwdTimeout)
		name := fmt.Sprintf("%s/compress=%v", v.fmt, v.compress)
		// reference: uncut, counted
		var ref bkResp
		var total, refMs int64
		takeRef := func() error {
			for try := 0; ; try++ {
				if err := roles(); err != nil {
					return err
				}
				obs := &vcut{from: f.ID, to: l.ID, hdr: cluster.MuxClusterHeader, after: -1}
				flush()
				c.nw.cut.Store(obs)
				tb := time.Now()
				ref = bkGet(f, q)
				refMs = time.Since(tb).Milliseconds()
				c.nw.cut.Store(nil)
				total, _, _ = obs.counts()
				if ref.Status == 200 && total >= 16 && stable() {
					return nil
				}
				if try >= 8 {
					return fmt.Errorf("reference backup %s: stream of %d bytes (status %d %s %s)", name, total, ref.Status, ref.Err, strings.TrimSpace(string(ref.Body)))
				}
				time.Sleep(300 * time.Millisecond)
			}
		}
		if err := takeRef(); err != nil {
			return 0, err
		}
		st.StreamBytes[name] = total
		refOK := ref.Status == 200 && ref.Clean
		var refPlain []byte
		var refErr string
		if refOK {
			refPlain = ref.Body
			if v.compress {
				var err error
				if refPlain, err = gunzipAll(ref.Body); err != nil {
					refErr = "gunzip: " + err.Error()
				}
			}
			if refErr == "" {
				if _, err := bkRestore(restoreDir, ref.Body, v.fmt, v.compress); err != nil {
					refErr = err.Error()
				}
			}
		}
		w.Write(map[string]any{"ev": "ref", "fmt": v.fmt, "compress": v.compress, "status": ref.Status, "clean": ref.Clean, "err": ref.Err,
			"restored": refOK && refErr == "", "rerr": refErr, "bytes": len(ref.Body), "stream": total, "ms": refMs})
		// positions
		var pos []int64
		if ncuts == 0 || int64(ncuts) >= total {
			for p := int64(0); p < total; p++ {
				pos = append(pos, p)
			}
		} else {
			seen := map[int64]bool{}
			add := func(p int64) {
				if p >= 0 && p < total && !seen[p] {
					seen[p] = true
					pos = append(pos, p)
				}
			}
			for p := int64(0); p < 12; p++ { // length prefix, response message, gzip header
				add(p)
			}
			for p := total - 12; p < total; p++ { // gzip trailer
				add(p)
			}
			for len(pos) < ncuts {
				add(rng.Int63n(total))
			}
			sort.Slice(pos, func(i, j int) bool { return pos[i] < pos[j] })
		}
		for _, kind := range []string{"fin", "rst"} {
			for _, p := range pos {
				var ct *vcut
				var r bkResp
				var rx int64
				var fired bool
				for try := 0; try < 4; try++ {
					if !stable() {
						// leadership moved: settle, and make sure the stream is still the one the positions refer to
						t0 := total
						if err := takeRef(); err != nil {
							return 0, err
						}
						if total != t0 {
							return 0, fmt.Errorf("%s: the stream changed from %d to %d bytes after a leader change", name, t0, total)
						}
					}
					ct = &vcut{from: f.ID, to: l.ID, hdr: cluster.MuxClusterHeader, after: p, rst: kind == "rst"}
					flush()
					c.nw.cut.Store(ct)
					r = bkGet(f, q)
					c.nw.cut.Store(nil)
					rx, _, fired = ct.counts()
					if fired {
						break
					}
					// the request ended before the stream reached p (roles moved, stale pooled connection): not a cut case
					st.CutNotFired++
					time.Sleep(100 * time.Millisecond)
				}
				st.Cuts++
				if fired {
					st.CutFired++
				}
				success := r.Status == 200 && r.Clean
				equal := success && bytes.Equal(r.Body, ref.Body)
				restorable := false
				if success && !equal {
					// is the body a complete backup all the same?
					plain := r.Body
					var err error
					if v.compress {
						plain, err = gunzipAll(r.Body)
					}
					if err == nil && bytes.Equal(plain, refPlain) {
						equal = true
					} else if _, rerr := bkRestore(restoreDir, r.Body, v.fmt, v.compress); rerr == nil {
						restorable = true
					}
				}
				class := "stream"
				switch {
				case p < 8:
					class = "length-prefix"
				case total-p <= 8:
					class = "gzip-trailer"
				}
				oc := "error"
				if success && equal {
					oc = "complete"
				} else if success {
					oc = "short-success"
				}
				st.CutOutcomes[fmt.Sprintf("%s/%s/%s", name, kind, oc)]++
				errText := r.Err
				if r.Status != 200 {
					errText = strings.TrimSpace(string(r.Body))
				}
				if len(errText) > 160 {
					errText = errText[:160]
				}
				w.Write(map[string]any{"ev": "cut", "fmt": v.fmt, "compress": v.compress, "kind": kind, "pos": p, "total": total, "class": class,
					"fired": fired, "rx": rx, "status": r.Status, "clean": r.Clean, "err": errText, "bytes": len(r.Body), "refbytes": len(ref.Body),
					"equal": equal, "restorable": restorable})
			}
		}
	}
	flush()
	// back to the initial state for phase C
	ld := c.Leader(10 * time.Second)
	if ld == nil {
		return 0, fmt.Errorf("no leader")
	}
	rs, idx, err := sExec(ld.Store, true, "DELETE FROM t_m", fmt.Sprintf("UPDATE t_a SET v=%d", bkStartV), "UPDATE t_z SET v=0")
	if err != nil {
		return 0, err
	}
	for _, r := range rs {
		if r.GetError() != "" {
			return 0, fmt.Errorf("cleanup: %s", r.GetError())
		}
	}
	return idx, bkWaitApplied(c, idx, 20*time.Second)
}
