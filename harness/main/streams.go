package main

// C11 "Open snapshot streams never race with reaping".
//
// streams-trace drives a REAL snapshot.Store: real sinks fed by the production path
// (db.CheckpointManager -> StagingDir -> SnapshotPathStreamer / SnapshotStreamer ->
// StateReader.Persist -> Sink.Close) from a small live SQLite database, real
// LockingStreamers (tiny idle timeout), the real auto-reaper goroutine and explicit
// Store.Reap() calls.  Hook events of internal/rsync (under the lock's mutex) and of
// snapshot/store.go (ls.open / ls.close / ls.released / reap.mutate / reap.done) plus
// harness observations (h.stream: bytes read vs. the content of the snapshot opened)
// form one ordered trace validated by TraceStreams.tla.
//
//   phase "free":     free-running randomized concurrent runs                      (C)
//   phase "directed": schedules of the Streams.tla negative-control witnesses,     (B)
//                     forced with gates / hand-offs on the real store

import (
	"bytes"
	"encoding/binary"
	"encoding/json"
	"errors"
	"flag"
	"fmt"
	"io"
	"math/rand"
	"os"
	"path/filepath"
	"runtime"
	"strings"
	"sync"
	"sync/atomic"
	"time"

	"github.com/hashicorp/raft"
	"github.com/rqlite/rqlite/v10/db"
	"github.com/rqlite/rqlite/v10/internal/rsum"
	"github.com/rqlite/rqlite/v10/internal/vhook"
	"github.com/rqlite/rqlite/v10/snapshot"
)

func init() { register("streams-trace", streamsTrace) }

const maxStreamsPerRun = 36 // TraceStreams.tla: TStreamers = 1..40

// ------------------------------------------------------------------ source database

type snapSource struct {
	dir  string
	d    *db.DB
	cm   *db.CheckpointManager
	rows int
}

func newSnapSource(dir string) (*snapSource, error) {
	d, err := db.Open(filepath.Join(dir, "src.db"), false, true)
	if err != nil {
		return nil, err
	}
	if _, err := d.ExecuteStringStmt("CREATE TABLE t (k INTEGER PRIMARY KEY, v TEXT)"); err != nil {
		return nil, err
	}
	cm, err := db.NewCheckpointManager(d)
	if err != nil {
		return nil, err
	}
	return &snapSource{dir: dir, d: d, cm: cm}, nil
}

func (s *snapSource) close() {
	s.cm.Close()
	s.d.Close()
}

func rowValue(k int) string { return fmt.Sprintf("v%06d-%s", k, strings.Repeat("x", k%53)) }

func (s *snapSource) addRows(n int) error {
	var sb strings.Builder
	sb.WriteString("INSERT INTO t(k, v) VALUES ")
	for i := 0; i < n; i++ {
		s.rows++
		if i > 0 {
			sb.WriteByte(',')
		}
		fmt.Fprintf(&sb, "(%d, '%s')", s.rows, rowValue(s.rows))
	}
	r, err := s.d.ExecuteStringStmt(sb.String())
	if err != nil {
		return err
	}
	if len(r) > 0 && r[0].GetError() != "" {
		return errors.New(r[0].GetError())
	}
	return nil
}

// expected logical content of a snapshot taken at raft index n (= n rows)
func expectContent(n uint64) (cnt, sumK, sumLen int64) {
	for k := 1; k <= int(n); k++ {
		cnt++
		sumK += int64(k)
		sumLen += int64(len(rowValue(k)))
	}
	return
}

func raftCfg() raft.Configuration {
	return raft.Configuration{Servers: []raft.Server{{ID: "1", Address: "localhost:1"}}}
}

// snapshotInto persists the current state of the source database into the store
// exactly as store.fsmSnapshot + raft do: full = checkpoint + stream of the main
// file; incremental = compacted WAL into the staging dir + path header.
func (s *snapSource) snapshotInto(str *snapshot.Store, full bool) (string, uint64, error) {
	index := uint64(s.rows)
	var rc io.ReadCloser
	if full {
		if _, _, err := s.cm.Checkpoint(nil, 2*time.Second); err != nil {
			return "", 0, fmt.Errorf("checkpoint(full): %w", err)
		}
		st, err := snapshot.NewSnapshotStreamer(s.d.Path())
		if err != nil {
			return "", 0, err
		}
		if err := st.Open(); err != nil {
			return "", 0, err
		}
		rc = st
	} else {
		walDir := filepath.Join(s.dir, "wal-staging")
		if err := os.MkdirAll(walDir, 0755); err != nil {
			return "", 0, err
		}
		sd := snapshot.NewStagingDir(walDir)
		w, _, err := sd.CreateWAL()
		if err != nil {
			return "", 0, err
		}
		if _, _, err := s.cm.Checkpoint(w, 2*time.Second); err != nil {
			w.Cancel()
			return "", 0, fmt.Errorf("checkpoint(inc): %w", err)
		}
		if err := w.Close(); err != nil {
			return "", 0, err
		}
		st, err := snapshot.NewSnapshotPathStreamer(sd.Path())
		if err != nil {
			return "", 0, err
		}
		rc = st
	}
	sink, err := str.Create(1, index, 1, raftCfg(), 1, nil)
	if err != nil {
		rc.Close()
		return "", 0, err
	}
	// the ID carries the creation time in ms; a reap names the consolidated snapshot with
	// the time of the reap: keep the two apart so that an ID never names two contents
	time.Sleep(2 * time.Millisecond)
	if err := snapshot.NewStateReader(rc).Persist(sink); err != nil {
		sink.Cancel()
		return "", 0, fmt.Errorf("persist: %w", err)
	}
	if err := sink.Close(); err != nil {
		return "", 0, fmt.Errorf("sink close: %w", err)
	}
	return sink.ID(), index, nil
}

// ------------------------------------------------------------------ stream oracle

func crcOf(b []byte) uint32 {
	r := rsum.NewCRC32Reader(bytes.NewReader(b))
	io.Copy(io.Discard, r)
	return r.Sum32()
}

// checkStream compares what one stream delivered with the snapshot it opened:
// every completely delivered file must match size and CRC32 of the stream's own
// header; a complete stream must restore to a database holding exactly the rows of
// raft index `index`.  Returns "ok" or the class of the mismatch.
func checkStream(data []byte, complete bool, index uint64, tmp string) string {
	if len(data) < 4 {
		if complete {
			return "short-stream"
		}
		return "ok"
	}
	hl := int(binary.BigEndian.Uint32(data[:4]))
	if len(data) < 4+hl {
		if complete {
			return "short-header"
		}
		return "ok"
	}
	hdr, err := snapshot.UnmarshalSnapshotHeader(data[4 : 4+hl])
	if err != nil {
		return "bad-header"
	}
	full := hdr.GetFull()
	if full == nil || full.DbHeader == nil {
		return "bad-header"
	}
	off := 4 + hl
	type seg struct {
		name string
		sz   int
		crc  uint32
	}
	segs := []seg{{"db", int(full.DbHeader.SizeBytes), full.DbHeader.Crc32}}
	for i, w := range full.WalHeaders {
		segs = append(segs, seg{fmt.Sprintf("wal%d", i), int(w.SizeBytes), w.Crc32})
	}
	for _, s := range segs {
		if len(data) < off+s.sz {
			if complete {
				return "short-" + s.name
			}
			return "ok" // the rest was not delivered; nothing more to compare
		}
		if crcOf(data[off:off+s.sz]) != s.crc {
			if strings.HasPrefix(s.name, "wal") {
				return "crc-wal"
			}
			return "crc-db"
		}
		off += s.sz
	}
	if !complete {
		return "ok"
	}
	if len(data) != off {
		return "trailing-bytes"
	}
	// snapshot.Restore puts its WAL scratch files next to the destination: one directory per restore
	rdir := filepath.Join(tmp, fmt.Sprintf("restore-%d", restoreN.Add(1)))
	if err := os.MkdirAll(rdir, 0755); err != nil {
		return "ok"
	}
	defer os.RemoveAll(rdir)
	dst := filepath.Join(rdir, "restored.db")
	if _, err := snapshot.Restore(bytes.NewReader(data), dst); err != nil {
		emit("h", "h.note", "restore_err", err.Error())
		return "restore-failed"
	}
	d, err := db.Open(dst, false, false)
	if err != nil {
		return "restore-open-failed"
	}
	defer d.Close()
	rows, err := d.QueryStringStmt("SELECT COUNT(*), COALESCE(SUM(k),0), COALESCE(SUM(LENGTH(v)),0) FROM t")
	if err != nil || len(rows) != 1 || rows[0].GetError() != "" || len(rows[0].Values) != 1 {
		return "restore-query-failed"
	}
	v := rows[0].Values[0].Parameters
	c, k, l := expectContent(index)
	if v[0].GetI() != c || v[1].GetI() != k || v[2].GetI() != l {
		return "rows-differ"
	}
	return "ok"
}

var restoreN atomic.Int64

// ------------------------------------------------------------------ trace plumbing

type lsState struct {
	closes   []string
	released int
}

type streamsRec struct {
	w    *ndWriter
	base atomic.Uint64
	mu   sync.Mutex
	ls   map[uint64]*lsState
	nev  map[string]int
	muts int

	mutAt     time.Time
	maxReapMs int64
}

func (t *streamsRec) install() {
	vhook.SetSink(func(e vhook.Event) {
		keep := strings.HasPrefix(e.Ev, "mrsw.") || strings.HasPrefix(e.Ev, "ls.") ||
			e.Ev == "reap.mutate" || e.Ev == "reap.done" || strings.HasPrefix(e.Ev, "h.") // other reap.* hooks belong to C07
		if !keep {
			return
		}
		m := make(map[string]any, len(e.KV)+1)
		for k, v := range e.KV {
			m[k] = v
		}
		m["ev"] = e.Ev
		flush := false
		if id, ok := m["ls"].(uint64); ok {
			id -= t.base.Load()
			m["ls"] = id
			t.mu.Lock()
			st := t.ls[id]
			if st == nil {
				st = &lsState{}
				t.ls[id] = st
			}
			switch e.Ev {
			case "ls.close":
				st.closes = append(st.closes, fmt.Sprint(m["by"]))
				if len(st.closes) > 1 {
					// the second EndRead may panic ("reader count went negative"): get the trace out first
					flush = true
					fmt.Fprintf(os.Stderr, "VERIF-DOUBLE-RELEASE ls=%d by=%s\n", id, strings.Join(st.closes, "+"))
				}
			case "ls.released":
				st.released++
			}
			t.mu.Unlock()
		}
		t.mu.Lock()
		t.nev[e.Ev]++
		switch e.Ev {
		case "reap.mutate":
			t.muts++
			t.mutAt = time.Now()
		case "reap.done":
			d := time.Since(t.mutAt).Milliseconds()
			m["dur_ms"] = d
			if d > t.maxReapMs {
				t.maxReapMs = d
			}
		}
		t.mu.Unlock()
		t.w.Write(m)
		// a violation of the lock protocol makes the lock panic: every event must be on disk by then
		_ = flush
		t.w.mu.Lock()
		t.w.w.Flush()
		t.w.mu.Unlock()
	})
}

func (t *streamsRec) reset(run int, kind string) {
	t.mu.Lock()
	t.ls = map[uint64]*lsState{}
	t.mu.Unlock()
	t.base.Store(vhook.ID())
	t.w.Write(map[string]any{"ev": "reset", "run": run, "kind": kind})
}

func (t *streamsRec) released(id uint64) bool {
	t.mu.Lock()
	defer t.mu.Unlock()
	st := t.ls[id]
	return st != nil && st.released > 0
}

func (t *streamsRec) count(ev string) int {
	t.mu.Lock()
	defer t.mu.Unlock()
	return t.nev[ev]
}

func waitUntil(d time.Duration, f func() bool) bool {
	deadline := time.Now().Add(d)
	for {
		if f() {
			return true
		}
		if time.Now().After(deadline) {
			return false
		}
		time.Sleep(500 * time.Microsecond)
	}
}

// ------------------------------------------------------------------ one store under test

type streamsRun struct {
	rec     *streamsRec
	dir     string
	src     *snapSource
	str     *snapshot.Store
	timeout time.Duration
	nopen   atomic.Int64
	refMu   sync.Mutex
	ref     map[string][]byte // first complete stream per snapshot ID
	seen    []string          // snapshot IDs handed out by ListAll
	opened  sync.Map          // ls id -> struct{}
	stats   *streamsStats
}

type streamsStats struct {
	mu                                                                   sync.Mutex
	Runs, Streams, Complete, Timeouts, Abandoned, Races, Doubles, Early  int
	ListConflicts, Scheds                                                 int
	OpenConflicts, OpenNotFound, Sinks, XReapOK, XReapConflict, Mutations int
	Stuck, Mismatch, Directed, Handoffs, HandoffLost                      int
	Events                                                                int
}

func (s *streamsStats) add(f func(*streamsStats)) { s.mu.Lock(); f(s); s.mu.Unlock() }

func newStreamsRun(rec *streamsRec, st *streamsStats, root string, n int, threshold int, timeout time.Duration) (*streamsRun, error) {
	dir := filepath.Join(root, fmt.Sprintf("run%d", n))
	if err := os.MkdirAll(filepath.Join(dir, "snaps"), 0755); err != nil {
		return nil, err
	}
	src, err := newSnapSource(dir)
	if err != nil {
		return nil, err
	}
	str, err := snapshot.NewStore(filepath.Join(dir, "snaps"))
	if err != nil {
		return nil, err
	}
	str.SetReapThreshold(threshold)
	str.SetReadTimeout(timeout)
	vhook.Name(str.VerifMRSW(), "mrsw")
	return &streamsRun{rec: rec, dir: dir, src: src, str: str, timeout: timeout, ref: map[string][]byte{}, stats: st}, nil
}

func (r *streamsRun) sink(full bool, rows int) error {
	if err := r.src.addRows(rows); err != nil {
		return err
	}
	id, idx, err := r.src.snapshotInto(r.str, full)
	if err != nil {
		return err
	}
	r.stats.add(func(s *streamsStats) { s.Sinks++ })
	emit("h", "h.sink", "id", id, "index", idx, "full", full)
	return nil
}

// open opens the newest (or a random) snapshot.  nil when the store refused.
type openStream struct {
	mu    sync.Mutex
	id    uint64 // ls id relative to the run
	snap  string
	index uint64
	rc    io.ReadCloser
	data  []byte
}

func (r *streamsRun) open(rng *rand.Rand) *openStream {
	if r.nopen.Load() >= maxStreamsPerRun {
		return nil
	}
	if rng != nil && rng.Intn(4) == 0 {
		// a consumer that got the ID earlier (raft does List and Open separately): the snapshot may be
		// gone by now, or a reap may be running
		r.refMu.Lock()
		var id string
		if n := len(r.seen); n > 0 {
			id = r.seen[n-1-rng.Intn(min(n, 3))]
		}
		r.refMu.Unlock()
		if id != "" {
			return r.openID(id)
		}
	}
	metas, err := r.str.ListAll()
	if err != nil {
		r.stats.add(func(s *streamsStats) { s.ListConflicts++ })
		return nil
	}
	if len(metas) == 0 {
		return nil
	}
	m := metas[0]
	if rng != nil && rng.Intn(3) == 0 {
		m = metas[rng.Intn(len(metas))]
	}
	r.refMu.Lock()
	r.seen = append(r.seen, m.ID)
	r.refMu.Unlock()
	return r.openID(m.ID)
}

func (r *streamsRun) openID(id string) *openStream {
	if r.nopen.Add(1) > maxStreamsPerRun {
		return nil
	}
	meta, rc, err := r.str.Open(id)
	if err != nil {
		r.nopen.Add(-1)
		why := "other"
		switch {
		case strings.Contains(err.Error(), "MSRW conflict"):
			why = "conflict"
			r.stats.add(func(s *streamsStats) { s.OpenConflicts++ })
		case errors.Is(err, snapshot.ErrSnapshotNotFound) || strings.Contains(err.Error(), "not found") || strings.Contains(err.Error(), "no such file"):
			why = "notfound"
			r.stats.add(func(s *streamsStats) { s.OpenNotFound++ })
		}
		emit("h", "h.openfail", "id", id, "why", why)
		return nil
	}
	o := &openStream{id: snapshot.VerifStreamerID(rc) - r.rec.base.Load(), snap: id, index: meta.Index, rc: rc}
	r.opened.Store(o.id, struct{}{})
	return o
}

// read reads up to n bytes; returns "" while the stream goes on, else how it ended.
func (o *openStream) read(n int) string {
	o.mu.Lock()
	defer o.mu.Unlock()
	buf := make([]byte, n)
	k, err := o.rc.Read(buf)
	o.data = append(o.data, buf[:k]...)
	switch {
	case err == nil:
		return ""
	case err == io.EOF:
		return "eof"
	case errors.Is(err, snapshot.ErrSnapshotReaderTimeout):
		return "timeout"
	case errors.Is(err, os.ErrClosed) || strings.Contains(err.Error(), "file already closed"):
		return "closed"
	default:
		return "err"
	}
}

// report validates what the stream delivered and logs the verdict.
func (r *streamsRun) report(o *openStream, end string) {
	complete := end == "eof"
	verdict := checkStream(o.data, complete, o.index, r.dir)
	if verdict == "ok" {
		r.refMu.Lock()
		ref, ok := r.ref[o.snap]
		if !ok && complete {
			r.ref[o.snap] = o.data
		} else if ok && !bytes.HasPrefix(ref, o.data) {
			verdict = "differs-from-other-stream"
		}
		r.refMu.Unlock()
	}
	if end == "err" {
		verdict = "read-error"
	}
	r.stats.add(func(s *streamsStats) {
		s.Streams++
		if complete {
			s.Complete++
		}
		if verdict != "ok" {
			s.Mismatch++
		}
	})
	emit("h", "h.stream", "ls", o.id+r.rec.base.Load(), "snap", o.snap, "n", len(o.data), "end", end, "content", verdict)
}

// consume plays one consumer behaviour on an open stream.
func (r *streamsRun) consume(rng *rand.Rand, o *openStream, mode int) {
	T := r.timeout
	chunk := func() int { return 1 + rng.Intn(6000) }
	some := func() string {
		for i, n := 0, rng.Intn(4); i < n; i++ {
			if e := o.read(chunk()); e != "" {
				return e
			}
		}
		return ""
	}
	end := ""
	switch mode {
	case 0: // drain
		for end == "" {
			end = o.read(chunk())
			if end == "" && rng.Intn(5) == 0 {
				time.Sleep(time.Duration(rng.Int63n(int64(T)/4 + 1)))
			}
		}
		o.rc.Close()
	case 1: // early close
		end = some()
		o.rc.Close()
		if end == "" {
			end = "early"
		}
		r.stats.add(func(s *streamsStats) { s.Early++ })
	case 2: // stall beyond the idle timeout, then come back and close late
		end = some()
		if end == "" {
			time.Sleep(2*T + time.Duration(rng.Int63n(int64(T))))
			for end == "" {
				end = o.read(chunk())
			}
		}
		o.rc.Close()
		if end == "timeout" || end == "closed" {
			r.stats.add(func(s *streamsStats) { s.Timeouts++ })
		}
	case 3: // stall for ever: never closed by the consumer
		end = some()
		if end == "" {
			end = "abandoned"
		}
		r.stats.add(func(s *streamsStats) { s.Abandoned++ })
	case 4: // Close arrives when the idle timer fires
		end = some()
		if end == "" {
			d := T + time.Duration(rng.Int63n(int64(400*time.Microsecond))) - 200*time.Microsecond
			time.Sleep(d)
			end = "race"
		}
		o.rc.Close()
		r.stats.add(func(s *streamsStats) { s.Races++ })
	default: // several Close calls, concurrently
		end = some()
		var wg sync.WaitGroup
		for i := 0; i < 2+rng.Intn(2); i++ {
			wg.Add(1)
			go func() { defer wg.Done(); o.rc.Close() }()
		}
		wg.Wait()
		if end == "" {
			if end = o.read(16); end == "" || end == "closed" { // whatever a closed stream still delivers is checked too
				end = "double"
			}
		}
		r.stats.add(func(s *streamsStats) { s.Doubles++ })
	}
	r.report(o, end)
}

// finish brings the store to quiescence and reports anything that stays stuck.
func (r *streamsRun) finish() {
	// "should complete" is judged generously: a reap fsyncs, and on a loaded machine that takes long
	// (seen: 19 s between reap.mutate and reap.done at a load average of 55)
	long := 90*time.Second + 4*r.timeout
	// every streamer ever opened must have been released (by Close or by the idle timer)
	ok := waitUntil(long, func() bool {
		all := true
		r.opened.Range(func(k, _ any) bool {
			if !r.rec.released(k.(uint64)) {
				all = false
			}
			return all
		})
		return all
	})
	if !ok {
		emit("h", "h.stuck", "what", "stream-never-released")
		r.stats.add(func(s *streamsStats) { s.Stuck++ })
	}
	// then the lock must become free for a writer
	ok = false
	for deadline := time.Now().Add(long); !ok && time.Now().Before(deadline); {
		_, _, err := r.str.Reap()
		if err != nil && !strings.Contains(err.Error(), "MSRW conflict") {
			emit("h", "h.reaperr", "err", err.Error())
		}
		if ok = err == nil || !strings.Contains(err.Error(), "MSRW conflict"); !ok {
			time.Sleep(10 * time.Millisecond)
		}
	}
	if !ok {
		emit("h", "h.stuck", "what", "lock-never-free")
		r.stats.add(func(s *streamsStats) { s.Stuck++ })
	}
	emit("h", "h.quiesce")
	done := make(chan struct{})
	go func() { r.str.Close(); close(done) }()
	select {
	case <-done:
	case <-time.After(long):
		emit("h", "h.stuck", "what", "reaper-never-returned")
		r.stats.add(func(s *streamsStats) { s.Stuck++ })
	}
	r.src.close()
	os.RemoveAll(r.dir)
}

// ------------------------------------------------------------------ (C) free-running runs

func streamsFree(rec *streamsRec, st *streamsStats, root string, n int) error {
	rng := newRand(int64(n))
	T := time.Duration(4+rng.Intn(12)) * time.Millisecond
	r, err := newStreamsRun(rec, st, root, n, 2+rng.Intn(3), T)
	if err != nil {
		return err
	}
	if err := r.sink(true, 20+rng.Intn(60)); err != nil {
		return err
	}
	rec.reset(n, "free")
	var wg sync.WaitGroup
	stop := make(chan struct{})
	var firstErr atomic.Value
	// sinks
	nsinks := 3 + rng.Intn(6)
	sseed := rng.Int63()
	wg.Add(1)
	go func() {
		defer wg.Done()
		g := rand.New(rand.NewSource(sseed))
		for i := 0; i < nsinks; i++ {
			time.Sleep(time.Duration(g.Intn(4000)) * time.Microsecond)
			if err := r.sink(g.Intn(9) == 0, 1+g.Intn(30)); err != nil {
				firstErr.Store(err)
				return
			}
		}
	}()
	// consumers
	for c, nc := 0, 2+rng.Intn(3); c < nc; c++ {
		seed := rng.Int63()
		wg.Add(1)
		go func() {
			defer wg.Done()
			g := rand.New(rand.NewSource(seed))
			for i, n := 0, 4+g.Intn(8); i < n; i++ {
				o := r.open(g)
				if o == nil {
					time.Sleep(time.Duration(g.Intn(1500)) * time.Microsecond)
					continue
				}
				mode := []int{0, 0, 0, 1, 1, 2, 3, 4, 4, 5}[g.Intn(10)]
				r.consume(g, o, mode)
				if g.Intn(3) == 0 {
					time.Sleep(time.Duration(g.Intn(2000)) * time.Microsecond)
				}
			}
		}()
	}
	// short anonymous readers and explicit reaps
	var bg sync.WaitGroup
	for c := 0; c < 2; c++ {
		seed := rng.Int63()
		xr := c == 0
		bg.Add(1)
		go func() {
			defer bg.Done()
			g := rand.New(rand.NewSource(seed))
			for {
				select {
				case <-stop:
					return
				default:
				}
				if xr && g.Intn(4) == 0 {
					_, _, err := r.str.Reap()
					st.add(func(s *streamsStats) {
						if err == nil {
							s.XReapOK++
						} else {
							s.XReapConflict++
						}
					})
				} else {
					switch g.Intn(3) {
					case 0:
						r.str.Len()
					case 1:
						r.str.Stats()
					default:
						r.str.LatestIndexTerm()
					}
				}
				time.Sleep(time.Duration(g.Intn(3000)) * time.Microsecond)
			}
		}()
	}
	wg.Wait()
	close(stop)
	bg.Wait()
	if e, _ := firstErr.Load().(error); e != nil {
		return e
	}
	r.finish()
	return nil
}

// ------------------------------------------------------------------ (B) directed schedules

// parked: the auto-reaper is inside BeginWriteBlocking and has not got the lock.
func (r *streamsRun) reaperParked(before int) bool {
	time.Sleep(30 * time.Millisecond) // "should be blocked": short
	return r.rec.count("mrsw.bwriteb") == before
}

// streamsDirected forces the schedules of the four negative-control witnesses of
// Streams.tla on the real store.
func streamsDirected(rec *streamsRec, st *streamsStats, root string, n int, which int) error {
	rng := newRand(int64(1000 + n))
	T := time.Duration(8+rng.Intn(8)) * time.Millisecond
	if which == 0 || which == 3 {
		T = 400 * time.Millisecond // streams stay open across the schedule
	}
	r, err := newStreamsRun(rec, st, root, 100000+n, 2, T)
	if err != nil {
		return err
	}
	// a full and an incremental snapshot, with the auto-reaper held back until the schedule says so
	gate := make(chan struct{})
	var gated atomic.Bool
	gated.Store(true)
	vhook.SetGate(func(point string, kv ...any) {
		if point == "reap.acquire" && gated.Load() {
			<-gate
		}
	})
	defer vhook.SetGate(nil)
	if err := r.sink(true, 30+rng.Intn(30)); err != nil {
		return err
	}
	if err := r.sink(false, 5+rng.Intn(20)); err != nil {
		return err
	}
	rec.reset(n, fmt.Sprintf("directed%d", which))
	st.add(func(s *streamsStats) { s.Directed++ })
	release := func() { gated.Store(false); close(gate) }
	switch which {
	case 0:
		// ReaperWaitsForReaders: A open | reaper parks | A.Close and B.Open back to back, so that B is a
		// reader before the woken reaper re-acquires the lock's mutex | the reaper must go back to sleep
		// while B streams | B closes | the reaper runs.
		a := r.open(nil)
		if a == nil {
			return errors.New("directed0: open A failed")
		}
		nb := rec.count("mrsw.bwriteb")
		release()
		if !r.reaperParked(nb) {
			// reaping while A is open: the trace shows it; nothing more to drive
			r.report(a, "early")
			a.rc.Close()
			break
		}
		a.read(64)
		prev := runtime.GOMAXPROCS(1)
		a.rc.Close()
		b := r.openID(a.snap)
		runtime.GOMAXPROCS(prev)
		r.report(a, "early")
		if b == nil {
			st.add(func(s *streamsStats) { s.HandoffLost++ }) // the reaper won the race: legal, inconclusive
			break
		}
		st.add(func(s *streamsStats) { s.Handoffs++ })
		end := ""
		for i := 0; end == "" && i < 6; i++ { // B keeps streaming slowly while the reaper must wait
			end = b.read(1 + rng.Intn(3000))
			time.Sleep(5 * time.Millisecond)
		}
		for end == "" {
			end = b.read(8192)
		}
		b.rc.Close()
		r.report(b, end)
	case 1:
		// ReleaseOnce: the idle timer and Close meet.  Both are parked at their entry gates and then
		// let go in a chosen order (or together).
		order := n % 3
		idleAt, closeAt := make(chan struct{}), make(chan struct{})
		goIdle, goClose := make(chan struct{}), make(chan struct{})
		var once1, once2 sync.Once
		vhook.SetGate(func(point string, kv ...any) {
			switch point {
			case "ls.idle":
				once1.Do(func() { close(idleAt); <-goIdle })
			case "ls.close":
				once2.Do(func() { close(closeAt); <-goClose })
			}
		})
		a := r.open(nil)
		if a == nil {
			return errors.New("directed1: open failed")
		}
		release() // the reaper parks behind the stream: a second release would let it in
		a.read(100)
		select { // the real timer fires after T of inactivity
		case <-idleAt:
		case <-time.After(5 * time.Second):
			emit("h", "h.stuck", "what", "idle-timer-never-fired")
		}
		cdone := make(chan struct{})
		go func() { a.rc.Close(); close(cdone) }()
		<-closeAt
		switch order {
		case 0:
			close(goIdle)
			waitUntil(2*time.Second, func() bool { return rec.released(a.id) })
			close(goClose)
		case 1:
			close(goClose)
			<-cdone
			close(goIdle)
		default:
			close(goIdle)
			close(goClose)
		}
		<-cdone
		a.rc.Close() // and once more
		r.report(a, "race")
		st.add(func(s *streamsStats) { s.Races++ })
		vhook.SetGate(nil)
	case 2:
		// IdleForceClose: a consumer stalls for ever while the reaper waits; the reaper must get through.
		a := r.open(nil)
		if a == nil {
			return errors.New("directed2: open failed")
		}
		a.read(200)
		nm := rec.count("reap.done")
		release()
		if !waitUntil(90*time.Second+4*T, func() bool { return rec.count("reap.done") > nm }) {
			emit("h", "h.stuck", "what", "reaper-behind-stalled-stream")
			st.add(func(s *streamsStats) { s.Stuck++ })
		}
		e := a.read(100) // the stalled consumer wakes up: must get an error, not bytes of rewritten files
		if e == "" {
			e = "early"
		}
		r.report(a, e)
		st.add(func(s *streamsStats) { s.Abandoned++ })
	default:
		// StreamHoldsReadLock: while a stream is open an explicit Reap must conflict and the auto-reaper
		// must stay parked; the stream then delivers exactly its snapshot.
		a := r.open(nil)
		if a == nil {
			return errors.New("directed3: open failed")
		}
		nb := rec.count("mrsw.bwriteb")
		release()
		for i := 0; i < 3; i++ {
			_, _, err := r.str.Reap()
			st.add(func(s *streamsStats) {
				if err == nil {
					s.XReapOK++
				} else {
					s.XReapConflict++
				}
			})
			a.read(1 + rng.Intn(500))
		}
		r.reaperParked(nb)
		end := ""
		for end == "" {
			end = a.read(4096)
		}
		a.rc.Close()
		r.report(a, end)
	}
	if gated.Load() {
		release()
	}
	r.finish()
	return nil
}

// ------------------------------------------------------------------ (B) schedules generated by TLC

// gateCtl parks goroutines of the code under test at named vhook.Gate points.
type gateCtl struct {
	mu     sync.Mutex
	on     map[string]bool
	ch     map[string]chan struct{}
	parked map[string]int
}

func newGateCtl(points ...string) *gateCtl {
	g := &gateCtl{on: map[string]bool{}, ch: map[string]chan struct{}{}, parked: map[string]int{}}
	for _, p := range points {
		g.on[p] = true
	}
	return g
}

func (g *gateCtl) fn(point string, kv ...any) {
	g.mu.Lock()
	if !g.on[point] {
		g.mu.Unlock()
		return
	}
	ch := g.ch[point]
	if ch == nil {
		ch = make(chan struct{})
		g.ch[point] = ch
	}
	g.parked[point]++
	g.mu.Unlock()
	<-ch
	g.mu.Lock()
	g.parked[point]--
	g.mu.Unlock()
}

// release lets everybody parked at point go; later arrivals park again.
func (g *gateCtl) release(point string) {
	g.mu.Lock()
	if ch := g.ch[point]; ch != nil {
		close(ch)
		delete(g.ch, point)
	}
	g.mu.Unlock()
}

func (g *gateCtl) waitParked(point string, d time.Duration) bool {
	return waitUntil(d, func() bool {
		g.mu.Lock()
		defer g.mu.Unlock()
		return g.parked[point] > 0 && g.ch[point] != nil
	})
}

func (g *gateCtl) openAll() {
	g.mu.Lock()
	g.on = map[string]bool{}
	for p, ch := range g.ch {
		close(ch)
		delete(g.ch, p)
	}
	g.mu.Unlock()
}

// streamsSched replays one schedule printed by StreamsGen.tla (steps the driver can force; the
// real code takes the others by itself).  The verdict is the trace, as for every other run.
func streamsSched(rec *streamsRec, st *streamsStats, root string, n int, sched []string) error {
	rng := newRand(int64(5000 + n))
	T := 50 * time.Millisecond
	r, err := newStreamsRun(rec, st, root, 200000+n, 2, T)
	if err != nil {
		return err
	}
	g := newGateCtl("reap.acquire", "reap.mutate", "reap.release")
	vhook.SetGate(g.fn)
	defer vhook.SetGate(nil)
	if err := r.sink(true, 20+rng.Intn(40)); err != nil {
		return err
	}
	rec.reset(n, "sched")
	st.add(func(s *streamsStats) { s.Scheds++ })
	type slot struct {
		o      *openStream
		paused bool
		end    string
		done   bool // closed by the driver and reported
	}
	var smu sync.Mutex
	slots := map[string]*slot{}
	stop := make(chan struct{})
	var kwg sync.WaitGroup
	kwg.Add(1)
	go func() { // consumers that are not paused keep reading slowly, so that only paused ones go idle
		defer kwg.Done()
		for {
			select {
			case <-stop:
				return
			case <-time.After(T / 5):
			}
			smu.Lock()
			for _, sl := range slots {
				if sl.o != nil && !sl.paused && !sl.done && sl.end == "" {
					sl.end = sl.o.read(1)
				}
			}
			smu.Unlock()
		}
	}()
	var xwg sync.WaitGroup
	for i := 0; i < len(sched); i++ {
		op, arg, _ := strings.Cut(sched[i], ":")
		smu.Lock()
		sl := slots[arg]
		smu.Unlock()
		switch op {
		case "O":
			if sl == nil || sl.done {
				if o := r.open(nil); o != nil {
					smu.Lock()
					slots[arg] = &slot{o: o}
					smu.Unlock()
				}
			}
		case "R":
			if sl != nil && !sl.done {
				smu.Lock()
				if sl.end == "" {
					sl.end = sl.o.read(1 + rng.Intn(3000))
					sl.paused = false
				}
				smu.Unlock()
			}
		case "P":
			if sl != nil && !sl.done {
				smu.Lock()
				sl.paused = true
				smu.Unlock()
			}
		case "C":
			if sl != nil && !sl.done {
				// a Close directly followed by an Open is a hand-off: the new reader arrives before a
				// writer woken by this Close can re-check (one P, nothing in between, no directory scan)
				var next string
				if i+1 < len(sched) && strings.HasPrefix(sched[i+1], "O:") {
					next = strings.TrimPrefix(sched[i+1], "O:")
				}
				smu.Lock()
				nsl := slots[next]
				smu.Unlock()
				if next != "" && next != arg && (nsl == nil || nsl.done) {
					prevP := runtime.GOMAXPROCS(1)
					sl.o.rc.Close()
					o := r.openID(sl.o.snap)
					runtime.GOMAXPROCS(prevP)
					if o != nil {
						smu.Lock()
						slots[next] = &slot{o: o}
						smu.Unlock()
						st.add(func(s *streamsStats) { s.Handoffs++ })
					} else {
						st.add(func(s *streamsStats) { s.HandoffLost++ })
					}
					i++
				} else {
					sl.o.rc.Close()
				}
				smu.Lock()
				end := sl.end
				sl.done = true
				smu.Unlock()
				if end == "" {
					end = "early"
				}
				r.report(sl.o, end)
			}
		case "I":
			if sl != nil && !sl.done && sl.paused {
				waitUntil(2*time.Second, func() bool { return rec.released(sl.o.id) })
			}
		case "K":
			if err := r.sink(false, 1+rng.Intn(10)); err != nil {
				return err
			}
		case "X":
			xwg.Add(1)
			go func() { defer xwg.Done(); r.str.Reap() }()
		case "B":
			if g.waitParked("reap.acquire", 100*time.Millisecond) {
				g.release("reap.acquire")
			}
		case "M":
			if g.waitParked("reap.mutate", 100*time.Millisecond) {
				g.release("reap.mutate")
			}
		case "E":
			if g.waitParked("reap.release", 300*time.Millisecond) {
				g.release("reap.release")
			}
		}
		time.Sleep(time.Duration(500+rng.Intn(1500)) * time.Microsecond)
	}
	g.openAll()
	close(stop)
	kwg.Wait()
	xwg.Wait()
	smu.Lock()
	for _, sl := range slots {
		if sl.o != nil && !sl.done {
			end := sl.end
			if !sl.paused { // active consumers finish; paused ones stay stalled and are left to the idle timer
				sl.o.rc.Close()
				if end == "" {
					end = "early"
				}
			} else if end == "" {
				end = "abandoned"
			}
			r.report(sl.o, end)
		}
	}
	smu.Unlock()
	r.finish()
	return nil
}

// ------------------------------------------------------------------ command

func streamsTrace(args []string) error {
	fs := flag.NewFlagSet("streams-trace", flag.ExitOnError)
	out := fs.String("out", "trace.ndjson", "")
	runs := fs.Int("runs", 40, "free-running runs")
	directed := fs.Int("directed", 12, "directed schedules (4 kinds, round robin)")
	only := fs.Int("only", -1, "only this directed kind")
	schedF := fs.String("sched", "", "JSON file with schedules generated from StreamsGen.tla")
	fs.Parse(args)
	quietLogs()
	root, err := os.MkdirTemp("", "streams-")
	if err != nil {
		return err
	}
	defer os.RemoveAll(root)
	// the snapshot store logs to os.Stderr directly; keep it out of the way of our own stderr lines
	w, err := newND(*out)
	if err != nil {
		return err
	}
	rec := &streamsRec{w: w, ls: map[uint64]*lsState{}, nev: map[string]int{}}
	rec.install()
	st := &streamsStats{}
	for i := 0; i < *directed; i++ {
		k := i % 4
		if *only >= 0 {
			k = *only
		}
		if err := streamsDirected(rec, st, root, i, k); err != nil {
			return err
		}
	}
	if *schedF != "" {
		b, err := os.ReadFile(*schedF)
		if err != nil {
			return err
		}
		var scheds [][]string
		if err := json.Unmarshal(b, &scheds); err != nil {
			return err
		}
		for i, sc := range scheds {
			if err := streamsSched(rec, st, root, i, sc); err != nil {
				return err
			}
		}
	}
	for i := 0; i < *runs; i++ {
		if err := streamsFree(rec, st, root, i); err != nil {
			return err
		}
		st.Runs++
	}
	vhook.SetSink(nil)
	if err := w.Close(); err != nil {
		return err
	}
	st.Events = w.n
	st.Mutations = rec.muts
	fmt.Printf("{\"runs\":%d,\"scheds\":%d,\"directed\":%d,\"events\":%d,\"streams\":%d,\"complete\":%d,\"timeouts\":%d,\"abandoned\":%d,\"races\":%d,\"doubles\":%d,\"early\":%d,"+
		"\"list_conflicts\":%d,\"open_conflicts\":%d,\"open_notfound\":%d,\"sinks\":%d,\"xreap_ok\":%d,\"xreap_conflict\":%d,\"reap_mutations\":%d,\"handoffs\":%d,\"handoff_lost\":%d,\"stuck\":%d,\"mismatch\":%d,\"max_reap_ms\":%d}\n",
		st.Runs, st.Scheds, st.Directed, st.Events, st.Streams, st.Complete, st.Timeouts, st.Abandoned, st.Races, st.Doubles, st.Early,
		st.ListConflicts, st.OpenConflicts, st.OpenNotFound, st.Sinks, st.XReapOK, st.XReapConflict, st.Mutations, st.Handoffs, st.HandoffLost, st.Stuck, st.Mismatch, rec.maxReapMs)
	return nil
}
