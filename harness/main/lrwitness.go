package main

// lr-witness (C02/C16): replays on a real cluster the TLC witness of Cluster_neg_RecheckTerm.cfg —
// the behaviour in which the term re-check is the only guard that stops a linearizable read:
//   leader n has served a strong read in term T; a linearizable read on n passes the
//   strong-read-term check and the leader check and is then held (gate "lr.leader");
//   leadership moves to m (term T+1), a write is acknowledged there and applied on n,
//   leadership moves back to n (term > T+1); the read is released.
// The switched-on design aborts the read (term changed).  The trace goes to TraceCluster.tla,
// whose LrTermOk action flags a read that continued although the node had shown a higher term
// before its verification finished.

import (
	"encoding/json"
	"errors"
	"flag"
	"fmt"
	"os"
	"sync"
	"time"

	"github.com/rqlite/rqlite/v10/command/proto"
	"github.com/rqlite/rqlite/v10/internal/vhook"
)

func init() { register("lr-witness", lrWitness) }

type gatePark struct {
	mu      sync.Mutex
	point   string
	inst    string
	armed   bool
	parked  chan struct{}
	release chan struct{}
}

func (g *gatePark) arm(point, inst string) {
	g.mu.Lock()
	g.point, g.inst, g.armed = point, inst, true
	g.parked = make(chan struct{})
	g.release = make(chan struct{})
	g.mu.Unlock()
}

func (g *gatePark) fn(point string, kv ...any) {
	g.mu.Lock()
	if !g.armed || point != g.point || (g.inst != "" && (len(kv) == 0 || fmt.Sprint(kv[0]) != g.inst)) {
		g.mu.Unlock()
		return
	}
	g.armed = false
	p, r := g.parked, g.release
	g.mu.Unlock()
	close(p)
	<-r
}

type lrWitnessStats struct {
	Runs, Aborted, Continued, Other int
	Errors                          []string
}

func lrWitness(args []string) error {
	fs := flag.NewFlagSet("lr-witness", flag.ExitOnError)
	out := fs.String("out", "lrw.ndjson", "trace file")
	runs := fs.Int("runs", 2, "witness replays")
	base := fs.String("dir", "", "scratch dir")
	fs.Parse(args)
	if *base == "" {
		*base, _ = os.MkdirTemp("", "vlw")
		defer os.RemoveAll(*base)
	}
	w, err := newND(*out)
	if err != nil {
		return err
	}
	traceTo(w, linFilter)
	defer traceOff()
	g := &gatePark{}
	vhook.SetGate(g.fn)
	defer vhook.SetGate(nil)
	st := lrWitnessStats{}
	for run := 0; run < *runs; run++ {
		emit("", "reset", "run", run, "witness", "RecheckTerm")
		c, err := newCluster(vClusterOpts{N: 3, Base: fmt.Sprintf("%s/w%d", *base, run), NoHTTP: true})
		if err != nil {
			return err
		}
		err = func() error {
			defer c.Close()
			if err := linSetup(c); err != nil {
				return err
			}
			n := c.Leader(10 * time.Second)
			if n == nil {
				return errors.New("no leader")
			}
			// strong read on n: strongReadTerm := T
			if _, err := sQuery(n.Store, proto.ConsistencyLevel_STRONG, "SELECT v FROM reg WHERE k=1"); err != nil {
				return fmt.Errorf("strong read: %w", err)
			}
			// a linearizable read that really is linearizable-path (not upgraded) must now be possible
			if _, err := sQuery(n.Store, proto.ConsistencyLevel_LINEARIZABLE, "SELECT v FROM reg WHERE k=1"); err != nil {
				return fmt.Errorf("plain lin read: %w", err)
			}
			g.arm("lr.leader", n.ID)
			emit("", "note", "witness", "read-start", "node", n.ID)
			type res struct {
				rows []*proto.QueryRows
				err  error
			}
			done := make(chan res, 1)
			go func() {
				rows, err := sQuery(n.Store, proto.ConsistencyLevel_LINEARIZABLE, "SELECT v FROM reg WHERE k=1")
				done <- res{rows, err}
			}()
			select {
			case <-g.parked:
			case r := <-done:
				return fmt.Errorf("read finished without reaching the gate: %v", r.err)
			case <-time.After(10 * time.Second):
				return errors.New("read never reached gate lr.leader")
			}
			// move leadership away: n -> m
			var m *vNode
			for _, x := range c.nodes {
				if x != n {
					m = x
					break
				}
			}
			emit("", "note", "witness", "transfer", "to", m.ID)
			if err := n.Store.Stepdown(true, m.ID); err != nil {
				close(g.release)
				return fmt.Errorf("stepdown to %s: %w", m.ID, err)
			}
			dl := time.Now().Add(10 * time.Second)
			for !m.Store.IsLeader() && time.Now().Before(dl) {
				time.Sleep(20 * time.Millisecond)
			}
			if !m.Store.IsLeader() {
				// some other node won; use it
				m = c.Leader(5 * time.Second)
				if m == nil || m == n {
					close(g.release)
					return errors.New("leadership did not move")
				}
			}
			// acknowledged write in the new term, applied on n as a follower (fsm.apply with the higher term)
			if _, _, err := sExec(m.Store, false, "UPDATE reg SET v=4242 WHERE k=1"); err != nil {
				close(g.release)
				return fmt.Errorf("write on new leader: %w", err)
			}
			if err := c.WaitConverged(10 * time.Second); err != nil {
				close(g.release)
				return err
			}
			// and back to n
			emit("", "note", "witness", "transfer", "to", n.ID)
			if err := m.Store.Stepdown(true, n.ID); err != nil {
				close(g.release)
				return fmt.Errorf("stepdown back: %w", err)
			}
			dl = time.Now().Add(10 * time.Second)
			for !n.Store.IsLeader() && time.Now().Before(dl) {
				time.Sleep(20 * time.Millisecond)
			}
			back := n.Store.IsLeader()
			emit("", "note", "witness", "release", "back", back)
			close(g.release)
			select {
			case r := <-done:
				if r.err != nil {
					st.Aborted++
					emit("", "note", "witness", "read-aborted", "err", r.err.Error())
				} else {
					st.Continued++
					v := int64(-1)
					if len(r.rows) == 1 && len(r.rows[0].Values) == 1 {
						v = r.rows[0].Values[0].Parameters[0].GetI()
					}
					emit("", "note", "witness", "read-served", "val", v)
				}
			case <-time.After(15 * time.Second):
				return errors.New("released read did not return")
			}
			return nil
		}()
		if err != nil {
			st.Other++
			st.Errors = append(st.Errors, err.Error())
			emit("", "note", "witness", "skipped", "err", err.Error())
		}
		st.Runs++
	}
	traceOff()
	if err := w.Close(); err != nil {
		return err
	}
	b, _ := json.Marshal(st)
	fmt.Println(string(b))
	return nil
}
