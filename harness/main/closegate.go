package main

// C31 "Shutdown waits for an in-flight snapshot or backup only as long as needed".
//
// closegate starts real single-node stores and calls Store.Close while the snapshot
// gate (snapshotCAS) is held
//   kind=export    by the harness itself through the verif export, for a chosen duration d,
//   kind=backup    by a real Store.Backup whose destination writer stalls for d,
//   kind=snapshot  by real user-requested Store.Snapshot calls racing with Close,
//   kind=free      by nobody,
//   kind=restart   by the start-up integrity check of a reopened store (80 MB database file),
// with the close call placed at an offset o after the holder took the gate.  Every hook
// event of the gate (cas.begin / cas.end, emitted under its mutex) is time-stamped on
// arrival; one "case" line per run carries, in ticks of 10 ms since the case began:
//   t0   Close called            gate  Close obtained the gate (cas.begin owner=close ok)
//   ready Close's first attempt on the gate (after its optional snapshot-on-close)
//   ret  Close returned          rel   the last release of the gate by anybody else before
//                                      `gate` (ok) / the holder's release (failed close)
// TraceCloseGate.tla evaluates Prompt / MayFail of CloseGate.tla on these values.

import (
	"context"
	"errors"
	"flag"
	"fmt"
	"os"
	"path/filepath"
	"strconv"
	"strings"
	"sync"
	"time"

	"github.com/rqlite/rqlite/v10/command/proto"
	"github.com/rqlite/rqlite/v10/internal/rsync"
	"github.com/rqlite/rqlite/v10/internal/vhook"
	"github.com/rqlite/rqlite/v10/store"
)

func init() { register("closegate", closeGate) }

type cgEvent struct {
	at    time.Time
	ev    string
	owner string
	ok    bool
}

type cgCase struct {
	Kind       string
	D, O       time.Duration
	SnapOnClos bool
}

type stallWriter struct {
	d     time.Duration
	first chan struct{}
	once  sync.Once
	n     int
}

func (w *stallWriter) Write(p []byte) (int, error) {
	w.once.Do(func() { close(w.first); time.Sleep(w.d) })
	w.n += len(p)
	return len(p), nil
}

func ticks(t, base time.Time) int64 {
	if t.IsZero() || t.Before(base) {
		return 0
	}
	return int64(t.Sub(base) / (10 * time.Millisecond))
}

func closeGate(args []string) error {
	fs := flag.NewFlagSet("closegate", flag.ExitOnError)
	out := fs.String("out", "trace.ndjson", "")
	dursF := fs.String("durs", "0,50,500,2000", "holder durations in ms")
	kindsF := fs.String("kinds", "export,backup,snapshot,free,restart", "")
	par := fs.Int("par", 4, "cases run concurrently")
	fs.Parse(args)
	quietLogs()
	root, err := os.MkdirTemp("", "closegate-")
	if err != nil {
		return err
	}
	defer os.RemoveAll(root)
	w, err := newND(*out)
	if err != nil {
		return err
	}
	var durs []time.Duration
	for _, s := range strings.Split(*dursF, ",") {
		ms, err := strconv.Atoi(strings.TrimSpace(s))
		if err != nil {
			return err
		}
		durs = append(durs, time.Duration(ms)*time.Millisecond)
	}
	var cases []cgCase
	for _, k := range strings.Split(*kindsF, ",") {
		switch k {
		case "export":
			for i, d := range durs {
				if d == 0 {
					continue
				}
				cases = append(cases, cgCase{"export", d, 0, i%2 == 0}, cgCase{"export", d, d / 2, i%2 == 1})
				if d >= 500*time.Millisecond {
					cases = append(cases, cgCase{"export", d, d - 30*time.Millisecond, false})
				}
			}
		case "backup":
			for _, d := range durs {
				if d >= 500*time.Millisecond && d <= 5*time.Second {
					cases = append(cases, cgCase{"backup", d, 20 * time.Millisecond, false}, cgCase{"backup", d, d / 2, true})
				}
			}
		case "snapshot":
			for i := 0; i < 4; i++ {
				cases = append(cases, cgCase{"snapshot", 0, time.Duration(i) * 3 * time.Millisecond, i%2 == 0})
			}
		case "free":
			cases = append(cases, cgCase{"free", 0, 0, false}, cgCase{"free", 0, 0, true})
		case "restart":
			cases = append(cases, cgCase{"restart", 0, 0, true})
		}
	}

	// every gate event, time-stamped on arrival, per gate instance
	var evMu sync.Mutex
	events := map[string][]cgEvent{}
	vhook.SetSink(func(e vhook.Event) {
		if e.Ev != "cas.begin" && e.Ev != "cas.end" {
			return
		}
		ce := cgEvent{at: time.Now(), ev: e.Ev}
		ce.owner, _ = e.KV["owner"].(string)
		ce.ok, _ = e.KV["ok"].(bool)
		evMu.Lock()
		events[e.Inst] = append(events[e.Inst], ce)
		evMu.Unlock()
	})
	defer vhook.SetSink(nil)

	type result struct {
		line map[string]any
		err  error
	}
	results := make([]result, len(cases))
	sem := make(chan struct{}, *par)
	var wg sync.WaitGroup
	for i, c := range cases {
		wg.Add(1)
		sem <- struct{}{}
		go func(i int, c cgCase) {
			defer wg.Done()
			defer func() { <-sem }()
			name := fmt.Sprintf("gate%d", i)
			line, err := runCloseCase(filepath.Join(root, name), name, c, func() []cgEvent {
				evMu.Lock()
				defer evMu.Unlock()
				return append([]cgEvent(nil), events[name]...)
			})
			results[i] = result{line, err}
		}(i, c)
	}
	wg.Wait()
	n := 0
	for i, r := range results {
		if r.err != nil {
			return fmt.Errorf("case %d %+v: %w", i, cases[i], r.err)
		}
		if i == 0 {
			w.Write(map[string]any{"ev": "reset"})
		}
		w.Write(r.line)
		n++
	}
	if err := w.Close(); err != nil {
		return err
	}
	fmt.Printf("{\"cases\":%d}\n", n)
	return nil
}

func runCloseCase(dir, name string, c cgCase, evs func() []cgEvent) (map[string]any, error) {
	cl, err := newCluster(vClusterOpts{N: 1, Base: dir, NoHTTP: true, Configure: func(s *store.Store) {
		s.NoSnapshotOnClose = !c.SnapOnClos
	}})
	if err != nil {
		return nil, err
	}
	n := cl.nodes[0]
	st := n.Store
	cas := st.VerifSnapshotCAS()
	vhook.Name(cas, name)
	if _, _, err := sExec(st, false, "CREATE TABLE t (k INTEGER PRIMARY KEY, v TEXT)", "INSERT INTO t(v) VALUES ('a'),('b'),('c')"); err != nil {
		return nil, err
	}
	// the start-up integrity check may still hold the gate on a reopened store; here the store is new
	base := time.Now()
	var holderRel time.Time
	var relMu sync.Mutex
	holderDone := make(chan struct{})
	switch c.Kind {
	case "export":
		if err := cas.Begin("verif-holder"); err != nil {
			return nil, fmt.Errorf("holder could not take the gate: %w", err)
		}
		go func() {
			time.Sleep(c.D - time.Since(base))
			relMu.Lock()
			holderRel = time.Now()
			relMu.Unlock()
			cas.End()
			close(holderDone)
		}()
	case "backup":
		sw := &stallWriter{d: c.D, first: make(chan struct{})}
		berr := make(chan error, 1)
		go func() {
			e := st.Backup(context.Background(), &proto.BackupRequest{Format: proto.BackupRequest_BACKUP_REQUEST_FORMAT_BINARY}, sw)
			relMu.Lock()
			holderRel = time.Now()
			relMu.Unlock()
			berr <- e
			close(holderDone)
		}()
		select {
		case <-sw.first: // the backup holds the gate and is copying the file
			base = time.Now()
		case e := <-berr:
			return nil, fmt.Errorf("backup ended before writing: %v", e)
		case <-time.After(20 * time.Second):
			return nil, errors.New("backup never started writing")
		}
	case "snapshot":
		go func() {
			defer close(holderDone)
			for i := 0; i < 3; i++ {
				sExec(st, false, fmt.Sprintf("INSERT INTO t(v) VALUES ('s%d')", i))
				st.Snapshot(0)
			}
		}()
	case "restart":
		// the start-up integrity check (CRC32 of the database file against the clean-snapshot
		// fingerprint) holds the gate asynchronously after Open: grow the file, close with a
		// snapshot (writes the fingerprint), reopen, and close at once
		for i := 0; i < 80; i++ {
			if _, _, err := sExec(st, false, "INSERT INTO t(v) VALUES (zeroblob(1000000))"); err != nil {
				return nil, err
			}
		}
		n2, err := n.Restart()
		if err != nil {
			return nil, fmt.Errorf("restart: %w", err)
		}
		cl.nodes[0] = n2
		st = n2.Store
		cas = st.VerifSnapshotCAS()
		vhook.Name(cas, name)
		base = time.Now()
		close(holderDone)
	default:
		close(holderDone)
	}
	if d := c.O - time.Since(base); d > 0 {
		time.Sleep(d)
	}
	t0 := time.Now()
	cerr := st.Close(true)
	ret := time.Now()
	ok := cerr == nil
	if cerr != nil && !errors.Is(cerr, rsync.ErrCASConflictTimeout) {
		return nil, fmt.Errorf("Close failed with an unexpected error: %w", cerr)
	}
	select {
	case <-holderDone:
	case <-time.After(30 * time.Second):
		return nil, errors.New("holder never finished")
	}
	// reconstruct from the gate's own events
	var gate, rel, ready time.Time
	all := evs()
	for _, e := range all {
		if e.ev == "cas.begin" && e.owner == "close" && !e.at.Before(t0) {
			ready = e.at // Close reached the gate (its own snapshot-on-close, if any, is over)
			break
		}
	}
	for i, e := range all {
		if e.ev == "cas.begin" && e.owner == "close" && e.ok && !e.at.Before(t0) {
			gate = e.at
			for j := i - 1; j >= 0; j-- {
				if all[j].ev == "cas.end" {
					if !all[j].at.Before(t0) {
						rel = all[j].at // somebody else released the gate after Close had been called
					}
					break
				}
			}
			break
		}
	}
	tries := 0
	for _, e := range all {
		if e.ev == "cas.begin" && e.owner == "close" && !e.at.Before(t0) {
			tries++
		}
	}
	if !ok {
		relMu.Lock()
		rel = holderRel
		relMu.Unlock()
		st.Close(true) // the gate is free now: shut down for real
	}
	cl.Close()
	line := map[string]any{"ev": "case", "kind": c.Kind, "d_ms": c.D.Milliseconds(), "o_ms": c.O.Milliseconds(), "snap_on_close": c.SnapOnClos,
		"ok": ok, "t0": ticks(t0, base), "ready": ticks(ready, base), "gate": ticks(gate, base), "ret": ticks(ret, base), "rel": ticks(rel, base), "tries": tries,
		"wait_ms": ret.Sub(t0).Milliseconds()}
	return line, nil
}
