package main

// Shared in-process cluster for the harness: full rqlite nodes (store + cluster
// service + proxy + HTTP service) built from exported API only, on a faulty
// network (vnet) that can partition nodes at the connection level.

import (
	"bytes"
	"context"
	"encoding/json"
	"errors"
	"fmt"
	"io"
	"log"
	"net"
	"net/http"
	"os"
	"path/filepath"
	"strings"
	"sync"
	"sync/atomic"
	"time"

	"github.com/rqlite/rqlite/v10/cluster"
	"github.com/rqlite/rqlite/v10/command/proto"
	httpd "github.com/rqlite/rqlite/v10/http"
	"github.com/rqlite/rqlite/v10/proxy"
	"github.com/rqlite/rqlite/v10/store"
	"github.com/rqlite/rqlite/v10/tcp"
)

// ---------------------------------------------------------------- faulty network

type vnet struct {
	mu      sync.Mutex
	blocked map[[2]string]bool // unordered pair of node ids
	addrID  map[string]string  // raft/cluster address -> node id
	conns   map[*vconn]struct{}
	cut     atomic.Pointer[vcut] // one armed connection cut (see cut.go)
}

func newVnet() *vnet {
	return &vnet{blocked: map[[2]string]bool{}, addrID: map[string]string{}, conns: map[*vconn]struct{}{}}
}

func pairKey(a, b string) [2]string {
	if a > b {
		a, b = b, a
	}
	return [2]string{a, b}
}

func (n *vnet) isBlocked(a, b string) bool {
	n.mu.Lock()
	defer n.mu.Unlock()
	return n.blocked[pairKey(a, b)]
}

// Block cuts the link a<->b: new dials fail, established connections are closed.
func (n *vnet) Block(a, b string) {
	n.mu.Lock()
	n.blocked[pairKey(a, b)] = true
	var kill []*vconn
	for c := range n.conns {
		if pairKey(c.from, c.to) == pairKey(a, b) {
			kill = append(kill, c)
		}
	}
	n.mu.Unlock()
	for _, c := range kill {
		c.Conn.Close()
	}
}

func (n *vnet) Unblock(a, b string) {
	n.mu.Lock()
	delete(n.blocked, pairKey(a, b))
	n.mu.Unlock()
}

// Isolate cuts id off from every other known node.
func (n *vnet) Isolate(id string, all []string) {
	for _, o := range all {
		if o != id {
			n.Block(id, o)
		}
	}
}

func (n *vnet) Heal() {
	n.mu.Lock()
	n.blocked = map[[2]string]bool{}
	n.mu.Unlock()
}

type vconn struct {
	net.Conn
	nw       *vnet
	from, to string
	hdr      byte // mux header of the dialled service (raft / cluster)
}

func (c *vconn) Read(b []byte) (int, error) {
	if ct := c.nw.cut.Load(); ct != nil && ct.claims(c, false) {
		return ct.read(c, b)
	}
	if c.nw.isBlocked(c.from, c.to) {
		c.Conn.Close()
		return 0, errors.New("vnet: partitioned")
	}
	return c.Conn.Read(b)
}

func (c *vconn) Write(b []byte) (int, error) {
	if ct := c.nw.cut.Load(); ct != nil && ct.claims(c, true) {
		return ct.write(c, b)
	}
	if c.nw.isBlocked(c.from, c.to) {
		c.Conn.Close()
		return 0, errors.New("vnet: partitioned")
	}
	return c.Conn.Write(b)
}

func (c *vconn) Close() error {
	c.nw.mu.Lock()
	delete(c.nw.conns, c)
	c.nw.mu.Unlock()
	return c.Conn.Close()
}

// vdialer wraps a tcp.Dialer with the partition check (used for raft and for the cluster client).
type vdialer struct {
	nw   *vnet
	self string
	d    *tcp.Dialer
	hdr  byte
}

func (d *vdialer) Dial(addr string, timeout time.Duration) (net.Conn, error) {
	d.nw.mu.Lock()
	to := d.nw.addrID[addr]
	d.nw.mu.Unlock()
	if to != "" && d.nw.isBlocked(d.self, to) {
		return nil, errors.New("vnet: partitioned")
	}
	c, err := d.d.Dial(addr, timeout)
	if err != nil {
		return nil, err
	}
	vc := &vconn{Conn: c, nw: d.nw, from: d.self, to: to, hdr: d.hdr}
	d.nw.mu.Lock()
	d.nw.conns[vc] = struct{}{}
	d.nw.mu.Unlock()
	return vc, nil
}

type vlayer struct {
	net.Listener
	d *vdialer
}

func (l *vlayer) Dial(addr string, timeout time.Duration) (net.Conn, error) {
	return l.d.Dial(addr, timeout)
}

// ---------------------------------------------------------------- node

type vNodeOpts struct {
	ID        string
	Dir       string // reused on restart
	Addr      string // "127.0.0.1:port" to re-listen on after a restart; "" = any port
	Creds     *credStore
	CredsAA   aaStore // when set, used instead of Creds (e.g. the real auth.CredentialsStore)
	Configure func(*store.Store)
	NoHTTP    bool
}

// aaStore is what both the HTTP service and the cluster service ask of a credential store.
type aaStore interface {
	AA(username, password, perm string) bool
}

type vNode struct {
	ID       string
	Dir      string
	Addr     string // mux (raft + cluster) address
	APIAddr  string
	Store    *store.Store
	Service  *httpd.Service
	Cluster  *cluster.Service
	Client   *cluster.Client
	Proxy    *proxy.Proxy
	Mux      *tcp.Mux
	ln       net.Listener
	nw       *vnet
	opts     vNodeOpts
	stopped  bool
	stopOnce sync.Mutex
}

// credStore implements both http.CredentialStore and cluster.CredentialStore.
type credStore struct {
	users map[string]string          // user -> password
	perms map[string]map[string]bool // user -> perms
}

func (c *credStore) AA(username, password, perm string) bool {
	if c == nil {
		return true
	}
	if p, ok := c.perms["*"]; ok && (p[perm] || p["all"]) {
		return true
	}
	pw, ok := c.users[username]
	if !ok || pw != password {
		return false
	}
	p := c.perms[username]
	return p[perm] || p["all"]
}

func quietLogs() {
	if os.Getenv("VERIF_VERBOSE") == "" {
		log.SetOutput(io.Discard)
	}
}

func startNode(nw *vnet, o vNodeOpts) (*vNode, error) {
	addr := o.Addr
	if addr == "" {
		addr = "127.0.0.1:0"
	}
	var ln net.Listener
	var err error
	for i := 0; i < 50; i++ {
		ln, err = net.Listen("tcp", addr)
		if err == nil {
			break
		}
		time.Sleep(100 * time.Millisecond)
	}
	if err != nil {
		return nil, err
	}
	mux, err := tcp.NewMux(ln, nil)
	if err != nil {
		return nil, err
	}
	go mux.Serve()
	n := &vNode{ID: o.ID, Dir: o.Dir, Mux: mux, ln: ln, nw: nw, opts: o, Addr: ln.Addr().String()}
	nw.mu.Lock()
	nw.addrID[n.Addr] = o.ID
	nw.mu.Unlock()

	raftLy := &vlayer{Listener: mux.Listen(cluster.MuxRaftHeader), d: &vdialer{nw: nw, self: o.ID, d: tcp.NewDialer(cluster.MuxRaftHeader, nil), hdr: cluster.MuxRaftHeader}}
	cfg := &store.Config{DBConf: store.NewDBConfig(), Dir: o.Dir, ID: o.ID}
	if os.Getenv("VERIF_VERBOSE") == "" {
		cfg.Logger = log.New(io.Discard, "", 0)
	}
	s := store.New(cfg, raftLy)
	s.RaftLogLevel = "ERROR"
	if os.Getenv("VERIF_VERBOSE") == "" {
		s.RaftLogLevel = "OFF"
	}
	s.HeartbeatTimeout = 400 * time.Millisecond
	s.ElectionTimeout = 400 * time.Millisecond
	s.LeaderLeaseTimeout = 400 * time.Millisecond
	s.CommitTimeout = 20 * time.Millisecond
	s.SnapshotThreshold = 1 << 30
	s.SnapshotInterval = time.Hour
	s.NoSnapshotOnClose = true
	if o.Configure != nil {
		o.Configure(s)
	}
	n.Store = s

	var ccreds cluster.CredentialStore
	var hcreds httpd.CredentialStore
	if o.Creds != nil {
		ccreds, hcreds = o.Creds, o.Creds
	}
	if o.CredsAA != nil {
		ccreds, hcreds = o.CredsAA, o.CredsAA
	}
	cl := cluster.New(mux.Listen(cluster.MuxClusterHeader), s, s, ccreds)
	if err := cl.Open(); err != nil {
		return nil, err
	}
	n.Cluster = cl
	n.Client = cluster.NewClient(&vdialer{nw: nw, self: o.ID, d: tcp.NewDialer(cluster.MuxClusterHeader, nil), hdr: cluster.MuxClusterHeader}, 10*time.Second)
	n.Proxy = proxy.New(s, n.Client)
	if !o.NoHTTP {
		n.Service = httpd.New("127.0.0.1:0", s, n.Client, n.Proxy, hcreds)
		n.Service.DefaultQueueBatchSz = 8
		n.Service.DefaultQueueCap = 64
		if err := n.Service.Start(); err != nil {
			return nil, err
		}
		n.APIAddr = n.Service.Addr().String()
		cl.SetAPIAddr(n.APIAddr)
		n.Proxy.SetAPIAddr(n.APIAddr)
	}
	if err := s.Open(); err != nil {
		return nil, fmt.Errorf("open store %s: %w", o.ID, err)
	}
	return n, nil
}

// Stop shuts the node down gracefully (store.Close); Dir is kept.
func (n *vNode) Stop() {
	n.stopOnce.Lock()
	defer n.stopOnce.Unlock()
	if n.stopped {
		return
	}
	n.stopped = true
	if n.Service != nil {
		n.Service.Close()
	}
	n.Store.Close(true)
	n.Cluster.Close()
	n.Mux.Close()
	n.ln.Close()
}

// Restart stops the node (if running) and starts it again on the same directory and address.
func (n *vNode) Restart() (*vNode, error) {
	n.Stop()
	o := n.opts
	o.Addr = n.Addr
	return startNode(n.nw, o)
}

// ---------------------------------------------------------------- cluster

type vCluster struct {
	nw    *vnet
	nodes []*vNode
	base  string
}

type vClusterOpts struct {
	N         int
	NonVoters int
	Base      string // directory under which node dirs are created
	Creds     *credStore
	CredsAA   aaStore
	Configure func(*store.Store)
	NoHTTP    bool
}

func newCluster(o vClusterOpts) (*vCluster, error) {
	quietLogs()
	c := &vCluster{nw: newVnet(), base: o.Base}
	for i := 0; i < o.N+o.NonVoters; i++ {
		id := fmt.Sprintf("n%d", i+1)
		dir := filepath.Join(o.Base, id)
		if err := os.MkdirAll(dir, 0755); err != nil {
			return nil, err
		}
		n, err := startNode(c.nw, vNodeOpts{ID: id, Dir: dir, Creds: o.Creds, CredsAA: o.CredsAA, Configure: o.Configure, NoHTTP: o.NoHTTP})
		if err != nil {
			c.Close()
			return nil, err
		}
		c.nodes = append(c.nodes, n)
		if i == 0 {
			if err := n.Store.Bootstrap(store.NewServer(n.ID, n.Addr, true)); err != nil {
				c.Close()
				return nil, err
			}
			if _, err := n.Store.WaitForLeader(15 * time.Second); err != nil {
				c.Close()
				return nil, err
			}
		} else {
			// join through whoever is leader now (under load an election may have moved it)
			var jerr error
			for dl := time.Now().Add(20 * time.Second); time.Now().Before(dl); time.Sleep(100 * time.Millisecond) {
				l := c.Leader(5 * time.Second)
				if l == nil {
					jerr = errors.New("no leader")
					continue
				}
				if jerr = l.Store.Join(&proto.JoinRequest{Id: n.ID, Address: n.Addr, Voter: i < o.N}); jerr == nil {
					break
				}
			}
			if jerr != nil {
				c.Close()
				return nil, fmt.Errorf("join %s: %w", id, jerr)
			}
			if _, err := n.Store.WaitForLeader(15 * time.Second); err != nil {
				c.Close()
				return nil, err
			}
		}
	}
	return c, nil
}

func (c *vCluster) Close() {
	for _, n := range c.nodes {
		if n != nil {
			n.Stop()
		}
	}
}

func (c *vCluster) IDs() []string {
	var ids []string
	for _, n := range c.nodes {
		ids = append(ids, n.ID)
	}
	return ids
}

func (c *vCluster) Node(id string) *vNode {
	for _, n := range c.nodes {
		if n.ID == id {
			return n
		}
	}
	return nil
}

// Leader returns a node that currently believes it is the leader, waiting up to d.
func (c *vCluster) Leader(d time.Duration) *vNode {
	dl := time.Now().Add(d)
	for {
		for _, n := range c.nodes {
			if !n.stopped && n.Store.IsLeader() {
				return n
			}
		}
		if time.Now().After(dl) {
			return nil
		}
		time.Sleep(20 * time.Millisecond)
	}
}

func (c *vCluster) Followers() []*vNode {
	var out []*vNode
	for _, n := range c.nodes {
		if !n.stopped && !n.Store.IsLeader() {
			out = append(out, n)
		}
	}
	return out
}

// WaitApplied waits until every running node's FSM has reached the leader's commit index.
func (c *vCluster) WaitConverged(d time.Duration) error {
	l := c.Leader(d)
	if l == nil {
		return errors.New("no leader")
	}
	ci, err := l.Store.CommitIndex()
	if err != nil {
		return err
	}
	dl := time.Now().Add(d)
	for _, n := range c.nodes {
		if n.stopped {
			continue
		}
		for n.Store.AppliedIndex() < ci {
			if time.Now().After(dl) {
				return fmt.Errorf("node %s applied %d < %d", n.ID, n.Store.AppliedIndex(), ci)
			}
			time.Sleep(10 * time.Millisecond)
		}
	}
	return nil
}

// ---------------------------------------------------------------- store-level helpers

func stmts(sqls ...string) *proto.Request {
	r := &proto.Request{}
	for _, s := range sqls {
		r.Statements = append(r.Statements, &proto.Statement{Sql: s})
	}
	return r
}

func sExec(s *store.Store, tx bool, sqls ...string) ([]*proto.ExecuteQueryResponse, uint64, error) {
	r := stmts(sqls...)
	r.Transaction = tx
	return s.Execute(context.Background(), &proto.ExecuteRequest{Request: r})
}

func sQuery(s *store.Store, level proto.ConsistencyLevel, sql string) ([]*proto.QueryRows, error) {
	rows, _, _, err := s.Query(context.Background(), &proto.QueryRequest{Request: stmts(sql), Level: level,
		LinearizableTimeout: int64(5 * time.Second)})
	return rows, err
}

// dumpLogical returns a canonical logical dump (schema + ordered rows with typeof) of a node's database,
// read at NONE consistency from the node's own SQLite file.
func dumpLogical(s *store.Store) (string, error) {
	var sb strings.Builder
	rows, err := sQuery(s, proto.ConsistencyLevel_NONE, "SELECT type, name, tbl_name, sql FROM sqlite_master ORDER BY type, name")
	if err != nil {
		return "", err
	}
	if rows[0].Error != "" {
		return "", errors.New(rows[0].Error)
	}
	var tables []string
	for _, v := range rows[0].Values {
		sb.WriteString(paramsString(v.Parameters))
		sb.WriteByte('\n')
		if v.Parameters[0].GetS() == "table" && !strings.HasPrefix(v.Parameters[1].GetS(), "sqlite_") {
			tables = append(tables, v.Parameters[1].GetS())
		}
	}
	for _, t := range tables {
		rs, err := sQuery(s, proto.ConsistencyLevel_NONE, fmt.Sprintf("SELECT * FROM %q ORDER BY 1, 2", t))
		if err != nil {
			return "", err
		}
		if rs[0].Error != "" {
			// single-column table: ORDER BY 2 fails
			rs, err = sQuery(s, proto.ConsistencyLevel_NONE, fmt.Sprintf("SELECT * FROM %q ORDER BY 1", t))
			if err != nil {
				return "", err
			}
		}
		sb.WriteString("== " + t + "\n")
		for _, v := range rs[0].Values {
			sb.WriteString(paramsString(v.Parameters))
			sb.WriteByte('\n')
		}
	}
	return sb.String(), nil
}

func paramsString(ps []*proto.Parameter) string {
	var parts []string
	for _, p := range ps {
		switch x := p.GetValue().(type) {
		case *proto.Parameter_I:
			parts = append(parts, fmt.Sprintf("i:%d", x.I))
		case *proto.Parameter_D:
			parts = append(parts, fmt.Sprintf("d:%v", x.D))
		case *proto.Parameter_B:
			parts = append(parts, fmt.Sprintf("b:%v", x.B))
		case *proto.Parameter_Y:
			parts = append(parts, fmt.Sprintf("y:%x", x.Y))
		case *proto.Parameter_S:
			parts = append(parts, fmt.Sprintf("s:%q", x.S))
		default:
			parts = append(parts, "null")
		}
	}
	return strings.Join(parts, "|")
}

// ---------------------------------------------------------------- HTTP helpers

type httpResp struct {
	Status int
	Header http.Header
	Body   []byte
}

var httpClient = &http.Client{Timeout: 30 * time.Second, CheckRedirect: func(*http.Request, []*http.Request) error { return http.ErrUseLastResponse }}

func httpDo(method, url string, body []byte, ctype, user, pass string) (*httpResp, error) {
	req, err := http.NewRequest(method, url, bytes.NewReader(body))
	if err != nil {
		return nil, err
	}
	if ctype != "" {
		req.Header.Set("Content-Type", ctype)
	}
	if user != "" || pass != "" {
		req.SetBasicAuth(user, pass)
	}
	resp, err := httpClient.Do(req)
	if err != nil {
		return nil, err
	}
	defer resp.Body.Close()
	b, err := io.ReadAll(resp.Body)
	return &httpResp{Status: resp.StatusCode, Header: resp.Header, Body: b}, err
}

// httpSQL posts a JSON array of statements to /db/<ep>?<query>.
func (n *vNode) httpSQL(ep, query string, statements any) (*httpResp, error) {
	b, err := json.Marshal(statements)
	if err != nil {
		return nil, err
	}
	u := "http://" + n.APIAddr + "/db/" + ep
	if query != "" {
		u += "?" + query
	}
	return httpDo("POST", u, b, "application/json", "", "")
}
