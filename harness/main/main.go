// Command verifh is the /verif conformance harness.  Its sources live in
// /verif/harness/main and are overlaid into /repo/cmd/verifh at build time
// (go build -overlay), so it is compiled against /repo's current working tree
// and may import rqlite's internal packages.
package main

import (
	"fmt"
	"os"
	"sort"
)

var commands = map[string]func(args []string) error{}

func register(name string, f func(args []string) error) { commands[name] = f }

func main() {
	if len(os.Args) < 2 {
		names := []string{}
		for n := range commands {
			names = append(names, n)
		}
		sort.Strings(names)
		fmt.Fprintln(os.Stderr, "usage: verifh <command> [args]; commands:", names)
		os.Exit(2)
	}
	f, ok := commands[os.Args[1]]
	if !ok {
		fmt.Fprintln(os.Stderr, "unknown command", os.Args[1])
		os.Exit(2)
	}
	if err := f(os.Args[2:]); err != nil {
		fmt.Fprintln(os.Stderr, "verifh:", err)
		os.Exit(3)
	}
}
