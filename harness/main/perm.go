package main

// perm-replay (C18): every case enumerated by specs/Perm.tla (endpoint / inter-node command family x
// role of the addressed node x credential store x presentation) is sent AT THE WIRE LEVEL to a live
// node of a 3-voter (+1 non-voter) cluster whose database holds a sentinel: raw HTTP over a socket
// read to EOF, raw mux byte + length-prefixed protobuf on the inter-node port read until the server
// closes.  The credential store of the case is the REAL auth.CredentialsStore loaded from the JSON
// text of the case (swapped in behind the nodes between cases).  For every case one observation line
// is written: status / error, whether the sentinel occurs anywhere in the bytes received (raw,
// de-chunked, and inside any gzip member), and which parts of the cluster state (logical dump of every
// node, membership, snapshot directories, leader, log index) differ from before the request.
// The verdict is taken by checks/C18.py against the expectation emitted by TLC.

import (
	"bufio"
	"bytes"
	"compress/gzip"
	"context"
	"encoding/base64"
	"encoding/binary"
	"encoding/json"
	"errors"
	"flag"
	"fmt"
	"io"
	"net"
	"net/http"
	"net/url"
	"os"
	"path/filepath"
	"sort"
	"strings"
	"sync/atomic"
	"time"

	"github.com/rqlite/rqlite/v10/auth"
	cproto "github.com/rqlite/rqlite/v10/cluster/proto"
	"github.com/rqlite/rqlite/v10/command/proto"
	"github.com/rqlite/rqlite/v10/store"
	pb "google.golang.org/protobuf/proto"
)

func init() { register("perm-replay", permReplay) }

const (
	permSecretTable = "vsecrettbl7391"
	permSecretValue = "vsecretval5527"
)

// swapAA is the credential store handed to the nodes; the real store behind it is replaced per case.
type swapAA struct {
	p atomic.Pointer[auth.CredentialsStore]
}

func (s *swapAA) AA(u, pw, perm string) bool { return s.p.Load().AA(u, pw, perm) }

type permCase struct {
	ID   int        `json:"id"`
	F    string     `json:"f"`
	Role string     `json:"role"`
	U    []string   `json:"U"`
	S    []string   `json:"S"`
	Pres string     `json:"pres"`
	Auth bool       `json:"auth"`
	Eff  bool       `json:"eff"`
	Con  bool       `json:"con"`
	Req  [][]string `json:"req"`
}

type permObs struct {
	ID       int      `json:"id"`
	F        string   `json:"f"`
	Role     string   `json:"role"`
	Node     string   `json:"node"`
	Pres     string   `json:"pres"`
	Auth     bool     `json:"auth"`
	Creds    string   `json:"creds"`
	Status   int      `json:"status"`          // HTTP status; 0 for commands
	Err      string   `json:"err"`             // error field of the command response
	Denied   bool     `json:"denied"`          // 401 / "unauthorized"
	NoResp   bool     `json:"noresp"`          // no (parsable) response at all
	Bytes    int      `json:"bytes"`           // bytes received
	Extra    int      `json:"extra"`           // command: bytes after the first response frame
	Leak     bool     `json:"leak"`            // sentinel in the received bytes
	LeakIn   string   `json:"leak_in"`         // raw | body | gzip
	Changed  []string `json:"changed"`         // parts of the state that differ
	Retried  bool     `json:"retried"`         // state change seen on a first attempt, case re-run
	Flaky    []string `json:"flaky,omitempty"` // first-attempt differences that did not recur
	Skipped  string   `json:"skipped,omitempty"`
	Head     string   `json:"head"` // first bytes of the response, printable
	SentHead string   `json:"sent"`
}

type permFP struct {
	leader  string
	log     uint64
	members string
	dumps   map[string]string
	snaps   map[string]string
}

func (a *permFP) diff(b *permFP) []string {
	var d []string
	if a.leader != b.leader {
		d = append(d, "leader")
	}
	if a.log != b.log {
		d = append(d, "log")
	}
	if a.members != b.members {
		d = append(d, "members")
	}
	for k, v := range a.dumps {
		if b.dumps[k] != v {
			d = append(d, "dump:"+k)
		}
	}
	for k, v := range a.snaps {
		if b.snaps[k] != v {
			d = append(d, "snapshots:"+k)
		}
	}
	sort.Strings(d)
	return d
}

type permEnv struct {
	c      *vCluster
	creds  *swapAA
	b0     []byte // binary copy of the database (load / boot bodies)
	nextID int
	n4     *vNode
}

func (e *permEnv) leader() (*vNode, error) {
	l := e.c.Leader(30 * time.Second)
	if l == nil {
		return nil, errors.New("no leader")
	}
	return l, nil
}

func (e *permEnv) follower() (*vNode, error) {
	for dl := time.Now().Add(30 * time.Second); time.Now().Before(dl); time.Sleep(20 * time.Millisecond) {
		l := e.c.Leader(30 * time.Second)
		if l == nil {
			continue
		}
		for _, n := range e.c.nodes[:3] {
			if n != l && !n.Store.IsLeader() {
				if a, _ := n.Store.LeaderAddr(); a == l.Addr {
					return n, nil
				}
			}
		}
	}
	return nil, errors.New("no follower that knows the leader")
}

func snapListing(dir string) string {
	var names []string
	ents, _ := os.ReadDir(filepath.Join(dir, "wsnapshots"))
	for _, en := range ents {
		if strings.HasSuffix(en.Name(), ".tmp") {
			continue
		}
		names = append(names, en.Name())
		if en.IsDir() {
			sub, _ := os.ReadDir(filepath.Join(dir, "wsnapshots", en.Name()))
			for _, s := range sub {
				names = append(names, en.Name()+"/"+s.Name())
			}
		}
	}
	return strings.Join(names, ",")
}

// fingerprint waits until every member has been handed the leader's commit index and its database
// equals the leader's (the members are replicas: that is what "caught up" means; the FSM index is not
// advanced by configuration / no-op entries, so indexes alone cannot tell), then records the state.
func (e *permEnv) fingerprint() (*permFP, error) {
	l, err := e.leader()
	if err != nil {
		return nil, err
	}
	fp := &permFP{leader: l.ID, dumps: map[string]string{}, snaps: map[string]string{}}
	if fp.log, err = l.Store.CommitIndex(); err != nil {
		return nil, err
	}
	ns, err := l.Store.Nodes()
	if err != nil {
		return nil, err
	}
	var ms []string
	member := map[string]bool{}
	for _, s := range ns {
		ms = append(ms, fmt.Sprintf("%s@%s/%v", s.ID, s.Addr, s.Suffrage))
		member[s.ID] = true
	}
	sort.Strings(ms)
	fp.members = strings.Join(ms, " ")
	dl := time.Now().Add(15 * time.Second)
	for _, n := range e.c.nodes {
		for member[n.ID] && n.Store.AppliedIndex() < fp.log && time.Now().Before(dl) {
			time.Sleep(5 * time.Millisecond)
		}
	}
	ld, err := dumpLogical(l.Store)
	if err != nil {
		return nil, fmt.Errorf("dump %s: %w", l.ID, err)
	}
	for _, n := range e.c.nodes {
		for {
			d, err := dumpLogical(n.Store)
			if err != nil {
				return nil, fmt.Errorf("dump %s: %w", n.ID, err)
			}
			fp.dumps[n.ID] = d
			if d == ld || !member[n.ID] || time.Now().After(dl) {
				break
			}
			time.Sleep(5 * time.Millisecond)
		}
		fp.snaps[n.ID] = snapListing(n.Dir)
	}
	return fp, nil
}

// settle waits until the cluster has a leader, the members have caught up and two successive
// fingerprints agree.
func (e *permEnv) settle() (*permFP, error) {
	var last *permFP
	for dl := time.Now().Add(60 * time.Second); time.Now().Before(dl); {
		if _, err := e.leader(); err != nil {
			return nil, err
		}
		fp, err := e.fingerprint()
		if err != nil {
			time.Sleep(50 * time.Millisecond)
			continue
		}
		if last != nil && len(last.diff(fp)) == 0 {
			return fp, nil
		}
		last = fp
		time.Sleep(60 * time.Millisecond)
	}
	return nil, errors.New("cluster does not settle")
}

func (e *permEnv) n4Member() (bool, error) {
	l, err := e.leader()
	if err != nil {
		return false, err
	}
	ns, err := l.Store.Nodes()
	if err != nil {
		return false, err
	}
	for _, s := range ns {
		if s.ID == e.n4.ID {
			return true, nil
		}
	}
	return false, nil
}

// ensureN4 makes the fourth node a non-voting member (want) or a non-member (!want), acting on the
// leader's store directly (no credentials involved).
func (e *permEnv) ensureN4(want bool) error {
	var lastErr error
	for dl := time.Now().Add(40 * time.Second); time.Now().Before(dl); time.Sleep(50 * time.Millisecond) {
		l, err := e.leader()
		if err != nil {
			return err
		}
		ns, err := l.Store.Nodes()
		if err != nil {
			lastErr = err
			continue
		}
		is, voter := false, false
		for _, s := range ns {
			if s.ID == e.n4.ID {
				is, voter = true, s.Suffrage == proto.Suffrage_VOTER
			}
		}
		switch {
		case want && is && !voter, !want && !is:
			return nil
		case is:
			lastErr = l.Store.Remove(context.Background(), &proto.RemoveNodeRequest{Id: e.n4.ID})
		default:
			lastErr = l.Store.Join(&proto.JoinRequest{Id: e.n4.ID, Address: e.n4.Addr, Voter: false})
		}
	}
	return fmt.Errorf("cannot make n4 member=%v: %v", want, lastErr)
}

// ---------------------------------------------------------------- concretisation

// otherPerm concretises the spec's "other" (a permission the family does not require) adversarially:
// the permission most closely related to the required one.
func otherPerm(req [][]string) string {
	used := map[string]bool{}
	for _, a := range req {
		for _, p := range a {
			used[p] = true
		}
	}
	related := map[string]string{
		auth.PermExecute: auth.PermQuery, auth.PermQuery: auth.PermExecute, auth.PermBackup: auth.PermLoad,
		auth.PermLoad: auth.PermBackup, auth.PermSnapshot: auth.PermBackup, auth.PermRemove: auth.PermJoin,
		auth.PermStatus: auth.PermReady, auth.PermReady: auth.PermStatus, auth.PermLeaderOps: auth.PermRemove,
		auth.PermUI: auth.PermStatus, auth.PermJoin: auth.PermJoinReadOnly, auth.PermJoinReadOnly: auth.PermJoin,
	}
	for _, a := range req {
		for _, p := range a {
			if r, ok := related[p]; ok && !used[r] {
				return r
			}
		}
	}
	for _, p := range []string{auth.PermLoad, auth.PermUI, auth.PermReady} {
		if !used[p] {
			return p
		}
	}
	return "nosuchperm"
}

func credsJSON(c *permCase) string {
	o := otherPerm(c.Req)
	conc := func(ps []string) []string {
		out := []string{}
		for _, p := range ps {
			if p == "other" {
				p = o
			}
			out = append(out, p)
		}
		sort.Strings(out)
		return out
	}
	ents := []map[string]any{{"username": "u", "password": "p", "perms": conc(c.U)}}
	if len(c.S) > 0 {
		ents = append(ents, map[string]any{"username": "*", "perms": conc(c.S)})
	}
	b, _ := json.Marshal(ents)
	return string(b)
}

// presentation -> (present?, user, password)
func presCreds(p string) (bool, string, string) {
	switch p {
	case "none":
		return false, "", ""
	case "blank":
		return true, "", ""
	case "unknown":
		return true, "x", "p"
	case "wrongpw":
		return true, "u", "q"
	}
	return true, "u", "p"
}

func (e *permEnv) insertSQL() string {
	e.nextID++
	return fmt.Sprintf("INSERT INTO w(id,v) VALUES(%d,'c%d')", e.nextID, e.nextID)
}

const selectSecret = "SELECT v FROM " + permSecretTable

// httpRequestBytes renders the raw request of an HTTP family.
func (e *permEnv) httpRequestBytes(c *permCase, host string) ([]byte, error) {
	parts := strings.SplitN(c.F, ":", 3) // http:METHOD:path[?query][#variant]
	method, target := parts[1], parts[2]
	variant := ""
	if i := strings.Index(target, "#"); i >= 0 {
		target, variant = target[:i], target[i+1:]
	}
	path, query := target, ""
	if i := strings.Index(target, "?"); i >= 0 {
		path, query = target[:i], target[i+1:]
	}
	addq := func(s string) {
		if query != "" {
			query += "&"
		}
		query += s
	}
	var body []byte
	ctype := ""
	jsonBody := func(v any) {
		body, _ = json.Marshal(v)
		ctype = "application/json"
	}
	withBody := method != "GET" && method != "OPTIONS" && method != "HEAD"
	switch path {
	case "/db/execute":
		if query == "queue" {
			addq("wait")
		}
		addq("timeout=10s")
		if withBody {
			jsonBody([]string{e.insertSQL()})
		}
	case "/db/query":
		addq("timeout=10s")
		if withBody {
			jsonBody([]string{selectSecret})
		} else {
			addq("q=" + url.QueryEscape(selectSecret))
		}
	case "/db/request":
		addq("timeout=10s")
		if withBody {
			jsonBody([]string{e.insertSQL(), selectSecret})
		} else {
			addq("q=" + url.QueryEscape(selectSecret))
		}
	case "/db/backup":
		addq("timeout=10s")
	case "/db/load":
		addq("timeout=10s")
		if withBody {
			if variant == "sqlite" {
				body, ctype = e.b0, "application/octet-stream"
			} else {
				body, ctype = []byte(e.insertSQL()+";"), "text/plain"
			}
		}
	case "/boot":
		if withBody {
			body, ctype = e.b0, "application/octet-stream"
		}
	case "/remove":
		addq("timeout=10s")
		if withBody {
			jsonBody(map[string]string{"id": e.n4.ID})
		}
	case "/leader":
		addq("timeout=10s")
		if method == "POST" {
			addq("wait=true")
		}
	case "/nodes", "/readyz":
		addq("timeout=5s")
	case "/db/sql":
		if withBody {
			jsonBody([]string{selectSecret})
		} else {
			addq("q=" + url.QueryEscape(selectSecret))
		}
	}
	var sb bytes.Buffer
	t := path
	if query != "" {
		t += "?" + query
	}
	fmt.Fprintf(&sb, "%s %s HTTP/1.1\r\nHost: %s\r\nConnection: close\r\nUser-Agent: verif-perm\r\n", method, t, host)
	if ok, u, p := presCreds(c.Pres); ok {
		fmt.Fprintf(&sb, "Authorization: Basic %s\r\n", base64.StdEncoding.EncodeToString([]byte(u+":"+p)))
	}
	if ctype != "" {
		fmt.Fprintf(&sb, "Content-Type: %s\r\n", ctype)
	}
	if withBody || len(body) > 0 {
		fmt.Fprintf(&sb, "Content-Length: %d\r\n", len(body))
	}
	sb.WriteString("\r\n")
	sb.Write(body)
	return sb.Bytes(), nil
}

var permCmdTypes = map[string]cproto.Command_Type{
	"GET_NODE_META": cproto.Command_COMMAND_TYPE_GET_NODE_META, "EXECUTE": cproto.Command_COMMAND_TYPE_EXECUTE,
	"QUERY": cproto.Command_COMMAND_TYPE_QUERY, "REQUEST": cproto.Command_COMMAND_TYPE_REQUEST,
	"BACKUP": cproto.Command_COMMAND_TYPE_BACKUP, "BACKUP_STREAM": cproto.Command_COMMAND_TYPE_BACKUP_STREAM,
	"LOAD": cproto.Command_COMMAND_TYPE_LOAD, "LOAD_CHUNK": cproto.Command_COMMAND_TYPE_LOAD_CHUNK,
	"REMOVE_NODE": cproto.Command_COMMAND_TYPE_REMOVE_NODE, "NOTIFY": cproto.Command_COMMAND_TYPE_NOTIFY,
	"JOIN": cproto.Command_COMMAND_TYPE_JOIN, "STEPDOWN": cproto.Command_COMMAND_TYPE_STEPDOWN,
	"HIGHWATER_MARK_UPDATE": cproto.Command_COMMAND_TYPE_HIGHWATER_MARK_UPDATE, "UNKNOWN": cproto.Command_COMMAND_TYPE_UNKNOWN,
}

func one(sqls ...string) *proto.Request {
	return stmts(sqls...)
}

// cmdFrame renders mux byte + length prefix + protobuf of a command family.
func (e *permEnv) cmdFrame(c *permCase) ([]byte, string, error) {
	name := strings.TrimPrefix(c.F, "cmd:")
	variant := ""
	if i := strings.Index(name, "#"); i >= 0 {
		name, variant = name[:i], name[i+1:]
	}
	typ, ok := permCmdTypes[name]
	if !ok {
		return nil, "", fmt.Errorf("unknown command family %q", c.F)
	}
	cmd := &cproto.Command{Type: typ}
	if present, u, p := presCreds(c.Pres); present {
		cmd.Credentials = &cproto.Credentials{Username: u, Password: p}
	}
	switch name {
	case "EXECUTE":
		cmd.Request = &cproto.Command_ExecuteRequest{ExecuteRequest: &proto.ExecuteRequest{Request: one(e.insertSQL())}}
	case "QUERY":
		cmd.Request = &cproto.Command_QueryRequest{QueryRequest: &proto.QueryRequest{Request: one(selectSecret), Level: proto.ConsistencyLevel_NONE}}
	case "REQUEST":
		cmd.Request = &cproto.Command_ExecuteQueryRequest{ExecuteQueryRequest: &proto.ExecuteQueryRequest{
			Request: one(e.insertSQL(), selectSecret), Level: proto.ConsistencyLevel_NONE}}
	case "BACKUP", "BACKUP_STREAM":
		cmd.Request = &cproto.Command_BackupRequest{BackupRequest: &proto.BackupRequest{Format: proto.BackupRequest_BACKUP_REQUEST_FORMAT_BINARY}}
	case "LOAD":
		cmd.Request = &cproto.Command_LoadRequest{LoadRequest: &proto.LoadRequest{Data: e.b0}}
	case "LOAD_CHUNK":
		cmd.Request = &cproto.Command_LoadChunkRequest{LoadChunkRequest: &proto.LoadChunkRequest{StreamId: "s", SequenceNum: 1, Data: e.b0[:64]}}
	case "REMOVE_NODE":
		cmd.Request = &cproto.Command_RemoveNodeRequest{RemoveNodeRequest: &proto.RemoveNodeRequest{Id: e.n4.ID}}
	case "NOTIFY":
		cmd.Request = &cproto.Command_NotifyRequest{NotifyRequest: &proto.NotifyRequest{Id: "n9", Address: "127.0.0.1:9"}}
	case "JOIN":
		cmd.Request = &cproto.Command_JoinRequest{JoinRequest: &proto.JoinRequest{Id: e.n4.ID, Address: e.n4.Addr, Voter: variant == "voter"}}
	case "STEPDOWN":
		cmd.Request = &cproto.Command_StepdownRequest{StepdownRequest: &proto.StepdownRequest{Wait: true}}
	case "HIGHWATER_MARK_UPDATE":
		cmd.Request = &cproto.Command_HighwaterMarkUpdateRequest{HighwaterMarkUpdateRequest: &cproto.HighwaterMarkUpdateRequest{NodeId: "n9", HighwaterMark: 7}}
	}
	p, err := pb.Marshal(cmd)
	if err != nil {
		return nil, "", err
	}
	return frameBytes(2, uint64(len(p)), p), name, nil
}

func frameBytes(mux byte, length uint64, payload []byte) []byte {
	b := make([]byte, 9, 9+len(payload))
	b[0] = mux
	binary.LittleEndian.PutUint64(b[1:], length)
	return append(b, payload...)
}

// ---------------------------------------------------------------- wire

// rawExchange writes req, optionally half-closes, and reads until EOF or the deadline.
func rawExchange(addr string, req []byte, halfClose bool, d time.Duration) ([]byte, error) {
	conn, err := net.DialTimeout("tcp", addr, 10*time.Second)
	if err != nil {
		return nil, err
	}
	defer conn.Close()
	conn.SetDeadline(time.Now().Add(d))
	if _, err := conn.Write(req); err != nil {
		// the server may legitimately have answered and closed before reading a large body
		b, _ := io.ReadAll(conn)
		return b, nil
	}
	if halfClose {
		if tc, ok := conn.(*net.TCPConn); ok {
			tc.CloseWrite()
		}
	}
	b, err := io.ReadAll(conn)
	if err != nil && len(b) == 0 {
		var ne net.Error
		if errors.As(err, &ne) && ne.Timeout() {
			return b, fmt.Errorf("timeout after %s with no byte received", d)
		}
	}
	return b, nil
}

// scanLeak looks for the sentinels in the bytes and in every gzip member that can be (partly) inflated.
func scanLeak(raw []byte, body []byte) (bool, string) {
	// only the VALUE counts: the table name is part of the requests themselves and may be echoed
	has := func(b []byte) bool { return bytes.Contains(b, []byte(permSecretValue)) }
	if has(raw) {
		return true, "raw"
	}
	if body != nil && has(body) {
		return true, "body"
	}
	for _, src := range [][]byte{raw, body} {
		for off := 0; off+3 < len(src); off++ {
			if src[off] != 0x1f || src[off+1] != 0x8b || src[off+2] != 8 {
				continue
			}
			zr, err := gzip.NewReader(bytes.NewReader(src[off:]))
			if err != nil {
				continue
			}
			out, _ := io.ReadAll(io.LimitReader(zr, 64<<20)) // partial output on a cut stream is kept
			if has(out) {
				return true, "gzip"
			}
			// a gzip'ed protobuf that itself carries bytes: one more level is enough for BACKUP
			if len(out) > 0 {
				if in, w := scanLeak(out, nil); in {
					return true, "gzip/" + w
				}
			}
		}
	}
	return false, ""
}

func printable(b []byte, n int) string {
	if len(b) > n {
		b = b[:n]
	}
	var sb strings.Builder
	for _, c := range b {
		if c >= 32 && c < 127 {
			sb.WriteByte(c)
		} else if c == '\n' {
			sb.WriteString("\\n")
		} else if c == '\r' {
		} else {
			fmt.Fprintf(&sb, "\\x%02x", c)
		}
	}
	return sb.String()
}

// ---------------------------------------------------------------- one case

func (e *permEnv) attempt(c *permCase, o *permObs) error {
	isHTTP := strings.HasPrefix(c.F, "http:")
	// pre-conditions that make the family's effect observable
	switch {
	case strings.HasPrefix(c.F, "cmd:JOIN"):
		if err := e.ensureN4(false); err != nil {
			return err
		}
	default:
		if err := e.ensureN4(true); err != nil {
			return err
		}
	}
	if strings.Contains(c.F, "/snapshot") || strings.Contains(c.F, "/db/load#sqlite") || c.F == "cmd:LOAD" ||
		strings.Contains(c.F, "/db/backup") || strings.HasPrefix(c.F, "cmd:BACKUP") || strings.Contains(c.F, "/reap") {
		// something new in the log / WAL: a snapshot is possible, a load of the old copy is visible
		l, err := e.leader()
		if err != nil {
			return err
		}
		if _, _, err := sExec(l.Store, false, e.insertSQL()); err != nil {
			return fmt.Errorf("pre-write: %w", err)
		}
	}
	var n *vNode
	var err error
	if c.Role == "leader" {
		n, err = e.leader()
	} else {
		n, err = e.follower()
	}
	if err != nil {
		return err
	}
	o.Node = n.ID
	cj := credsJSON(c)
	o.Creds = cj
	cs := auth.NewCredentialsStore()
	if err := cs.Load(strings.NewReader(cj)); err != nil {
		return fmt.Errorf("load credentials %s: %w", cj, err)
	}
	e.creds.p.Store(cs)
	fp0, err := e.fingerprint()
	if err != nil {
		return err
	}
	// the role must still hold when the bytes go out
	if (c.Role == "leader") != n.Store.IsLeader() {
		return errRoleMoved
	}
	var raw []byte
	if isHTTP {
		req, err := e.httpRequestBytes(c, n.APIAddr)
		if err != nil {
			return err
		}
		o.SentHead = printable(req, 160)
		raw, err = rawExchange(n.APIAddr, req, false, 60*time.Second)
		if err != nil {
			return err
		}
		o.Bytes = len(raw)
		var body []byte
		resp, perr := http.ReadResponse(bufio.NewReader(bytes.NewReader(raw)), nil)
		if perr != nil {
			o.NoResp = true
		} else {
			o.Status = resp.StatusCode
			body, _ = io.ReadAll(resp.Body) // de-chunked; a cut body keeps what arrived
			resp.Body.Close()
			o.Denied = resp.StatusCode == http.StatusUnauthorized
		}
		o.Leak, o.LeakIn = scanLeak(raw, body)
	} else {
		frame, name, err := e.cmdFrame(c)
		if err != nil {
			return err
		}
		o.SentHead = fmt.Sprintf("mux=2 len=%d %s", len(frame)-9, name)
		raw, err = rawExchange(n.Addr, frame, true, 60*time.Second)
		if err != nil {
			return err
		}
		o.Bytes = len(raw)
		if len(raw) < 8 {
			o.NoResp = true
		} else {
			sz := binary.LittleEndian.Uint64(raw)
			if uint64(len(raw)-8) < sz {
				o.NoResp = true
			} else {
				p := raw[8 : 8+sz]
				o.Extra = len(raw) - 8 - int(sz)
				if name == "BACKUP" {
					if zr, zerr := gzip.NewReader(bytes.NewReader(p)); zerr == nil {
						p, _ = io.ReadAll(zr)
					}
				}
				if name != "GET_NODE_META" {
					// every response message has `string error = 1`
					r := &cproto.CommandLoadResponse{}
					if uerr := pb.Unmarshal(p, r); uerr == nil {
						o.Err = r.Error
					} else {
						var br cproto.CommandBackupResponse
						if pb.Unmarshal(p, &br) == nil {
							o.Err = br.Error
						}
					}
				}
				o.Denied = o.Err == "unauthorized"
			}
		}
		o.Leak, o.LeakIn = scanLeak(raw, nil)
	}
	o.Head = printable(raw, 120)
	// let an effect (if any) reach every member, then compare
	e.creds.p.Store(permOpenStore())
	if _, err := e.leader(); err != nil {
		return err
	}
	fp1, err := e.fingerprint()
	if err != nil {
		return err
	}
	o.Changed = fp0.diff(fp1)
	if o.Changed == nil {
		o.Changed = []string{}
	}
	return nil
}

var errRoleMoved = errors.New("role moved")

func permOpenStore() *auth.CredentialsStore {
	cs := auth.NewCredentialsStore()
	cs.Load(strings.NewReader(`[{"username":"*","perms":["all"]}]`))
	return cs
}

func (e *permEnv) runCase(c *permCase) (*permObs, error) {
	o := &permObs{ID: c.ID, F: c.F, Role: c.Role, Pres: c.Pres, Auth: c.Auth, Changed: []string{}}
	if c.F == "http:POST:/db/execute?queue" && c.Auth && c.Role == "follower" && os.Getenv("VERIF_PERM_QUEUE_ON_FOLLOWER") == "" {
		// a follower forwards queued writes without credentials and retries for ever: the node's queue
		// would stay blocked for the rest of the run (nothing C18 forbids; see notes/C18.md)
		o.Skipped = "queued write on a follower is forwarded without credentials"
		return o, nil
	}
	var first []string
	reruns := 0
	for try := 0; try < 6; try++ {
		*o = permObs{ID: c.ID, F: c.F, Role: c.Role, Pres: c.Pres, Auth: c.Auth, Changed: []string{}, Retried: try > 0, Flaky: first}
		err := e.attempt(c, o)
		if err == errRoleMoved {
			if _, err := e.settle(); err != nil {
				return nil, err
			}
			continue
		}
		if err != nil {
			return nil, fmt.Errorf("case %d %s: %w", c.ID, c.F, err)
		}
		if len(o.Changed) > 0 {
			if _, err := e.settle(); err != nil {
				return nil, err
			}
			if !c.Auth && reruns < 2 {
				// a state change during a request that had to be denied: could be a spontaneous election or
				// the tail of an earlier operation -- run the case again (twice at most) on the settled
				// cluster; only a change that shows every time is reported
				if first == nil {
					first = o.Changed
				}
				reruns++
				continue
			}
		}
		if first != nil && len(o.Changed) == 0 {
			o.Flaky = first
		} else {
			o.Flaky = nil
		}
		return o, nil
	}
	return nil, fmt.Errorf("case %d %s: role kept moving", c.ID, c.F)
}

func permReplay(args []string) error {
	fs := flag.NewFlagSet("perm-replay", flag.ExitOnError)
	in := fs.String("in", "cases.ndjson", "")
	out := fs.String("out", "obs.ndjson", "")
	base := fs.String("dir", "", "scratch dir")
	fs.Parse(args)
	if *base == "" {
		d, _ := os.MkdirTemp("", "vperm")
		*base = d
		defer os.RemoveAll(d)
	}
	raw, err := os.ReadFile(*in)
	if err != nil {
		return err
	}
	var cases []*permCase
	for _, line := range bytes.Split(raw, []byte("\n")) {
		if len(bytes.TrimSpace(line)) == 0 {
			continue
		}
		c := &permCase{}
		if err := json.Unmarshal(line, c); err != nil {
			return err
		}
		cases = append(cases, c)
	}
	w, err := newND(*out)
	if err != nil {
		return err
	}
	defer w.Close()

	creds := &swapAA{}
	creds.p.Store(permOpenStore())
	c, err := newCluster(vClusterOpts{N: 3, NonVoters: 1, Base: *base, CredsAA: creds, Configure: func(s *store.Store) {
		// slow failure detection: spontaneous elections on a loaded machine are noise here
		s.HeartbeatTimeout = 3 * time.Second
		s.ElectionTimeout = 3 * time.Second
		s.LeaderLeaseTimeout = 3 * time.Second
	}})
	if err != nil {
		return err
	}
	defer c.Close()
	e := &permEnv{c: c, creds: creds, n4: c.nodes[3], nextID: 1000}
	l, err := e.leader()
	if err != nil {
		return err
	}
	if _, _, err := sExec(l.Store, false,
		"CREATE TABLE "+permSecretTable+"(id INTEGER PRIMARY KEY, v TEXT)",
		"INSERT INTO "+permSecretTable+" VALUES(1,'"+permSecretValue+"')",
		"CREATE TABLE w(id INTEGER PRIMARY KEY, v TEXT)",
		"INSERT INTO w VALUES(1,'w1')"); err != nil {
		return err
	}
	var buf bytes.Buffer
	if err := l.Store.Backup(context.Background(), &proto.BackupRequest{Format: proto.BackupRequest_BACKUP_REQUEST_FORMAT_BINARY}, &buf); err != nil {
		return fmt.Errorf("initial backup: %w", err)
	}
	e.b0 = buf.Bytes()
	if !bytes.Contains(e.b0, []byte(permSecretValue)) {
		return errors.New("sentinel not in the binary copy")
	}
	if _, err := e.settle(); err != nil {
		return err
	}
	t0 := time.Now()
	stats := map[string]int{}
	for _, pc := range cases {
		o, err := e.runCase(pc)
		if err != nil {
			return err
		}
		w.Write(o)
		stats["cases"]++
		switch {
		case o.Skipped != "":
			stats["skipped"]++
		case o.Denied:
			stats["denied"]++
		default:
			stats["proceeded"]++
		}
		if o.Retried {
			stats["retried"]++
		}
		if len(o.Changed) > 0 {
			stats["state_changed"]++
		}
		if o.Leak {
			stats["sentinel_seen"]++
		}
	}
	stats["wall_ms"] = int(time.Since(t0).Milliseconds())
	b, _ := json.Marshal(stats)
	fmt.Println(string(b))
	return nil
}
