package main

// ckpt-replay: C06 "incremental WAL segments stay correct under busy and partial checkpoints".
//
// Every schedule (TLC-generated from specs/Checkpoint.tla, or seeded random beyond the
// exhaustive bound) is a sequence of
//     w  {pages}   one write transaction updating the given versioned pages
//     rs {r}       reader r starts: BEGIN + SELECT on its own read-only connection
//     re {r}       reader r ends: ROLLBACK, connection closed
//     ck           one incremental-snapshot attempt
// replayed on a REAL SQLite database in WAL mode through db.SwappableDB (which owns the real
// CheckpointManager, exactly as store.createDBOnDisk wires it).  An attempt is the store's
// incremental branch of fsmSnapshot, with the real objects: fsutil.PathExistsWithData(wal) ->
// snapshot.StagingDir.CreateWAL -> SwappableDB.Checkpoint(walWriter, timeout) -> error:
// walWriter.Cancel / success: walWriter.Close.
//
// Versioned pages (DESIGN 4.1): page k is table p_k(v, pad) with its own root page; a write is
// one transaction of UPDATE p_k SET v=<version>; the projection is SELECT v FROM p_k.
//
// After every step one ndjson line is written; the ckpt.* hook events of the manager land in
// the same ordered trace.  After every attempt the line carries the manager's meta, the armed
// state (verif export), the staged files, and after each success the new segment's frames, the
// live projection and the projection of the REBUILD: previous snapshot's database file with
// every staged segment applied in order by db.ReplayWAL.  TraceCheckpoint.tla judges the trace.

import (
	"context"
	"database/sql"
	"encoding/json"
	"errors"
	"flag"
	"fmt"
	"io"
	"math/rand"
	"os"
	"path/filepath"
	"sort"
	"time"

	"github.com/rqlite/rqlite/v10/command/proto"
	"github.com/rqlite/rqlite/v10/db"
	"github.com/rqlite/rqlite/v10/db/wal"
	"github.com/rqlite/rqlite/v10/internal/fsutil"
	"github.com/rqlite/rqlite/v10/internal/vhook"
	"github.com/rqlite/rqlite/v10/snapshot"
)

func init() { register("ckpt-replay", ckptReplay) }

type ckOp struct {
	Op    string `json:"op"`
	R     int    `json:"r,omitempty"`
	Pages []int  `json:"pages,omitempty"`
}

type ckSched struct {
	ID  string `json:"id"`
	Ops []ckOp `json:"ops"`
}

type ckStats struct {
	Runs        int            `json:"runs"`
	Steps       int            `json:"steps"`
	Writes      int            `json:"writes"`
	Restarts    int            `json:"wal_restarts"`
	Attempts    int            `json:"attempts"`
	Outcomes    map[string]int `json:"outcomes"`
	ResetsSeen  int            `json:"resets_detected"`
	Resumed     int            `json:"resumed_from_armed"`
	EmptySegs   int            `json:"empty_segments"`
	Rebuilds    int            `json:"rebuilds_compared"`
	BytesEqual  int            `json:"rebuild_bytes_equal"`
	BytesDiffer int            `json:"rebuild_bytes_differ"`
	Lines       int            `json:"lines"`
	HarnessErrs []string       `json:"harness_errors"`
	MaxLen      int            `json:"max_schedule_len"`
	Random      int            `json:"random_runs"`
	FromSpec    int            `json:"spec_runs"`
}

const ckPageSize = 4096

// ckFrame is one WAL frame in abstract terms.
type ckFrame struct {
	Pg     int  // abstract page (table index), 0 = a page that is no table root
	Commit bool // commit frame
}

// ckReadWAL returns the header salt and the valid frames of a WAL file ("" salt: empty file).
func ckReadWAL(path string, root map[uint32]int) (salt [2]uint32, has bool, frames []ckFrame, err error) {
	f, err := os.Open(path)
	if err != nil {
		if os.IsNotExist(err) {
			return salt, false, nil, nil
		}
		return salt, false, nil, err
	}
	defer f.Close()
	st, err := f.Stat()
	if err != nil {
		return salt, false, nil, err
	}
	if st.Size() == 0 {
		return salt, false, nil, nil
	}
	s, err := wal.ReadSaltAt(f)
	if err != nil {
		return salt, false, nil, err
	}
	salt = [2]uint32(s)
	r := wal.NewReader(f)
	if err := r.ReadHeader(); err != nil {
		return salt, true, nil, err
	}
	buf := make([]byte, r.PageSize())
	for {
		pgno, commit, err := r.ReadFrame(buf) // with checksum verification
		if err == io.EOF {
			break
		}
		if err != nil {
			return salt, true, frames, err
		}
		frames = append(frames, ckFrame{Pg: root[pgno], Commit: commit != 0})
	}
	return salt, true, frames, nil
}

func ckPages(fr []ckFrame) []int {
	out := make([]int, len(fr))
	for i, f := range fr {
		out[i] = f.Pg
	}
	return out
}

type ckReader struct {
	db   *sql.DB
	conn *sql.Conn
	view []int
}

type ckRun struct {
	w        *ndWriter
	st       *ckStats
	np       int
	tmo      time.Duration
	dir      string
	path     string
	sdb      *db.SwappableDB
	root     map[uint32]int
	stage    string
	rebuilt  string
	salts    map[[2]uint32]int
	prevN    int
	prevHas  bool
	prevSalt [2]uint32
	nw       int
	nseg     int
	readers  map[int]*ckReader
}

func (c *ckRun) saltID(s [2]uint32) int {
	if s == ([2]uint32{}) {
		return 0
	}
	if id, ok := c.salts[s]; ok {
		return id
	}
	id := len(c.salts) + 1
	c.salts[s] = id
	return id
}

func (c *ckRun) project(d *db.DB) ([]int, error) {
	out := make([]int, c.np)
	for k := 1; k <= c.np; k++ {
		s, err := d.VerifRWQuery(fmt.Sprintf("SELECT v FROM p_%d", k))
		if err != nil {
			return nil, err
		}
		fmt.Sscan(s, &out[k-1])
	}
	return out, nil
}

func ckCopy(src, dst string) error {
	b, err := os.ReadFile(src)
	if err != nil {
		return err
	}
	return os.WriteFile(dst, b, 0644)
}

func (c *ckRun) open() error {
	var err error
	c.dir, err = os.MkdirTemp("", "ckpt")
	if err != nil {
		return err
	}
	c.path = filepath.Join(c.dir, "db.sqlite")
	c.stage = filepath.Join(c.dir, "wal-staging")
	c.rebuilt = filepath.Join(c.dir, "rebuild", "db.sqlite")
	if err := os.MkdirAll(c.stage, 0755); err != nil {
		return err
	}
	if err := os.MkdirAll(filepath.Dir(c.rebuilt), 0755); err != nil {
		return err
	}
	// store.createDBOnDisk: sql.OpenSwappable(path, drv, fkConstraints, true, maxROConns)
	c.sdb, err = db.OpenSwappable(c.path, nil, false, true, 0)
	if err != nil {
		return err
	}
	req := &proto.Request{Transaction: true}
	for k := 1; k <= c.np; k++ {
		req.Statements = append(req.Statements,
			&proto.Statement{Sql: fmt.Sprintf("CREATE TABLE p_%d (v INTEGER, pad TEXT)", k)},
			&proto.Statement{Sql: fmt.Sprintf("INSERT INTO p_%d VALUES(0, '')", k)})
	}
	if err := ckExec(c.sdb, req); err != nil {
		return err
	}
	if err := c.sdb.SetSynchronousMode(db.SynchronousOff); err != nil {
		return err
	}
	// the previous (full) snapshot: checkpoint + truncate, then a copy of the database file
	meta, _, err := c.sdb.Checkpoint(nil, 2*time.Second)
	if err != nil || !meta.Success() {
		return fmt.Errorf("initial full checkpoint: %v %v", meta, err)
	}
	if err := ckCopy(c.path, c.rebuilt); err != nil {
		return err
	}
	c.root = map[uint32]int{}
	for k := 1; k <= c.np; k++ {
		s, err := c.sdb.VerifDB().VerifRWQuery(fmt.Sprintf("SELECT rootpage FROM sqlite_master WHERE name='p_%d'", k))
		if err != nil {
			return err
		}
		var pg uint32
		fmt.Sscan(s, &pg)
		c.root[pg] = k
	}
	c.salts = map[[2]uint32]int{}
	c.readers = map[int]*ckReader{}
	s, has, fr, err := ckReadWAL(c.path+"-wal", c.root)
	if err != nil {
		return err
	}
	if has || len(fr) != 0 {
		return fmt.Errorf("WAL not empty after the full checkpoint (salt %v, %d frames)", s, len(fr))
	}
	return nil
}

func ckExec(sdb *db.SwappableDB, req *proto.Request) error {
	res, err := sdb.Execute(req, false)
	if err != nil {
		return err
	}
	for _, r := range res {
		if e := r.GetError(); e != "" {
			return errors.New(e)
		}
		if e := r.GetE().GetError(); e != "" {
			return errors.New(e)
		}
	}
	return nil
}

func (c *ckRun) close() {
	for r := range c.readers {
		c.stopReader(r)
	}
	if c.sdb != nil {
		c.sdb.Close()
	}
	os.RemoveAll(c.dir)
}

func (c *ckRun) readerView(rd *ckReader) ([]int, error) {
	out := make([]int, c.np)
	for k := 1; k <= c.np; k++ {
		if err := rd.conn.QueryRowContext(context.Background(), fmt.Sprintf("SELECT v FROM p_%d", k)).Scan(&out[k-1]); err != nil {
			return nil, err
		}
	}
	return out, nil
}

func (c *ckRun) startReader(r int) error {
	rdb, err := sql.Open(db.DefaultDriver().Name(), db.MakeDSN(c.path, db.ModeReadOnly, false, true))
	if err != nil {
		return err
	}
	conn, err := rdb.Conn(context.Background())
	if err != nil {
		rdb.Close()
		return err
	}
	rd := &ckReader{db: rdb, conn: conn}
	if _, err := conn.ExecContext(context.Background(), "BEGIN"); err != nil {
		return err
	}
	if rd.view, err = c.readerView(rd); err != nil { // takes the read lock, held until ROLLBACK
		return err
	}
	c.readers[r] = rd
	c.w.Write(map[string]any{"ev": "rs", "r": r, "view": rd.view})
	return nil
}

func (c *ckRun) stopReader(r int) error {
	rd := c.readers[r]
	if rd == nil {
		return nil
	}
	delete(c.readers, r)
	view, verr := c.readerView(rd) // a snapshot reader still sees what it saw when it started
	_, err := rd.conn.ExecContext(context.Background(), "ROLLBACK")
	rd.conn.Close()
	rd.db.Close()
	if err != nil {
		return err
	}
	if verr != nil {
		return verr
	}
	c.w.Write(map[string]any{"ev": "re", "r": r, "view": view, "same": fmt.Sprint(view) == fmt.Sprint(rd.view)})
	return nil
}

func (c *ckRun) write(pages []int) error {
	sort.Ints(pages)
	c.nw++
	req := &proto.Request{Transaction: true}
	for _, k := range pages {
		req.Statements = append(req.Statements, &proto.Statement{Sql: fmt.Sprintf("UPDATE p_%d SET v=%d", k, c.nw)})
	}
	if err := ckExec(c.sdb, req); err != nil {
		return err
	}
	return c.observeWrite(pages)
}

// observeWrite looks at the WAL file after a write: did SQLite append or restart, which frames were added.
func (c *ckRun) observeWrite(pages []int) error {
	salt, has, fr, err := ckReadWAL(c.path+"-wal", c.root)
	if err != nil {
		return err
	}
	if !has {
		return fmt.Errorf("no WAL after a write")
	}
	restart := c.prevHas && salt != c.prevSalt
	from := c.prevN
	if restart || !c.prevHas {
		from = 0
	}
	if from > len(fr) {
		return fmt.Errorf("WAL shrank without a salt change: %d -> %d frames", from, len(fr))
	}
	c.w.Write(map[string]any{"ev": "w", "pages": pages, "ver": c.nw, "restart": restart, "salt": c.saltID(salt),
		"nframes": len(fr), "frames": ckPages(fr[from:])})
	c.prevHas, c.prevSalt, c.prevN = true, salt, len(fr)
	c.st.Writes++
	if restart {
		c.st.Restarts++
	}
	return nil
}

// attempt is the incremental branch of store.fsmSnapshot around the checkpoint, with the real objects.
func (c *ckRun) attempt() error {
	c.st.Attempts++
	walPath := c.path + "-wal"
	has := fsutil.PathExistsWithData(walPath)
	c.w.Write(map[string]any{"ev": "att.begin", "haswal": has})
	sd := snapshot.NewStagingDir(c.stage)
	before, err := sd.WALFiles()
	if err != nil {
		return err
	}
	if !has {
		// store: ErrNoWALToSnapshot
		c.w.Write(map[string]any{"ev": "att.end", "out": "nowal", "nstaged": len(before)})
		c.st.Outcomes["nowal"]++
		return nil
	}
	walWriter, segPath, err := sd.CreateWAL()
	if err != nil {
		return err
	}
	meta, n, cerr := c.sdb.Checkpoint(walWriter, c.tmo)
	errc := ""
	if cerr != nil {
		var re db.RetryableError
		switch {
		case cerr == db.ErrDatabaseCheckpointBusy:
			errc = "busy"
		case errors.As(cerr, &re) && !re.Retryable():
			errc = "nonretryable" // the store would log.Fatalf here
		default:
			errc = "other:" + cerr.Error()
		}
		walWriter.Cancel() // store: deferred Cancel on every error return
	} else if err := walWriter.Close(); err != nil {
		return err
	}
	line := map[string]any{"ev": "att.end", "ok": cerr == nil, "errc": errc, "n": n}
	if meta != nil {
		line["code"], line["pages"], line["moved"], line["reset"] = meta.Code, meta.Pages, meta.Moved, meta.WALReset
		if meta.WALReset {
			c.st.ResetsSeen++
		}
	} else {
		line["code"], line["pages"], line["moved"], line["reset"] = -1, -1, -1, false
	}
	armed, asalt, aidx := c.sdb.VerifWatch()
	line["armed"], line["asalt"], line["aidx"] = armed, c.saltID(asalt), aidx
	after, err := sd.WALFiles()
	if err != nil {
		return err
	}
	sort.Strings(after)
	line["nstaged"] = len(after)
	ents, err := os.ReadDir(c.stage)
	if err != nil {
		return err
	}
	line["nfiles"] = len(ents) // every closed segment has exactly one .crc32 sidecar
	// the WAL as SQLite left it
	salt, whas, fr, err := ckReadWAL(walPath, c.root)
	if err != nil {
		return err
	}
	c.prevHas, c.prevSalt, c.prevN = whas, salt, len(fr)
	line["walhas"] = whas
	live, err := c.project(c.sdb.VerifDB())
	if err != nil {
		return err
	}
	line["live"] = live
	if cerr == nil {
		if len(after) != len(before)+1 || after[len(after)-1] != segPath {
			line["segmissing"] = true
		} else {
			// the captured segment, and the rebuild: previous snapshot + every segment so far, in order
			_, _, sfr, err := ckReadWAL(segPath, c.root)
			if err != nil {
				return fmt.Errorf("staged segment unreadable: %w", err)
			}
			line["seg"] = ckPages(sfr)
			line["seglast"] = len(sfr) == 0 || sfr[len(sfr)-1].Commit
			if len(sfr) == 0 {
				c.st.EmptySegs++
			}
			c.nseg++
			cp := filepath.Join(filepath.Dir(c.rebuilt), fmt.Sprintf("seg-%06d.wal", c.nseg))
			if err := ckCopy(segPath, cp); err != nil {
				return err
			}
			if rerr := db.ReplayWAL(c.rebuilt, []string{cp}, false); rerr != nil {
				line["replayerr"] = rerr.Error()
			}
			rb, eq, err := c.projectRebuilt()
			if err != nil {
				line["replayerr"] = fmt.Sprint(line["replayerr"], " project: ", err)
				rb = make([]int, c.np)
				for i := range rb {
					rb[i] = -1
				}
			}
			line["rebuilt"] = rb
			line["byteseq"] = eq
			c.st.Rebuilds++
			if eq {
				c.st.BytesEqual++
			} else {
				c.st.BytesDiffer++
			}
		}
	}
	c.w.Write(line)
	return nil
}

// projectRebuilt reads the versioned pages of the rebuilt database from a throw-away copy
// (so that the rebuilt file itself never gets a -wal of its own) and compares the file,
// byte for byte, with the live database file (meaningful whenever the live WAL is fully
// checkpointed, which is the case after every successful attempt).
func (c *ckRun) projectRebuilt() ([]int, bool, error) {
	rbBytes, err := os.ReadFile(c.rebuilt)
	if err != nil {
		return nil, false, err
	}
	liveBytes, err := os.ReadFile(c.path)
	if err != nil {
		return nil, false, err
	}
	eq := len(rbBytes) == len(liveBytes)
	if eq {
		for i := range rbBytes {
			// 24..27 change counter, 92..99 version-valid-for / SQLite version: bookkeeping, not content
			if rbBytes[i] != liveBytes[i] && !(i >= 24 && i < 28) && !(i >= 92 && i < 100) {
				eq = false
				break
			}
		}
	}
	tmp := filepath.Join(c.dir, "probe")
	os.RemoveAll(tmp)
	if err := os.MkdirAll(tmp, 0755); err != nil {
		return nil, eq, err
	}
	defer os.RemoveAll(tmp)
	p := filepath.Join(tmp, "db.sqlite")
	if err := os.WriteFile(p, rbBytes, 0644); err != nil {
		return nil, eq, err
	}
	d, err := db.Open(p, false, true)
	if err != nil {
		return nil, eq, err
	}
	defer d.Close()
	out, err := c.project(d)
	return out, eq, err
}

func ckRunOne(w *ndWriter, st *ckStats, s ckSched, np int, tmo time.Duration) (err error) {
	c := &ckRun{w: w, st: st, np: np, tmo: tmo}
	if err := c.open(); err != nil {
		c.close()
		return fmt.Errorf("open: %w", err)
	}
	defer c.close()
	// hook events of this run's manager, rewritten into the trace vocabulary
	vhook.SetSink(func(e vhook.Event) {
		switch e.Ev {
		case "ckpt.begin":
			w.Write(map[string]any{"ev": e.Ev, "walsz": e.KV["walsz"], "armed": e.KV["armed"], "w": e.KV["w"]})
		case "ckpt.check":
			s0, _ := e.KV["salt0"].(uint32)
			s1, _ := e.KV["salt1"].(uint32)
			if n, _ := e.KV["start"].(int64); n > 0 {
				st.Resumed++
			}
			w.Write(map[string]any{"ev": e.Ev, "salt": c.saltID([2]uint32{s0, s1}), "start": e.KV["start"], "reset": e.KV["reset"]})
		case "ckpt.compact":
			b, _ := e.KV["bytes"].(int64)
			w.Write(map[string]any{"ev": e.Ev, "nfr": (b - wal.WALHeaderSize) / (wal.WALFrameHeaderSize + ckPageSize), "empty": e.KV["empty"]})
		case "ckpt.result":
			w.Write(map[string]any{"ev": "ckpt.sqlite", "code": e.KV["code"], "pages": e.KV["pages"], "moved": e.KV["moved"]})
			w.Write(map[string]any{"ev": "ckpt.classify", "outcome": e.KV["outcome"]})
			st.Outcomes[fmt.Sprint(e.KV["outcome"])]++
		}
	})
	defer vhook.SetSink(nil)
	w.Write(map[string]any{"ev": "reset", "run": s.ID, "np": np, "ops": s.Ops})
	for i, op := range s.Ops {
		st.Steps++
		switch op.Op {
		case "w":
			err = c.write(append([]int(nil), op.Pages...))
		case "rs":
			err = c.startReader(op.R)
		case "re":
			err = c.stopReader(op.R)
		case "ck":
			err = c.attempt()
		default:
			err = fmt.Errorf("unknown op %q", op.Op)
		}
		if err != nil {
			return fmt.Errorf("step %d (%s): %w", i, op.Op, err)
		}
	}
	return nil
}

// ckRandom draws a schedule beyond the exhaustive bound: more pages, readers, writes, attempts.
func ckRandom(rng *rand.Rand, id string, np, nreaders, n int) ckSched {
	s := ckSched{ID: id}
	running := map[int]bool{}
	dirty := false // something was written since the last attempt
	for len(s.Ops) < n {
		wck := 30
		if !dirty {
			wck = 8
		}
		switch k := rng.Intn(70 + wck); {
		case k < 40:
			var pages []int
			for len(pages) == 0 {
				for p := 1; p <= np; p++ {
					if rng.Intn(3) == 0 {
						pages = append(pages, p)
					}
				}
			}
			s.Ops = append(s.Ops, ckOp{Op: "w", Pages: pages})
			dirty = true
		case k < 70:
			r := 1 + rng.Intn(nreaders)
			if running[r] {
				s.Ops = append(s.Ops, ckOp{Op: "re", R: r})
			} else {
				s.Ops = append(s.Ops, ckOp{Op: "rs", R: r})
			}
			running[r] = !running[r]
		default:
			s.Ops = append(s.Ops, ckOp{Op: "ck"})
			dirty = false
		}
	}
	return s
}

func ckptReplay(args []string) error {
	fs := flag.NewFlagSet("ckpt-replay", flag.ExitOnError)
	in := fs.String("in", "", "ndjson of schedules {id, ops} generated by TLC (optional)")
	out := fs.String("out", "ckpt.trace.ndjson", "trace file")
	nrand := fs.Int("random", 0, "number of seeded random schedules")
	rlen := fs.Int("len", 16, "maximum length of a random schedule")
	np := fs.Int("np", 4, "number of versioned pages (tables)")
	nreaders := fs.Int("readers", 3, "readers of random schedules")
	shard := fs.Int("shard", 0, "this shard")
	of := fs.Int("of", 1, "number of shards")
	tmoMs := fs.Int("timeout-ms", 10, "checkpoint busy timeout")
	fs.Parse(args)

	w, err := newND(*out)
	if err != nil {
		return err
	}
	st := &ckStats{Outcomes: map[string]int{}}
	tmo := time.Duration(*tmoMs) * time.Millisecond
	run := func(s ckSched) {
		if len(s.Ops) > st.MaxLen {
			st.MaxLen = len(s.Ops)
		}
		st.Runs++
		if err := ckRunOne(w, st, s, *np, tmo); err != nil {
			// a dead driver is never a verdict: the check turns this into "undecided"
			w.Write(map[string]any{"ev": "harness-error", "run": s.ID, "err": err.Error()})
			if len(st.HarnessErrs) < 10 {
				st.HarnessErrs = append(st.HarnessErrs, s.ID+": "+err.Error())
			}
		}
	}
	scheds, err := ckLoadScheds(*in, *shard, *of)
	if err != nil {
		return err
	}
	for _, s := range scheds {
		st.FromSpec++
		run(s)
	}
	rng := newRand(int64(7919 * (*shard + 1)))
	for i := 0; i < *nrand; i++ {
		n := 6 + rng.Intn(*rlen-5)
		st.Random++
		run(ckRandom(rng, fmt.Sprintf("rand-%d-%d-%d", seedFromEnv(), *shard, i), *np, *nreaders, n))
	}
	st.Lines = w.n
	if err := w.Close(); err != nil {
		return err
	}
	return ckPrintStats(st)
}

func ckPrintStats(st *ckStats) error {
	b, err := json.Marshal(st)
	fmt.Println(string(b))
	return err
}

// ckLoadScheds reads the schedules of this shard from an ndjson file ("" = none).
func ckLoadScheds(path string, shard, of int) ([]ckSched, error) {
	if path == "" {
		return nil, nil
	}
	f, err := os.Open(path)
	if err != nil {
		return nil, err
	}
	defer f.Close()
	var out []ckSched
	dec := json.NewDecoder(f)
	for i := 0; ; i++ {
		var s ckSched
		if err := dec.Decode(&s); err == io.EOF {
			break
		} else if err != nil {
			return nil, err
		}
		if i%of != shard {
			continue
		}
		if s.ID == "" {
			s.ID = fmt.Sprintf("spec-%d", i)
		}
		out = append(out, s)
	}
	return out, nil
}
