package main

// C08: crash-safety of the old-format snapshot upgrade (snapshot.Upgrade7To8 then
// snapshot.Upgrade8To10, as run by store.Open before snapshot.NewStore).
//
//   upgrade-run     driver: for every case (original store kind/shape/content + a schedule of
//                   runs, each clean or killed at a crash point, possibly followed by a partial
//                   removal of the old directory = crash inside RemoveAll) builds the store in
//                   place; every run that is to crash executes in a child process (re-exec of this
//                   binary, VERIF_CRASH=<point>#<k>, exit 86 at the point), clean runs execute in the
//                   driver (process creation is the dominant cost); the disk is observed after
//                   every run, after every successful start the result is opened with
//                   snapshot.NewStore and the newest snapshot restored; writes the step/observation
//                   trace for TraceUpgrade.tla and the direct oracle verdicts (the property text).
//   upgrade-worker  child: the start-up sequence on one raft directory (VERIF_CRASH / VERIF_TRACE
//                   from the environment).

import (
	"bytes"
	"compress/gzip"
	"crypto/sha256"
	"database/sql"
	"encoding/binary"
	"encoding/hex"
	"encoding/json"
	"flag"
	"fmt"
	"io"
	"log"
	"os"
	"os/exec"
	"path/filepath"
	"sort"
	"strings"
	"sync"
	"time"

	"github.com/hashicorp/raft"
	"github.com/rqlite/rqlite/v10/db"
	"github.com/rqlite/rqlite/v10/internal/vhook"
	"github.com/rqlite/rqlite/v10/snapshot"
	"github.com/rqlite/rqlite/v10/snapshot/sidecar"
)

func init() {
	register("upgrade-run", upgradeRun)
	register("upgrade-worker", upgradeWorker)
}

const upMaxSnaps = 3

// upSnap is what the original snapshot k of a case looks like and what its content is.
type upSnap struct {
	K        int    `json:"k"`
	ID       string `json:"id"`
	Term     uint64 `json:"term"`
	Index    uint64 `json:"index"`
	Shape    string `json:"shape"`     // full | nodata | none
	StateSHA string `json:"state_sha"` // v7: sha256 of state.bin
	Digest   string `json:"digest"`    // logical content of the database
	EmptyDB  bool   `json:"empty_db"`  // the database has no content (v7 state.bin with header only)
}

type upRec struct {
	Dir  bool   `json:"dir"`
	Meta bool   `json:"meta"`
	Data string `json:"data"`
	Crc  string `json:"crc"`
}

type upRun struct {
	Crash   string  `json:"crash"` // "" = clean run, else point#k
	Partial bool    `json:"partial"`
	PDir    string  `json:"pdir"`
	PS      []upRec `json:"ps"`
}

type upCase struct {
	ID      int      `json:"id"`
	Kind    string   `json:"kind"`
	Shape   []string `json:"shape"`
	Variant string   `json:"variant"` // gen:<n> | empty | fixture:<dir>
	Runs    []upRun  `json:"runs"`
	Label   string   `json:"label"`
	// RunLabels names the model position of every run ("ok" for a clean one); a failure is keyed by
	// what happened before the failing run, not by what was still planned
	RunLabels []string `json:"runlabels"`
}

type upFailure struct {
	Case    int     `json:"case"`
	Class   string  `json:"class"`
	Label   string  `json:"label"`
	Detail  string  `json:"detail"`
	Kind    string  `json:"kind"`
	Runs    []upRun `json:"runs"`
	Variant string  `json:"variant"`
}

var upDirs = map[string]string{"d7": "snapshots", "t8": "rsnapshots.tmp", "d8": "rsnapshots", "t10": "wsnapshots.tmp", "d10": "wsnapshots"}

const upPlanFile = "UPGRADE_8_10_PLAN"

// ---------------------------------------------------------------- content digests

var (
	upDigMu    sync.Mutex
	upDigCache = map[string]string{}
)

// upDigestFile returns a digest of the logical content (schema and rows) of the SQLite file
// at path, "invalid" if it is not a readable database.  The file is opened immutable and
// read-only, so nothing is created next to it.
func upDigestFile(path string) string {
	b, err := os.ReadFile(path)
	if err != nil {
		return "invalid"
	}
	sum := sha256.Sum256(b)
	key := hex.EncodeToString(sum[:])
	upDigMu.Lock()
	d, ok := upDigCache[key]
	upDigMu.Unlock()
	if ok {
		return d
	}
	d = upDigestUncached(path, b)
	upDigMu.Lock()
	upDigCache[key] = d
	upDigMu.Unlock()
	return d
}

func upDigestUncached(path string, b []byte) string {
	if !db.IsValidSQLiteData(b) {
		return "invalid"
	}
	conn, err := sql.Open("sqlite3", "file:"+path+"?mode=ro&immutable=1")
	if err != nil {
		return "invalid"
	}
	defer conn.Close()
	h := sha256.New()
	dump := func(q string) error {
		rows, err := conn.Query(q)
		if err != nil {
			return err
		}
		defer rows.Close()
		cols, _ := rows.Columns()
		for rows.Next() {
			vals := make([]any, len(cols))
			ptrs := make([]any, len(cols))
			for i := range vals {
				ptrs[i] = &vals[i]
			}
			if err := rows.Scan(ptrs...); err != nil {
				return err
			}
			for _, v := range vals {
				if bb, ok := v.([]byte); ok {
					v = string(bb)
				}
				fmt.Fprintf(h, "%T:%v|", v, v)
			}
			fmt.Fprint(h, "\n")
		}
		return rows.Err()
	}
	rows, err := conn.Query("SELECT name FROM sqlite_master WHERE type='table' ORDER BY name")
	if err != nil {
		return "invalid"
	}
	var tables []string
	for rows.Next() {
		var n string
		if rows.Scan(&n) == nil {
			tables = append(tables, n)
		}
	}
	rows.Close()
	if err := dump("SELECT type, name, tbl_name, sql FROM sqlite_master ORDER BY type, name"); err != nil {
		return "invalid"
	}
	for _, t := range tables {
		if err := dump(`SELECT * FROM "` + t + `" ORDER BY 1`); err != nil {
			return "invalid"
		}
	}
	if len(tables) == 0 {
		return "empty"
	}
	return hex.EncodeToString(h.Sum(nil))[:20]
}

// ---------------------------------------------------------------- building old-format stores

var upGenIDs = []struct {
	id          string
	term, index uint64
}{ // ordered by (term, index): a lower term with a higher index is older, 2-8 < 2-18 numerically
	{"1-50-1686659750001", 1, 50}, {"2-8-1686659756627", 2, 8}, {"2-18-1686659761026", 2, 18},
}

type upContent struct {
	sqlite []byte // database file bytes
	state  []byte // v7 state.bin bytes
	digest string
}

var (
	upPoolMu sync.Mutex
	upPool   = map[string]*upContent{}
)

// upMakeContent creates a small real SQLite database whose rows depend on (variant, k).
func upMakeContent(scratch string, variant string, k int, wal bool) (*upContent, error) {
	key := fmt.Sprintf("%s/%d/%v", variant, k, wal)
	upPoolMu.Lock()
	defer upPoolMu.Unlock()
	if c, ok := upPool[key]; ok {
		return c, nil
	}
	dir, err := os.MkdirTemp(scratch, "mk")
	if err != nil {
		return nil, err
	}
	defer os.RemoveAll(dir)
	p := filepath.Join(dir, "c.db")
	d, err := db.Open(p, false, wal)
	if err != nil {
		return nil, err
	}
	rng := newRand(int64(len(variant))*7919 + int64(k)*104729 + int64(hashString(variant)))
	stmts := []string{"CREATE TABLE p(k INTEGER PRIMARY KEY, v TEXT, b BLOB)", "CREATE TABLE snap(id INTEGER PRIMARY KEY, variant TEXT)",
		fmt.Sprintf("INSERT INTO snap VALUES(%d, '%s')", k, variant)}
	nrows := 3 + rng.Intn(40*k)
	for i := 0; i < nrows; i++ {
		stmts = append(stmts, fmt.Sprintf("INSERT INTO p VALUES(%d, 'v%d-%d-%d', x'%016x')", i+1, k, i, rng.Intn(1000000), rng.Int63()))
	}
	if rng.Intn(2) == 0 {
		stmts = append(stmts, "CREATE INDEX p_v ON p(v)")
	}
	for _, s := range stmts {
		res, err := d.ExecuteStringStmt(s)
		if err == nil && len(res) > 0 && res[0].GetError()+res[0].GetE().GetError() != "" {
			err = fmt.Errorf("%s: %s%s", s, res[0].GetError(), res[0].GetE().GetError())
		}
		if err != nil {
			d.Close()
			return nil, err
		}
	}
	if wal { // a v8 snapshot is a checkpointed WAL-mode database file
		if _, err := d.Checkpoint(db.CheckpointTruncate); err != nil {
			d.Close()
			return nil, err
		}
	}
	if err := d.Close(); err != nil {
		return nil, err
	}
	b, err := os.ReadFile(p)
	if err != nil {
		return nil, err
	}
	c := &upContent{sqlite: b, digest: upDigestFile(p)}
	if c.digest == "invalid" || c.digest == "empty" {
		return nil, fmt.Errorf("generated database has digest %s", c.digest)
	}
	c.state = upV7State(b)
	upPool[key] = c
	return c, nil
}

func hashString(s string) uint32 {
	var h uint32 = 2166136261
	for i := 0; i < len(s); i++ {
		h = (h ^ uint32(s[i])) * 16777619
	}
	return h
}

// upV7State builds a v7 state.bin: 8 bytes of 0xff, 8 bytes little-endian compressed length,
// then the gzip-compressed SQLite file (nothing after the header for an empty database).
func upV7State(sqlite []byte) []byte {
	var z bytes.Buffer
	if len(sqlite) > 0 {
		gw := gzip.NewWriter(&z)
		gw.Write(sqlite)
		gw.Close()
	}
	out := bytes.Repeat([]byte{0xff}, 8)
	var ln [8]byte
	binary.LittleEndian.PutUint64(ln[:], uint64(z.Len()))
	out = append(out, ln[:]...)
	return append(out, z.Bytes()...)
}

func upSHA(b []byte) string {
	s := sha256.Sum256(b)
	return hex.EncodeToString(s[:])
}

func upWriteMeta(dir string, s *upSnap, size int64) error {
	m := &raft.SnapshotMeta{Version: 1, ID: s.ID, Index: s.Index, Term: s.Term,
		Configuration:      raft.Configuration{Servers: []raft.Server{{Suffrage: raft.Voter, ID: "node1", Address: "localhost:4002"}}},
		ConfigurationIndex: 1, Size: size}
	b, err := json.Marshal(m)
	if err != nil {
		return err
	}
	return os.WriteFile(filepath.Join(dir, "meta.json"), append(b, '\n'), 0644)
}

// upBuild materialises the original store of a case under raftDir and returns the expected snapshots.
func upBuild(scratch, fixtures, raftDir string, c *upCase) ([]upSnap, error) {
	snaps := make([]upSnap, upMaxSnaps)
	for k := 1; k <= upMaxSnaps; k++ {
		snaps[k-1] = upSnap{K: k, Shape: c.Shape[k-1]}
	}
	old := filepath.Join(raftDir, upDirs["d7"])
	if c.Kind == "v8" {
		old = filepath.Join(raftDir, upDirs["d8"])
	}
	if strings.HasPrefix(c.Variant, "fixture:") {
		src := filepath.Join(fixtures, strings.TrimPrefix(c.Variant, "fixture:"))
		if err := upCopyTree(src, old); err != nil {
			return nil, err
		}
		// identify the fixture's snapshots: sorted by (term, index) they are k = 1..n
		ents, err := os.ReadDir(old)
		if err != nil {
			return nil, err
		}
		var metas []*raft.SnapshotMeta
		for _, e := range ents {
			if !e.IsDir() {
				continue
			}
			b, err := os.ReadFile(filepath.Join(old, e.Name(), "meta.json"))
			if err != nil {
				return nil, err
			}
			m := &raft.SnapshotMeta{}
			if err := json.Unmarshal(b, m); err != nil {
				return nil, err
			}
			metas = append(metas, m)
		}
		sort.Slice(metas, func(i, j int) bool {
			if metas[i].Term != metas[j].Term {
				return metas[i].Term < metas[j].Term
			}
			return metas[i].Index < metas[j].Index
		})
		n := 0
		for _, sh := range c.Shape {
			if sh != "none" {
				n++
			}
		}
		if len(metas) != n {
			return nil, fmt.Errorf("fixture %s has %d snapshots, the case shape says %d", src, len(metas), n)
		}
		for i, m := range metas {
			s := &snaps[i]
			s.ID, s.Term, s.Index = m.ID, m.Term, m.Index
			var dataPath string
			if c.Kind == "v7" {
				dataPath = filepath.Join(old, m.ID, "state.bin")
			} else {
				dataPath = filepath.Join(old, m.ID+".db")
			}
			b, err := os.ReadFile(dataPath)
			if err != nil {
				if s.Shape == "nodata" && os.IsNotExist(err) {
					continue
				}
				return nil, err
			}
			if s.Shape != "full" {
				return nil, fmt.Errorf("fixture %s snapshot %s has data, the case shape says %s", src, m.ID, s.Shape)
			}
			if c.Kind == "v7" {
				s.StateSHA = upSHA(b)
				if len(b) == 16 {
					s.EmptyDB, s.Digest = true, "empty"
					continue
				}
				gr, err := gzip.NewReader(bytes.NewReader(b[16:]))
				if err != nil {
					return nil, err
				}
				raw, err := io.ReadAll(gr)
				if err != nil {
					return nil, err
				}
				tmp := filepath.Join(raftDir, "fixture-digest.db")
				if err := os.WriteFile(tmp, raw, 0644); err != nil {
					return nil, err
				}
				s.Digest = upDigestFile(tmp)
				os.Remove(tmp)
			} else {
				s.Digest = upDigestFile(dataPath)
			}
			if s.Digest == "invalid" {
				return nil, fmt.Errorf("fixture %s snapshot %s: unreadable database", src, m.ID)
			}
		}
		return snaps, nil
	}
	if err := os.MkdirAll(old, 0755); err != nil {
		return nil, err
	}
	for k := 1; k <= upMaxSnaps; k++ {
		s := &snaps[k-1]
		if s.Shape == "none" {
			continue
		}
		g := upGenIDs[k-1]
		s.ID, s.Term, s.Index = g.id, g.term, g.index
		sd := filepath.Join(old, s.ID)
		if err := os.MkdirAll(sd, 0755); err != nil {
			return nil, err
		}
		var size int64
		if s.Shape == "full" {
			if c.Variant == "empty" {
				if c.Kind != "v7" {
					return nil, fmt.Errorf("the empty variant is a v7 store")
				}
				st := upV7State(nil)
				s.EmptyDB, s.Digest, s.StateSHA = true, "empty", upSHA(st)
				if err := os.WriteFile(filepath.Join(sd, "state.bin"), st, 0644); err != nil {
					return nil, err
				}
				size = int64(len(st))
			} else {
				ct, err := upMakeContent(scratch, c.Variant, k, c.Kind == "v8")
				if err != nil {
					return nil, err
				}
				s.Digest = ct.digest
				if c.Kind == "v7" {
					s.StateSHA = upSHA(ct.state)
					if err := os.WriteFile(filepath.Join(sd, "state.bin"), ct.state, 0644); err != nil {
						return nil, err
					}
					size = int64(len(ct.state))
				} else {
					if err := os.WriteFile(filepath.Join(old, s.ID+".db"), ct.sqlite, 0644); err != nil {
						return nil, err
					}
					size = int64(len(ct.sqlite))
				}
			}
		}
		if err := upWriteMeta(sd, s, size); err != nil {
			return nil, err
		}
	}
	return snaps, nil
}

func upCopyTree(src, dst string) error {
	return filepath.Walk(src, func(p string, fi os.FileInfo, err error) error {
		if err != nil {
			return err
		}
		rel, _ := filepath.Rel(src, p)
		t := filepath.Join(dst, rel)
		if fi.IsDir() {
			return os.MkdirAll(t, 0755)
		}
		b, err := os.ReadFile(p)
		if err != nil {
			return err
		}
		return os.WriteFile(t, b, 0644)
	})
}

// ---------------------------------------------------------------- observing the disk

func upExists(p string) bool { _, err := os.Lstat(p); return err == nil }

func upMetaOK(p string, s *upSnap) bool {
	b, err := os.ReadFile(p)
	if err != nil {
		return false
	}
	m := &raft.SnapshotMeta{}
	if json.Unmarshal(b, m) != nil {
		return false
	}
	return m.ID == s.ID && m.Index == s.Index && m.Term == s.Term
}

// upClassifyDB says whether the database file at p holds the full content of snapshot s.
// A zero-length <id>.db of the v8 layout is ambiguous when the original database is empty: it is
// "created, not yet copied" right after up78.dbcreated and the complete (empty) content after
// up78.copied, until EnsureWALMode makes it a 4096-byte file; the last step of the run that wrote
// it tells them apart (the tmp directory never survives the start of the next run).  In the v10
// layout the source is that 4096-byte file, so a zero-length data.db is always an unfinished copy.
func upClassifyDB(p string, s *upSnap, lastev string, v8layout bool) string {
	fi, err := os.Stat(p)
	if err != nil {
		return "none"
	}
	if s.EmptyDB && fi.Size() == 0 && v8layout {
		if lastev == "up78.dbcreated" {
			return "partial"
		}
		return "full"
	}
	if upDigestFile(p) == s.Digest {
		return "full"
	}
	return "partial"
}

type upObs struct {
	FS   map[string]any `json:"fs"`
	Plan map[string]any `json:"plan"`
	// leftovers the abstraction does not name (reported, not judged)
	Extra []string `json:"extra,omitempty"`
}

func upObserve(raftDir string, snaps []upSnap, lastev string) upObs {
	o := upObs{FS: map[string]any{}}
	known := map[string]bool{}
	for _, s := range snaps {
		if s.ID != "" {
			known[s.ID] = true
			known[s.ID+".db"] = true
		}
	}
	for dn, name := range upDirs {
		d := filepath.Join(raftDir, name)
		recs := make([]upRec, upMaxSnaps)
		ex := upExists(d)
		for i := range snaps {
			s := &snaps[i]
			r := upRec{Data: "none", Crc: "none"}
			if ex && s.ID != "" {
				sd := filepath.Join(d, s.ID)
				r.Dir = upExists(sd)
				r.Meta = upMetaOK(filepath.Join(sd, "meta.json"), s)
				switch dn {
				case "d7":
					if b, err := os.ReadFile(filepath.Join(sd, "state.bin")); err == nil {
						r.Data = "partial"
						if upSHA(b) == s.StateSHA {
							r.Data = "full"
						}
					}
				case "t8", "d8":
					r.Data = upClassifyDB(filepath.Join(d, s.ID+".db"), s, lastev, true)
				default:
					dp := filepath.Join(sd, "data.db")
					r.Data = upClassifyDB(dp, s, lastev, false)
					if upExists(dp + ".crc32") {
						r.Crc = "stale"
						if ok, err := sidecar.CompareFile(dp, dp+".crc32"); err == nil && ok {
							r.Crc = "ok"
						}
					}
				}
			}
			recs[i] = r
		}
		if ex {
			if ents, err := os.ReadDir(d); err == nil {
				for _, e := range ents {
					if !known[e.Name()] {
						o.Extra = append(o.Extra, name+"/"+e.Name())
					}
				}
			}
		}
		o.FS[dn] = map[string]any{"ex": ex, "s": recs}
	}
	sort.Strings(o.Extra)
	pl := map[string]any{"st": "none", "tmp": upExists(filepath.Join(raftDir, upPlanFile+".tmp")), "id": 0}
	if b, err := os.ReadFile(filepath.Join(raftDir, upPlanFile)); err == nil {
		pl["st"] = "written"
		var p struct {
			Ops []struct {
				Type string `json:"type"`
				Src  string `json:"src"`
			} `json:"ops"`
		}
		if json.Unmarshal(b, &p) == nil {
			for _, op := range p.Ops {
				if op.Type == "copy_file" {
					id := strings.TrimSuffix(filepath.Base(op.Src), ".db")
					for _, s := range snaps {
						if s.ID == id {
							pl["id"] = s.K
						}
					}
				}
			}
		}
	}
	o.Plan = pl
	return o
}

// upApplyPartial removes from the old directory what a RemoveAll interrupted by the crash had
// already removed: the directory ends up exactly as ps says.
func upApplyPartial(raftDir string, snaps []upSnap, pdir string, ps []upRec) error {
	d := filepath.Join(raftDir, upDirs[pdir])
	for i := range snaps {
		s := &snaps[i]
		if s.ID == "" {
			continue
		}
		want := ps[i]
		sd := filepath.Join(d, s.ID)
		dataPath := filepath.Join(sd, "state.bin")
		if pdir == "d8" {
			dataPath = filepath.Join(d, s.ID+".db")
		}
		if want.Data == "none" {
			if err := os.Remove(dataPath); err != nil && !os.IsNotExist(err) {
				return err
			}
		}
		if !want.Meta {
			if err := os.Remove(filepath.Join(sd, "meta.json")); err != nil && !os.IsNotExist(err) {
				return err
			}
		}
		if !want.Dir {
			if err := os.RemoveAll(sd); err != nil {
				return err
			}
		}
	}
	if pdir == "d8" { // as the repaired resume does before removing the old directory
		os.RemoveAll(filepath.Join(raftDir, upDirs["t10"]))
	}
	return nil
}

// ---------------------------------------------------------------- worker (child process)

type upOpenResult struct {
	OK     bool   `json:"ok"`
	NSnaps int    `json:"nsnaps"`
	ID     string `json:"id"`
	Index  uint64 `json:"index"`
	Term   uint64 `json:"term"`
	LIdx   uint64 `json:"latest_index"`
	LTerm  uint64 `json:"latest_term"`
	Digest string `json:"digest"`
	Err    string `json:"err"`
}

func upOpen(raftDir string) (res upOpenResult) {
	fail := func(f string, a ...any) upOpenResult {
		res.Err = fmt.Sprintf(f, a...)
		return res
	}
	st, err := snapshot.NewStore(filepath.Join(raftDir, upDirs["d10"]))
	if err != nil {
		return fail("NewStore: %v", err)
	}
	defer st.Close()
	st.VerifNoFatal()
	metas, err := st.ListAll()
	if err != nil {
		return fail("ListAll: %v", err)
	}
	res.NSnaps = len(metas)
	if len(metas) == 0 {
		return fail("no snapshot in the upgraded store")
	}
	list, err := st.List()
	if err != nil || len(list) != 1 {
		return fail("List: %v (%d entries)", err, len(list))
	}
	res.ID, res.Index, res.Term = list[0].ID, list[0].Index, list[0].Term
	if res.LIdx, res.LTerm, err = st.LatestIndexTerm(); err != nil {
		return fail("LatestIndexTerm: %v", err)
	}
	_, rc, err := st.Open(list[0].ID)
	if err != nil {
		return fail("Open: %v", err)
	}
	dst := filepath.Join(raftDir, "restored.db")
	defer os.Remove(dst)
	_, err = snapshot.Restore(rc, dst)
	rc.Close()
	if err != nil {
		return fail("Restore: %v", err)
	}
	res.Digest = upDigestFile(dst)
	res.OK = true
	return res
}

// upSequence is exactly store.Open's sequence and directory names.
func upSequence(raftDir string) error {
	logger := log.New(io.Discard, "", 0)
	old7 := filepath.Join(raftDir, "snapshots")
	old8 := filepath.Join(raftDir, "rsnapshots")
	new10 := filepath.Join(raftDir, "wsnapshots")
	if err := snapshot.Upgrade7To8(old7, old8, logger); err != nil {
		return fmt.Errorf("failed to upgrade v7 snapshots: %s", err)
	}
	vhook.Crash("up.between")
	if err := snapshot.Upgrade8To10(old8, new10, logger); err != nil {
		return fmt.Errorf("failed to upgrade v8 snapshots: %s", err)
	}
	vhook.Crash("up.done")
	return nil
}

func upgradeWorker(args []string) error {
	fs := flag.NewFlagSet("upgrade-worker", flag.ExitOnError)
	raftDir := fs.String("raft", "", "raft directory")
	fs.Parse(args)
	log.SetOutput(io.Discard)
	if err := upSequence(*raftDir); err != nil {
		return err
	}
	fmt.Println(`{"upgraded":true}`)
	os.Exit(0)
	return nil
}

// in-process runs: the hook events of all concurrently running cases arrive at one sink and
// are routed by the raft directory their paths lie in.
var upRoutes sync.Map // raft dir -> *upBuf

type upBuf struct {
	mu  sync.Mutex
	evs []map[string]any
}

func upSink(e vhook.Event) {
	if !strings.HasPrefix(e.Ev, "up78.") && !strings.HasPrefix(e.Ev, "up810.") && !strings.HasPrefix(e.Ev, "plan.") {
		return
	}
	cands := []string{e.Inst}
	for _, k := range []string{"dst", "src"} {
		if v, ok := e.KV[k].(string); ok {
			cands = append(cands, v)
		}
	}
	for _, p := range cands {
		i := strings.Index(p, "/raft/")
		if i < 0 {
			continue
		}
		if b, ok := upRoutes.Load(p[:i+5]); ok {
			m := map[string]any{"ev": e.Ev}
			for k, v := range e.KV {
				m[k] = v
			}
			buf := b.(*upBuf)
			buf.mu.Lock()
			buf.evs = append(buf.evs, m)
			buf.mu.Unlock()
			return
		}
	}
}

// ---------------------------------------------------------------- driver

type upStats struct {
	Cases       int         `json:"cases"`
	Runs        int         `json:"runs"`
	Crashes     int         `json:"crashes"`
	Partials    int         `json:"partials"`
	Opens       int         `json:"opens"`
	Children    int         `json:"child_processes"`
	Skipped     int         `json:"skipped_for_time"`
	Unhit       int         `json:"unhit"`
	UnhitEx     []string    `json:"unhit_examples,omitempty"`
	Events      int         `json:"events"`
	Failures    []upFailure `json:"failures"`
	Extra       []string    `json:"extra_entries,omitempty"`
	DoubleCrash int         `json:"double_crash_cases"`
	Fixture     int         `json:"fixture_cases"`
}

func upOneCase(self, scratch, fixtures string, c *upCase) (lines []map[string]any, st upStats, err error) {
	cdir, err := os.MkdirTemp(scratch, fmt.Sprintf("c%d-", c.ID))
	if err != nil {
		return nil, st, err
	}
	defer os.RemoveAll(cdir)
	raftDir := filepath.Join(cdir, "raft")
	if err := os.MkdirAll(raftDir, 0755); err != nil {
		return nil, st, err
	}
	snaps, err := upBuild(scratch, fixtures, raftDir, c)
	if err != nil {
		return nil, st, fmt.Errorf("case %d: building the store: %w", c.ID, err)
	}
	n := 0
	for _, s := range snaps {
		if s.Shape == "full" {
			n = s.K
		}
	}
	newest := snaps[n-1]
	add := func(m map[string]any) {
		m["case"] = c.ID
		m["label"] = c.Label
		lines = append(lines, m)
	}
	curRun := 0
	fail := func(class, detail string) {
		label := c.Label
		if len(c.RunLabels) == len(c.Runs) {
			before := append([]string{}, c.RunLabels[:curRun]...)
			for len(before) > 0 && before[len(before)-1] == "ok" {
				before = before[:len(before)-1]
			}
			label = "from=" + c.Kind + ":crash=none"
			if len(before) > 0 {
				label = "from=" + c.Kind + ":crash=" + strings.Join(before, "+")
			}
		}
		st.Failures = append(st.Failures, upFailure{Case: c.ID, Class: class, Label: label, Detail: detail, Kind: c.Kind, Runs: c.Runs[:curRun+1], Variant: c.Variant})
	}
	add(map[string]any{"ev": "reset", "kind": c.Kind, "shape": c.Shape, "variant": c.Variant})
	st.Cases = 1
	ncr := 0
	for _, r := range c.Runs {
		if r.Crash != "" {
			ncr++
		}
	}
	if ncr >= 2 {
		st.DoubleCrash = 1
	}
	if strings.HasPrefix(c.Variant, "fixture:") {
		st.Fixture = 1
	}
	tracePath := filepath.Join(cdir, "child.ndjson")
	buf := &upBuf{}
	upRoutes.Store(raftDir, buf)
	defer upRoutes.Delete(raftDir)
	for ri, r := range c.Runs {
		curRun = ri
		var evs []map[string]any
		var stderr bytes.Buffer
		code, upgraded := 0, false
		if r.Crash == "" {
			// clean run, in this process
			buf.mu.Lock()
			buf.evs = nil
			buf.mu.Unlock()
			if rerr := upSequence(raftDir); rerr != nil {
				code = 3
				stderr.WriteString(rerr.Error())
			} else {
				upgraded = true
			}
			buf.mu.Lock()
			evs = buf.evs
			buf.mu.Unlock()
		} else {
			os.Remove(tracePath)
			cmd := exec.Command(self, "upgrade-worker", "-raft", raftDir)
			cmd.Env = append(os.Environ(), "VERIF_TRACE="+tracePath, "VERIF_CRASH="+r.Crash)
			var stdout bytes.Buffer
			cmd.Stdout, cmd.Stderr = &stdout, &stderr
			rerr := cmd.Run()
			if ee, ok := rerr.(*exec.ExitError); ok {
				code = ee.ExitCode()
			} else if rerr != nil {
				return nil, st, rerr
			}
			st.Children++
			upgraded = strings.Contains(stdout.String(), `"upgraded":true`)
			evs, _ = readND(tracePath)
		}
		st.Runs++
		add(map[string]any{"ev": "run", "run": ri})
		lastev := ""
		nop := 0
		for _, ev := range evs {
			name, _ := ev["ev"].(string)
			if !strings.HasPrefix(name, "up78.") && !strings.HasPrefix(name, "up810.") && !strings.HasPrefix(name, "plan.") {
				continue // hooks of other components
			}
			m := map[string]any{"ev": name}
			switch name {
			case "up78.meta", "up810.plan":
				id, _ := ev["id"].(string)
				m["id"] = 0
				for _, s := range snaps {
					if s.ID == id && id != "" {
						m["id"] = s.K
					}
				}
			case "plan.op":
				nop++
				m["k"] = nop
				m["type"], _ = ev["type"].(string)
				es, _ := ev["err"].(string)
				m["err"] = es
			}
			lastev = name
			add(m)
		}
		errTail := strings.TrimSpace(stderr.String())
		if len(errTail) > 600 {
			errTail = errTail[len(errTail)-600:]
		}
		stop := false
		switch {
		case code == 86:
			st.Crashes++
			ex := map[string]any{"ev": "exit", "code": 86, "partial": r.Partial, "pdir": r.PDir, "ps": r.PS, "point": r.Crash}
			if r.PS == nil {
				ex["ps"] = []upRec{}
			}
			add(ex)
			if r.Partial {
				st.Partials++
				if err := upApplyPartial(raftDir, snaps, r.PDir, r.PS); err != nil {
					return nil, st, err
				}
			}
		case upgraded: // both upgraders returned nil
			if r.Crash != "" {
				st.Unhit++
				st.UnhitEx = append(st.UnhitEx, fmt.Sprintf("case %d run %d %s (%s)", c.ID, ri, r.Crash, c.Label))
			}
			add(map[string]any{"ev": "exit", "code": 0, "partial": false, "pdir": "", "ps": []upRec{}, "point": r.Crash})
		default: // an upgrader returned an error (exit 3) or the process died otherwise
			add(map[string]any{"ev": "exit", "code": 3, "partial": false, "pdir": "", "ps": []upRec{}, "rc": code, "err": errTail, "point": r.Crash})
			cls := "run-fails"
			if ri > 0 {
				cls = "resume-fails"
			}
			fail(cls, fmt.Sprintf("run %d exited with %d: %s", ri, code, errTail))
			stop = true
		}
		// the disk after this run
		obs := upObserve(raftDir, snaps, lastev)
		st.Extra = append(st.Extra, obs.Extra...)
		add(map[string]any{"ev": "fs", "fs": obs.FS, "plan": obs.Plan})
		if upgraded && r.Crash == "" {
			st.Opens++
			o := upOpen(raftDir)
			nk := 0
			for _, s := range snaps {
				if s.ID == o.ID && o.ID != "" {
					nk = s.K
				}
			}
			metaOK := o.OK && o.Index == newest.Index && o.Term == newest.Term && o.LIdx == newest.Index && o.LTerm == newest.Term
			dbOK := o.OK && o.Digest == newest.Digest
			add(map[string]any{"ev": "open", "ok": o.OK, "nsnaps": o.NSnaps, "newest": nk, "meta_ok": metaOK, "db_ok": dbOK,
				"index": o.Index, "term": o.Term, "err": o.Err})
			switch {
			case !o.OK:
				fail("open-fails", o.Err)
				stop = true
			case o.NSnaps != 1:
				fail("snapshot-count", fmt.Sprintf("%d snapshots in the upgraded store", o.NSnaps))
				stop = true
			case nk != n || !metaOK:
				fail("wrong-snapshot", fmt.Sprintf("upgraded store holds %s (index %d, term %d), newest original is %s (index %d, term %d)",
					o.ID, o.Index, o.Term, newest.ID, newest.Index, newest.Term))
				stop = true
			case !dbOK:
				fail("db-differs", fmt.Sprintf("restored database digest %s, original %s", o.Digest, newest.Digest))
				stop = true
			default:
				// upgrade complete: nothing of the old formats or of the plan may be left
				var left []string
				for _, dn := range []string{"d7", "d8"} {
					if m, _ := obs.FS[dn].(map[string]any); m != nil && m["ex"] == true {
						left = append(left, upDirs[dn])
					}
				}
				if obs.Plan["st"] != "none" {
					left = append(left, upPlanFile)
				}
				if len(left) > 0 {
					fail("incomplete", "after a successful start still present: "+strings.Join(left, ", "))
				}
			}
		}
		if stop {
			break
		}
	}
	st.Events = len(lines)
	return lines, st, nil
}

func upgradeRun(args []string) error {
	fs := flag.NewFlagSet("upgrade-run", flag.ExitOnError)
	in := fs.String("cases", "", "ndjson of cases")
	out := fs.String("out", "upgrade.trace.ndjson", "")
	fixtures := fs.String("fixtures", "", "snapshot/testdata/upgrade of the repository")
	par := fs.Int("par", 4, "cases in parallel")
	must := fs.Int("must", 0, "the first N cases always run; later ones only while the time budget lasts")
	budget := fs.Int("budget", 0, "seconds (0 = no limit)")
	fs.Parse(args)
	log.SetOutput(io.Discard)
	vhook.SetSink(upSink)
	defer vhook.SetSink(nil)
	t0 := time.Now()
	rows, err := readND(*in)
	if err != nil {
		return err
	}
	cases := make([]*upCase, len(rows))
	for i, r := range rows {
		b, _ := json.Marshal(r)
		c := &upCase{}
		if err := json.Unmarshal(b, c); err != nil {
			return err
		}
		if len(c.Shape) != upMaxSnaps {
			return fmt.Errorf("case %d: shape must have %d entries", c.ID, upMaxSnaps)
		}
		cases[i] = c
	}
	self, _ := os.Executable()
	scratch, err := os.MkdirTemp("", "upg")
	if err != nil {
		return err
	}
	defer os.RemoveAll(scratch)
	type result struct {
		lines []map[string]any
		st    upStats
		err   error
	}
	results := make([]result, len(cases))
	idx := make(chan int)
	var wg sync.WaitGroup
	for w := 0; w < *par; w++ {
		wg.Add(1)
		go func() {
			defer wg.Done()
			for i := range idx {
				l, s, e := upOneCase(self, scratch, *fixtures, cases[i])
				results[i] = result{l, s, e}
			}
		}()
	}
	ran := make([]bool, len(cases))
	for i := range cases {
		if *budget > 0 && i >= *must && time.Since(t0) > time.Duration(*budget)*time.Second {
			continue
		}
		ran[i] = true
		idx <- i
	}
	close(idx)
	wg.Wait()
	w, err := newND(*out)
	if err != nil {
		return err
	}
	var tot upStats
	extra := map[string]bool{}
	for i, r := range results {
		if !ran[i] {
			tot.Skipped++
			continue
		}
		if r.err != nil {
			return r.err
		}
		for _, l := range r.lines {
			w.Write(l)
		}
		tot.Cases += r.st.Cases
		tot.Runs += r.st.Runs
		tot.Crashes += r.st.Crashes
		tot.Partials += r.st.Partials
		tot.Opens += r.st.Opens
		tot.Children += r.st.Children
		tot.Unhit += r.st.Unhit
		tot.Events += r.st.Events
		tot.DoubleCrash += r.st.DoubleCrash
		tot.Fixture += r.st.Fixture
		if len(tot.UnhitEx) < 10 {
			tot.UnhitEx = append(tot.UnhitEx, r.st.UnhitEx...)
		}
		tot.Failures = append(tot.Failures, r.st.Failures...)
		for _, e := range r.st.Extra {
			extra[e] = true
		}
	}
	if err := w.Close(); err != nil {
		return err
	}
	for e := range extra {
		// names vary with the snapshot id; keep the shape only
		tot.Extra = append(tot.Extra, e)
	}
	sort.Strings(tot.Extra)
	if len(tot.Extra) > 20 {
		tot.Extra = tot.Extra[:20]
	}
	if tot.Failures == nil {
		tot.Failures = []upFailure{}
	}
	b, _ := json.Marshal(tot)
	fmt.Println(string(b))
	return nil
}
