package main

import (
	"bufio"
	"encoding/json"
	"math/rand"
	"os"
	"strconv"
	"sync"

	"github.com/rqlite/rqlite/v10/internal/vhook"
)

func seedFromEnv() int64 {
	if s := os.Getenv("VERIF_SEED"); s != "" {
		if n, err := strconv.ParseInt(s, 10, 64); err == nil {
			return n
		}
	}
	return 1
}

func thorough() bool { return os.Getenv("VERIF_TIER") == "thorough" }

func newRand(extra int64) *rand.Rand { return rand.New(rand.NewSource(seedFromEnv()*1000003 + extra)) }

// ndjson writer --------------------------------------------------------

type ndWriter struct {
	mu sync.Mutex
	f  *os.File
	w  *bufio.Writer
	n  int
}

func newND(path string) (*ndWriter, error) {
	f, err := os.Create(path)
	if err != nil {
		return nil, err
	}
	return &ndWriter{f: f, w: bufio.NewWriterSize(f, 1<<20)}, nil
}

func (n *ndWriter) Write(v any) {
	b, err := json.Marshal(v)
	if err != nil {
		panic(err)
	}
	n.mu.Lock()
	n.w.Write(b)
	n.w.WriteByte('\n')
	n.n++
	n.mu.Unlock()
}

func (n *ndWriter) Close() error {
	n.mu.Lock()
	defer n.mu.Unlock()
	if err := n.w.Flush(); err != nil {
		return err
	}
	return n.f.Close()
}

// readND reads an ndjson file of objects.
func readND(path string) ([]map[string]any, error) {
	f, err := os.Open(path)
	if err != nil {
		return nil, err
	}
	defer f.Close()
	var out []map[string]any
	sc := bufio.NewScanner(f)
	sc.Buffer(make([]byte, 1<<20), 1<<28)
	for sc.Scan() {
		if len(sc.Bytes()) == 0 {
			continue
		}
		var m map[string]any
		dec := json.NewDecoder(bytesReader(sc.Bytes()))
		dec.UseNumber()
		if err := dec.Decode(&m); err != nil {
			return nil, err
		}
		out = append(out, m)
	}
	return out, sc.Err()
}

// trace sink -----------------------------------------------------------

// traceTo routes every vhook event to the ndjson writer as a flat object
// {"ev":..,"inst":..,k:v..}.  filter may be nil.
func traceTo(w *ndWriter, filter func(e vhook.Event) bool) {
	vhook.SetSink(func(e vhook.Event) {
		if filter != nil && !filter(e) {
			return
		}
		m := make(map[string]any, len(e.KV)+2)
		for k, v := range e.KV {
			if v == nil {
				v = "" // a nil error / nil pointer: TLC's Json module cannot read null
			}
			m[k] = v
		}
		m["ev"] = e.Ev
		m["inst"] = e.Inst
		w.Write(m)
	})
}

func traceOff() { vhook.SetSink(nil) }

// emit writes a harness-side event into the same ordered trace.
func emit(inst, ev string, kv ...any) { vhook.Trace(inst, ev, kv...) }

func writeJSON(path string, v any) error {
	b, err := json.MarshalIndent(v, "", " ")
	if err != nil {
		return err
	}
	return os.WriteFile(path, b, 0644)
}
