package main

// Cutting one inter-node connection at a chosen byte position (used by C21 for the backup stream).
// A vcut is armed on the vnet (vnet.cut); the first connection dialled by `from` to `to` for the
// service `hdr` that is used after arming is claimed by the cut.  On that connection exactly
// `after` bytes pass in the counted direction (rx = bytes read by the dialling side, i.e. sent by
// the dialled node; tx = bytes written by the dialling side); then the connection ends
//   fin: the reader sees a clean end of stream (io.EOF), as after the peer's FIN,
//   rst: the reader sees "connection reset by peer",
// and the real socket is closed (with linger 0 for rst, so the peer really gets a RST).
// after < 0 never cuts: the cut only counts the bytes of the claimed connection.

import (
	"errors"
	"io"
	"net"
	"os"
	"sync"
	"syscall"
)

type vcut struct {
	from, to string
	hdr      byte
	tx       bool  // count/cut the bytes written by the dialling side (default: the bytes it reads)
	after    int64 // bytes let through before the cut; <0 = observe only
	rst      bool

	mu     sync.Mutex
	owner  *vconn
	rxSeen int64
	txSeen int64
	fired  bool
}

var errReset = &net.OpError{Op: "read", Net: "tcp", Err: os.NewSyscallError("read", syscall.ECONNRESET)}

// claims reports whether operations of c are governed by this cut (claiming c if the cut is still free).
func (ct *vcut) claims(c *vconn, _ bool) bool {
	if c.from != ct.from || c.to != ct.to || c.hdr != ct.hdr {
		return false
	}
	ct.mu.Lock()
	defer ct.mu.Unlock()
	if ct.owner == nil {
		ct.owner = c
	}
	return ct.owner == c
}

func (ct *vcut) fire(c *vconn) {
	ct.fired = true
	if ct.rst {
		if l, ok := c.Conn.(interface{ SetLinger(int) error }); ok {
			l.SetLinger(0)
		}
	}
	c.Conn.Close()
}

func (ct *vcut) endErr() error {
	if ct.rst {
		return errReset
	}
	return io.EOF
}

func (ct *vcut) read(c *vconn, b []byte) (int, error) {
	ct.mu.Lock()
	if ct.fired {
		ct.mu.Unlock()
		return 0, ct.endErr()
	}
	if ct.tx || ct.after < 0 {
		ct.mu.Unlock()
		n, err := c.Conn.Read(b)
		ct.mu.Lock()
		ct.rxSeen += int64(n)
		ct.mu.Unlock()
		return n, err
	}
	rem := ct.after - ct.rxSeen
	if rem <= 0 {
		ct.fire(c)
		ct.mu.Unlock()
		return 0, ct.endErr()
	}
	ct.mu.Unlock()
	if int64(len(b)) > rem {
		b = b[:rem]
	}
	n, err := c.Conn.Read(b)
	ct.mu.Lock()
	ct.rxSeen += int64(n)
	ct.mu.Unlock()
	return n, err
}

func (ct *vcut) write(c *vconn, b []byte) (int, error) {
	ct.mu.Lock()
	if ct.fired {
		ct.mu.Unlock()
		return 0, errors.New("vnet: write on a cut connection")
	}
	if !ct.tx || ct.after < 0 {
		ct.mu.Unlock()
		n, err := c.Conn.Write(b)
		ct.mu.Lock()
		ct.txSeen += int64(n)
		ct.mu.Unlock()
		return n, err
	}
	rem := ct.after - ct.txSeen
	if rem <= 0 {
		ct.fire(c)
		ct.mu.Unlock()
		return 0, errors.New("vnet: write on a cut connection")
	}
	ct.mu.Unlock()
	if int64(len(b)) > rem {
		n, _ := c.Conn.Write(b[:rem])
		ct.mu.Lock()
		ct.txSeen += int64(n)
		ct.fire(c)
		ct.mu.Unlock()
		return n, errors.New("vnet: write on a cut connection")
	}
	n, err := c.Conn.Write(b)
	ct.mu.Lock()
	ct.txSeen += int64(n)
	ct.mu.Unlock()
	return n, err
}

// counts returns the bytes seen on the claimed connection (read, written) and whether the cut fired.
func (ct *vcut) counts() (rx, tx int64, fired bool) {
	ct.mu.Lock()
	defer ct.mu.Unlock()
	return ct.rxSeen, ct.txSeen, ct.fired
}
