package main

import (
	"context"
	"flag"
	"fmt"
	"math/rand"
	"strconv"
	"strings"
	"sync"
	"time"

	"github.com/rqlite/rqlite/v10/store/throttler"
)

func init() { register("throttler-trace", throttlerTrace) }

// throttlerTrace drives real Throttlers (one per run, runs in parallel) with random
// Signal/Release/Reset/Level/Delay calls and explicit idle waits, recording after each call the
// observed level and delay, and an upper bound of the time since the idle timer was re-armed.
func throttlerTrace(args []string) error {
	fs := flag.NewFlagSet("throttler-trace", flag.ExitOnError)
	out := fs.String("out", "trace.ndjson", "")
	runs := fs.Int("runs", 16, "")
	ops := fs.Int("ops", 30, "")
	delaysArg := fs.String("delays", "0,10,20,40", "ms")
	rr := fs.Int("rr", 2, "")
	idleMs := fs.Int("idle", 200, "")
	fs.Parse(args)
	var delays []time.Duration
	for _, s := range strings.Split(*delaysArg, ",") {
		n, _ := strconv.Atoi(s)
		delays = append(delays, time.Duration(n)*time.Millisecond)
	}
	idle := time.Duration(*idleMs) * time.Millisecond
	results := make([][]map[string]any, *runs)
	var wg sync.WaitGroup
	sem := make(chan struct{}, 8)
	for r := 0; r < *runs; r++ {
		wg.Add(1)
		sem <- struct{}{}
		go func(r int) {
			defer wg.Done()
			defer func() { <-sem }()
			rng := newRand(int64(r))
			results[r] = throttlerRun(rng, *ops, delays, *rr, idle)
		}(r)
	}
	wg.Wait()
	w, err := newND(*out)
	if err != nil {
		return err
	}
	for r := range results {
		var dms []int
		for _, d := range delays {
			dms = append(dms, int(d/time.Millisecond))
		}
		w.Write(map[string]any{"ev": "reset", "run": r, "delays": dms})
		for _, m := range results[r] {
			w.Write(m)
		}
	}
	n := w.n
	if err := w.Close(); err != nil {
		return err
	}
	fmt.Printf("{\"runs\":%d,\"events\":%d}\n", *runs, n)
	return nil
}

func throttlerRun(rng *rand.Rand, nops int, delays []time.Duration, rr int, idle time.Duration) (out []map[string]any) {
	t := throttler.New(delays, rr, idle)
	defer func() {
		if p := recover(); p != nil { // the real code panicked: no spec action explains this line
			out = append(out, map[string]any{"ev": "panic", "msg": fmt.Sprint(p)})
		}
	}()
	lastTouch := time.Now()
	ms := func(d time.Duration) int { return int((d + time.Millisecond - 1) / time.Millisecond) }
	obs := func(ev string) {
		lvl := t.Level()
		d := t.GetDelay()
		if t.Level() != lvl { // the idle timer fired between the two reads: read again
			lvl = t.Level()
			d = t.GetDelay()
		}
		out = append(out, map[string]any{"ev": ev, "level": lvl, "delay": ms(d), "ub": ms(time.Since(lastTouch))})
	}
	idles := 0
	for i := 0; i < nops; i++ {
		switch k := rng.Intn(20); {
		case k < 8:
			before := time.Now()
			t.Signal()
			obs("signal")
			lastTouch = before
		case k < 12:
			before := time.Now()
			t.Release()
			obs("release")
			lastTouch = before
		case k < 13:
			t.Reset()
			obs("resetop")
		case k < 15:
			obs("level")
		case k < 19:
			var ctx context.Context = context.Background()
			ctxMs := 0
			cancel := func() {}
			if rng.Intn(2) == 0 {
				ctxMs = 1 + rng.Intn(50)
				ctx, cancel = context.WithTimeout(ctx, time.Duration(ctxMs)*time.Millisecond)
			}
			lvl := t.Level()
			start := time.Now()
			err := t.Delay(ctx)
			took := time.Since(start)
			cancel()
			lvl2 := t.Level()
			if lvl != lvl2 {
				continue // idle timer raced with the call; skip this sample rather than guess
			}
			out = append(out, map[string]any{"ev": "delay", "level": lvl, "took": int(took / time.Millisecond), "ctx": ctxMs,
				"err": err != nil, "slack": 1500, "ub": ms(time.Since(lastTouch))})
		default:
			if idles < 2 {
				idles++
				time.Sleep(5 * idle)
				obs("idle")
			}
		}
	}
	return out
}
