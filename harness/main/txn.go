package main

import (
	"bytes"
	"encoding/json"
	"flag"
	"fmt"
	"os"
	"path/filepath"
	"sort"
	"strings"

	"github.com/rqlite/rqlite/v10/command/proto"
	"github.com/rqlite/rqlite/v10/db"
)

func init() { register("txn-replay", txnReplay) }

type txnCase struct {
	Req struct {
		Tx    bool     `json:"tx"`
		Roe   bool     `json:"roe"`
		Path  string   `json:"path"`
		Stmts []string `json:"stmts"`
	} `json:"req"`
	DB   []int    `json:"db"`
	Res  []string `json:"res"`
	Intx bool     `json:"intx"`
}

func txnSQL(class string, i int) string {
	switch class {
	case "w":
		return fmt.Sprintf("INSERT INTO t(id,v) VALUES(%d,'w')", 100+i)
	case "ret":
		return fmt.Sprintf("INSERT INTO t(id,v) VALUES(%d,'r') RETURNING id", 100+i)
	case "q":
		return "SELECT COUNT(*) FROM t"
	case "failrt":
		return "INSERT INTO t(id,v) VALUES(1,'dup')"
	case "failprep":
		return "INSERT INTO nosuchtable(id) VALUES(1)"
	case "midfail":
		return fmt.Sprintf("INSERT INTO t(id,v) VALUES(%d,'m'),(1,'dup')", 500+i)
	case "multi":
		return fmt.Sprintf("INSERT INTO t(id,v) VALUES(%d,'w'); INSERT INTO t(id,v) VALUES(1,'dup')", 100+i)
	case "begin":
		return "BEGIN"
	case "commit":
		return "COMMIT"
	}
	return ""
}

// txnReplay runs every TLC-generated request on a real database through db.Execute or
// db.Request and compares the result list and the resulting rows with the spec's.
func txnReplay(args []string) error {
	fs := flag.NewFlagSet("txn-replay", flag.ExitOnError)
	in := fs.String("in", "cases.ndjson", "")
	out := fs.String("out", "mismatch.ndjson", "")
	fs.Parse(args)
	raw, err := os.ReadFile(*in)
	if err != nil {
		return err
	}
	w, err := newND(*out)
	if err != nil {
		return err
	}
	defer w.Close()
	dir, err := os.MkdirTemp("", "txn")
	if err != nil {
		return err
	}
	defer os.RemoveAll(dir)
	d, err := db.Open(filepath.Join(dir, "t.db"), false, true)
	if err != nil {
		return err
	}
	defer d.Close()
	if _, err := d.ExecuteStringStmt("CREATE TABLE t(id INTEGER PRIMARY KEY, v TEXT)"); err != nil {
		return err
	}
	n, nbad, nfail := 0, 0, 0
	var samples []any
	for _, line := range bytes.Split(raw, []byte("\n")) {
		if len(line) == 0 {
			continue
		}
		var c txnCase
		if err := json.Unmarshal(line, &c); err != nil {
			return err
		}
		n++
		d.VerifRWExec("ROLLBACK") // harmless if nothing is open
		if err := d.VerifRWExec("DELETE FROM t"); err != nil {
			return err
		}
		if err := d.VerifRWExec("INSERT INTO t(id,v) VALUES(1,'base')"); err != nil {
			return err
		}
		req := &proto.Request{Transaction: c.Req.Tx, RollbackOnError: c.Req.Roe}
		var texts []string
		for i, cl := range c.Req.Stmts {
			s := txnSQL(cl, i+1)
			texts = append(texts, s)
			req.Statements = append(req.Statements, &proto.Statement{Sql: s})
		}
		var resp []*proto.ExecuteQueryResponse
		var rerr error
		if c.Req.Path == "exec" {
			resp, rerr = d.Execute(req, false)
		} else {
			resp, rerr = d.Request(req, false)
		}
		var got []string
		for _, r := range resp {
			if r.GetError() != "" {
				got = append(got, "err")
			} else if q := r.GetQ(); q != nil && q.Error != "" {
				got = append(got, "err")
			} else {
				got = append(got, "ok")
			}
		}
		// open transaction left behind?
		leftOpen := d.VerifRWExec("BEGIN") != nil
		d.VerifRWExec("ROLLBACK")
		rows, qerr := d.QueryStringStmt("SELECT id FROM t WHERE id > 1 ORDER BY id")
		if qerr != nil {
			return qerr
		}
		var marks []int
		stray := false
		for _, v := range rows[0].Values {
			id := int(v.Parameters[0].GetI())
			if id > 100 && id < 200 {
				marks = append(marks, id-100)
			} else {
				stray = true
			}
		}
		sort.Ints(c.DB)
		aspect := ""
		switch {
		case rerr != nil:
			aspect = "request-error"
		case fmt.Sprint(marks) != fmt.Sprint(c.DB) || stray:
			aspect = "effects"
		case strings.Join(got, ",") != strings.Join(c.Res, ","):
			aspect = "results"
		case leftOpen:
			aspect = "tx-left-open"
		}
		hasFail := false
		fails := map[string]bool{}
		for _, cl := range c.Req.Stmts {
			switch cl {
			case "failrt", "failprep", "midfail", "multi":
				hasFail = true
				fails[cl] = true
			}
		}
		if hasFail {
			nfail++
		}
		if aspect != "" {
			nbad++
			var fl []string
			for k := range fails {
				fl = append(fl, k)
			}
			sort.Strings(fl)
			w.Write(map[string]any{
				"key":  fmt.Sprintf("txn:%s:tx=%v:roe=%v:%s:fails=%s", c.Req.Path, c.Req.Tx, c.Req.Roe, aspect, strings.Join(fl, "+")),
				"req":  c.Req, "sql": texts, "want_db": c.DB, "got_db": marks, "stray_rows": stray,
				"want_res": c.Res, "got_res": got, "err": fmt.Sprint(rerr), "left_open": leftOpen})
		}
		if len(samples) < 4 && hasFail && c.Req.Tx {
			samples = append(samples, map[string]any{"req": c.Req, "sql": texts, "db": c.DB, "res": c.Res})
		}
	}
	sj, _ := json.Marshal(samples)
	fmt.Printf("{\"cases\":%d,\"with_failing_statement\":%d,\"mismatches\":%d,\"samples\":%s}\n", n, nfail, nbad, sj)
	return nil
}
