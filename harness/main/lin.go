package main

// cluster-trace: randomized, fault-injecting runs of real in-process rqlite clusters; the
// client history (versioned register store, see TraceCluster.tla) and the node events of the
// read protocol go into one ordered ndjson trace.

import (
	"encoding/json"
	"flag"
	"fmt"
	"math/rand"
	"os"
	"path/filepath"
	"strings"
	"sync"
	"sync/atomic"
	"time"

	"github.com/rqlite/rqlite/v10/internal/vhook"
)

func init() { register("cluster-trace", clusterTrace) }

const linKeys = 3

var linPrefixes = []string{"c.", "lr.", "fsm.", "srt.", "vl.", "reset", "note"}

func linFilter(e vhook.Event) bool {
	for _, p := range linPrefixes {
		if strings.HasPrefix(e.Ev, p) {
			return true
		}
	}
	return false
}

type linStats struct {
	Runs, Ops, WritesOK, ReadsOK, Fails, Faults, Upgrades, Snapshots, NonVoters int
	FinalMismatch                                          []string
	Nodes                                                  []int
}

func linSetup(c *vCluster) error {
	// under load the first leader may lose its lease while the schema is being committed: try again
	var err error
	for i := 0; i < 6; i++ {
		if err = linSetup1(c); err == nil {
			return nil
		}
		time.Sleep(300 * time.Millisecond)
	}
	return err
}

func linSetup1(c *vCluster) error {
	l := c.Leader(10 * time.Second)
	if l == nil {
		return fmt.Errorf("no leader")
	}
	if rows, err := sQuery(l.Store, 3 /* strong */, "SELECT count(*) FROM reg"); err == nil && rows[0].Error == "" {
		return c.WaitConverged(10 * time.Second) // an earlier attempt was committed after all
	}
	sq := []string{"CREATE TABLE seq(id INTEGER PRIMARY KEY, n INTEGER)", "INSERT INTO seq VALUES(1,0)",
		"CREATE TABLE reg(k INTEGER PRIMARY KEY, v INTEGER, ver INTEGER)"}
	for k := 1; k <= linKeys; k++ {
		sq = append(sq, fmt.Sprintf("INSERT INTO reg VALUES(%d,0,0)", k))
	}
	rs, _, err := sExec(l.Store, true, sq...)
	if err != nil {
		return err
	}
	for _, r := range rs {
		if r.GetError() != "" {
			return fmt.Errorf("setup: %s", r.GetError())
		}
	}
	return c.WaitConverged(10 * time.Second)
}

type linResult struct {
	Results []struct {
		Error  string            `json:"error"`
		Values [][]json.Number   `json:"values"`
		Rows   []map[string]any `json:"rows"`
	} `json:"results"`
}

// linWrite performs one write over HTTP at node n; returns the version it created.
func linWrite(n *vNode, key int, val int64) (int64, error) {
	body := []string{
		"UPDATE seq SET n=n+1 WHERE id=1",
		fmt.Sprintf("UPDATE reg SET v=%d, ver=(SELECT n FROM seq WHERE id=1) WHERE k=%d", val, key),
		"SELECT n FROM seq WHERE id=1",
	}
	resp, err := n.httpSQL("request", "transaction&timeout=4s", body)
	if err != nil {
		return 0, err
	}
	if resp.Status != 200 {
		return 0, fmt.Errorf("status %d: %s", resp.Status, strings.TrimSpace(string(resp.Body)))
	}
	var lr linResult
	if err := json.Unmarshal(resp.Body, &lr); err != nil {
		return 0, err
	}
	if len(lr.Results) != 3 {
		return 0, fmt.Errorf("results: %s", resp.Body)
	}
	for _, r := range lr.Results {
		if r.Error != "" {
			return 0, fmt.Errorf("sql error: %s", r.Error)
		}
	}
	if len(lr.Results[2].Values) != 1 || len(lr.Results[2].Values[0]) != 1 {
		return 0, fmt.Errorf("no version: %s", resp.Body)
	}
	return lr.Results[2].Values[0][0].Int64()
}

// linRead reads n and all registers in one statement at the given level.
func linRead(n *vNode, level string) (int64, [][2]int64, error) {
	q := "level=" + level + "&timeout=4s"
	if level == "linearizable" {
		q += "&linearizable_timeout=3s"
	}
	resp, err := n.httpSQL("query", q, []string{"SELECT (SELECT n FROM seq WHERE id=1), k, v, ver FROM reg ORDER BY k"})
	if err != nil {
		return 0, nil, err
	}
	if resp.Status != 200 {
		return 0, nil, fmt.Errorf("status %d: %s", resp.Status, strings.TrimSpace(string(resp.Body)))
	}
	var lr linResult
	if err := json.Unmarshal(resp.Body, &lr); err != nil {
		return 0, nil, err
	}
	if len(lr.Results) != 1 || lr.Results[0].Error != "" || len(lr.Results[0].Values) != linKeys {
		return 0, nil, fmt.Errorf("bad read: %s", resp.Body)
	}
	var ver int64
	regs := make([][2]int64, linKeys)
	for i, row := range lr.Results[0].Values {
		if len(row) != 4 {
			return 0, nil, fmt.Errorf("bad row: %s", resp.Body)
		}
		ver, _ = row[0].Int64()
		k, _ := row[1].Int64()
		if int(k) != i+1 {
			return 0, nil, fmt.Errorf("bad key order: %s", resp.Body)
		}
		regs[i][0], _ = row[2].Int64()
		regs[i][1], _ = row[3].Int64()
	}
	return ver, regs, nil
}

var linLevels = map[string]string{"lin": "linearizable", "strong": "strong", "weak": "weak", "none": "none"}

func clusterTrace(args []string) error {
	fs := flag.NewFlagSet("cluster-trace", flag.ExitOnError)
	out := fs.String("out", "cluster.ndjson", "trace file")
	runs := fs.Int("runs", 2, "number of cluster runs")
	clients := fs.Int("clients", 5, "client goroutines")
	ops := fs.Int("ops", 40, "operations per client")
	faults := fs.Int("faults", 5, "fault actions per run")
	base := fs.String("dir", "", "scratch dir")
	fs.Parse(args)
	if *base == "" {
		*base, _ = os.MkdirTemp("", "vcl")
		defer os.RemoveAll(*base)
	}
	w, err := newND(*out)
	if err != nil {
		return err
	}
	traceTo(w, linFilter)
	defer traceOff()
	st := linStats{}
	var opID, valN atomic.Int64
	for run := 0; run < *runs; run++ {
		rng := newRand(int64(run) * 7919)
		nn := 3
		if run%3 == 2 {
			nn = 5
		}
		nv := 0
		if run%4 == 1 {
			nv = 1 // a read replica: takes reads at every level and forwards writes, never votes
		}
		emit("", "reset", "run", run, "nodes", nn, "nonvoters", nv)
		c, err := newCluster(vClusterOpts{N: nn, NonVoters: nv, Base: filepath.Join(*base, fmt.Sprintf("run%d", run))})
		if err != nil {
			return fmt.Errorf("cluster: %w", err)
		}
		if err := linSetup(c); err != nil {
			c.Close()
			return err
		}
		st.Nodes = append(st.Nodes, nn+nv)
		st.NonVoters += nv
		var nodesMu sync.RWMutex // protects c.nodes[i] replacement on restart
		pick := func(r *rand.Rand) *vNode {
			nodesMu.RLock()
			defer nodesMu.RUnlock()
			return c.nodes[r.Intn(len(c.nodes))]
		}
		var wg sync.WaitGroup
		var mu sync.Mutex
		clientsStop := make(chan struct{}) // closed when the fault injector is done: clients run as long as faults do
		seeds := make([]int64, *clients)
		for ci := range seeds {
			seeds[ci] = rng.Int63()
		}
		for ci := 0; ci < *clients; ci++ {
			wg.Add(1)
			go func(ci int) {
				defer wg.Done()
				r := rand.New(rand.NewSource(seeds[ci]))
				for i := 0; i < *ops; i++ {
					select {
					case <-clientsStop:
						return
					default:
					}
					op := opID.Add(1)
					n := pick(r)
					if n.stopped {
						continue
					}
					if r.Intn(100) < 45 {
						key, val := 1+r.Intn(linKeys), valN.Add(1)
						emit("", "c.inv", "op", op, "kind", "w", "key", key, "val", val, "lvl", "w", "at", n.ID)
						ver, err := linWrite(n, key, val)
						mu.Lock()
						st.Ops++
						if err == nil {
							st.WritesOK++
						} else {
							st.Fails++
						}
						mu.Unlock()
						if err == nil {
							emit("", "c.ok", "op", op, "n", ver)
						} else {
							emit("", "c.fail", "op", op, "err", err.Error())
						}
					} else {
						lvl := []string{"lin", "lin", "lin", "strong", "weak", "none"}[r.Intn(6)]
						emit("", "c.inv", "op", op, "kind", "r", "key", 0, "val", 0, "lvl", lvl, "at", n.ID)
						ver, regs, err := linRead(n, linLevels[lvl])
						mu.Lock()
						st.Ops++
						if err == nil {
							st.ReadsOK++
						} else {
							st.Fails++
						}
						mu.Unlock()
						if err == nil {
							emit("", "c.ok", "op", op, "n", ver, "regs", regs)
						} else {
							emit("", "c.fail", "op", op, "err", err.Error())
						}
					}
					time.Sleep(time.Duration(4+r.Intn(12)) * time.Millisecond)
				}
			}(ci)
		}
		// fault injector
		stopF := make(chan struct{})
		var fwg sync.WaitGroup
		fwg.Add(1)
		frng := rand.New(rand.NewSource(rng.Int63()))
		go func() {
			defer fwg.Done()
			defer func() {
				time.Sleep(400 * time.Millisecond)
				close(clientsStop)
			}()
			ids := c.IDs()
			for f := 0; f < *faults; f++ {
				select {
				case <-stopF:
					return
				case <-time.After(time.Duration(150+frng.Intn(350)) * time.Millisecond):
				}
				l := c.Leader(3 * time.Second)
				kind := frng.Intn(7)
				if f == 1 && run%2 == 0 {
					kind = 6 // every other run has a snapshot install on a lagging follower
				}
				mu.Lock()
				st.Faults++
				mu.Unlock()
				switch {
				case kind == 0 && l != nil:
					emit("", "note", "fault", "stepdown", "node", l.ID)
					l.Store.Stepdown(false, "")
				case kind == 1 && l != nil:
					emit("", "note", "fault", "isolate-leader", "node", l.ID)
					c.nw.Isolate(l.ID, ids)
					time.Sleep(time.Duration(700+frng.Intn(900)) * time.Millisecond)
					c.nw.Heal()
					emit("", "note", "fault", "heal")
				case kind == 2:
					fl := c.Followers()
					if len(fl) > 0 {
						v := fl[frng.Intn(len(fl))]
						emit("", "note", "fault", "isolate-follower", "node", v.ID)
						c.nw.Isolate(v.ID, ids)
						time.Sleep(time.Duration(500+frng.Intn(700)) * time.Millisecond)
						c.nw.Heal()
						emit("", "note", "fault", "heal")
					}
				case kind == 3 && l != nil:
					// leader keeps a minority
					var minority []string
					minority = append(minority, l.ID)
					for _, id := range ids {
						if id != l.ID && len(minority) < (len(ids)-1)/2 {
							minority = append(minority, id)
						}
					}
					emit("", "note", "fault", "split", "minority", strings.Join(minority, ","))
					for _, a := range minority {
						for _, b := range ids {
							in := false
							for _, m := range minority {
								if m == b {
									in = true
								}
							}
							if !in {
								c.nw.Block(a, b)
							}
						}
					}
					time.Sleep(time.Duration(800+frng.Intn(900)) * time.Millisecond)
					c.nw.Heal()
					emit("", "note", "fault", "heal")
				case kind == 6 && l != nil:
					// a follower falls behind while the others snapshot and truncate their logs: after the heal it
					// can only catch up through InstallSnapshot (fsm.restore on a live node)
					fl := c.Followers()
					if len(fl) > 0 {
						v := fl[frng.Intn(len(fl))]
						emit("", "note", "fault", "lag-and-snapshot", "node", v.ID)
						c.nw.Isolate(v.ID, ids)
						time.Sleep(time.Duration(400+frng.Intn(500)) * time.Millisecond)
						nodesMu.RLock()
						for _, n := range c.nodes {
							if n.ID != v.ID && !n.stopped {
								if err := n.Store.Snapshot(1); err == nil {
									mu.Lock()
									st.Snapshots++
									mu.Unlock()
								}
							}
						}
						nodesMu.RUnlock()
						time.Sleep(time.Duration(100+frng.Intn(200)) * time.Millisecond)
						c.nw.Heal()
						emit("", "note", "fault", "heal")
					}
				case kind == 4:
					// graceful restart of a random node
					nodesMu.RLock()
					i := frng.Intn(len(c.nodes))
					v := c.nodes[i]
					nodesMu.RUnlock()
					emit("", "note", "fault", "restart", "node", v.ID)
					nv, err := v.Restart()
					if err != nil {
						emit("", "note", "fault", "restart-failed", "node", v.ID, "err", err.Error())
						continue
					}
					nodesMu.Lock()
					c.nodes[i] = nv
					nodesMu.Unlock()
				default:
					if l != nil {
						fl := c.Followers()
						if len(fl) > 0 {
							v := fl[frng.Intn(len(fl))]
							emit("", "note", "fault", "transfer", "to", v.ID)
							l.Store.Stepdown(false, v.ID)
						}
					}
				}
			}
		}()
		wg.Wait()
		close(stopF)
		fwg.Wait()
		c.nw.Heal()
		// final: converge and compare dumps
		if err := c.WaitConverged(20 * time.Second); err == nil {
			l := c.Leader(5 * time.Second)
			if l != nil {
				op := opID.Add(1)
				emit("", "c.inv", "op", op, "kind", "r", "key", 0, "val", 0, "lvl", "lin", "at", l.ID)
				if ver, regs, err := linRead(l, "linearizable"); err == nil {
					emit("", "c.ok", "op", op, "n", ver, "regs", regs)
				} else {
					emit("", "c.fail", "op", op, "err", err.Error())
				}
				c.WaitConverged(10 * time.Second)
				// raft's applied index only says the entries were handed to the FSM goroutine; a divergence is
				// persistent, a node that is merely behind is not: compare until equal or 20 s have passed
				var diff []string
				for dl := time.Now().Add(20 * time.Second); ; time.Sleep(250 * time.Millisecond) {
					diff = diff[:0]
					ref, _ := dumpLogical(l.Store)
					for _, n := range c.nodes {
						if n.stopped {
							continue
						}
						d, err := dumpLogical(n.Store)
						if err != nil || d != ref {
							diff = append(diff, fmt.Sprintf("run %d node %s differs from leader %s", run, n.ID, l.ID))
						}
					}
					if len(diff) == 0 || time.Now().After(dl) {
						break
					}
				}
				st.FinalMismatch = append(st.FinalMismatch, diff...)
			}
		} else {
			emit("", "note", "converge", err.Error())
		}
		c.Close()
		st.Runs++
	}
	traceOff()
	if err := w.Close(); err != nil {
		return err
	}
	b, _ := json.Marshal(st)
	fmt.Println(string(b))
	return nil
}
