package main

// Snapshot store conformance harness (C09 catalog / full-needed, C07 crash-safe reap).
//
// Materials: real SQLite files built once per run.  One base database (WAL mode) with
// tables t1..tK (one row each, own root page), `last(v)` and `fullid(v)`.
//   full material n   = base with fullid.v = n
//   WAL  material j   = the -wal file produced by "UPDATE tj SET v=j; UPDATE last SET v=j"
//                       on a private copy of the base
// Every WAL holds whole page images of pages that only it (and `last`) touches, so any
// full followed by any sequence of WALs is a consistent database whose logical content is
//   (fullid, {j : tj.v = j}, last.v)  =  (base, set of applied WALs, last applied WAL).
// That is the "versioned pages" projection of DESIGN 4.1 for the snapshot store.

import (
	"bytes"
	"encoding/binary"
	"encoding/json"
	"errors"
	"flag"
	"fmt"
	"io"
	"os"
	"os/exec"
	"path/filepath"
	"sort"
	"strconv"
	"strings"
	"sync"
	"time"

	"github.com/hashicorp/raft"
	"github.com/rqlite/rqlite/v10/db"
	"github.com/rqlite/rqlite/v10/internal/rsum"
	"github.com/rqlite/rqlite/v10/internal/vhook"
	"github.com/rqlite/rqlite/v10/snapshot"
	"github.com/rqlite/rqlite/v10/snapshot/sidecar"
)

const ssK = 10 // number of WAL materials / full materials

func init() {
	register("ss-replay", ssReplayCmd)
	register("ss-worker", ssWorkerCmd)
	register("ss-reap", ssReapCmd)
	register("ss-reap-worker", ssReapWorkerCmd)
}

// ---------------------------------------------------------------- materials

type ssMaterials struct {
	Dir    string
	WalCRC map[uint32]int // crc -> label
}

func (m *ssMaterials) full(n int) string { return filepath.Join(m.Dir, fmt.Sprintf("full-%d.db", n)) }
func (m *ssMaterials) wal(j int) string  { return filepath.Join(m.Dir, fmt.Sprintf("wal-%d", j)) }

func ssCopyFile(src, dst string) error {
	b, err := os.ReadFile(src)
	if err != nil {
		return err
	}
	return os.WriteFile(dst, b, 0644)
}

func ssExec(d *db.DB, q string) error {
	r, err := d.ExecuteStringStmt(q)
	if err != nil {
		return err
	}
	for _, x := range r {
		if e := x.GetError(); e != "" {
			return fmt.Errorf("%s: %s", q, e)
		}
	}
	return nil
}

// ssBuildMaterials creates the material files in dir (idempotent: a marker file says done).
func ssBuildMaterials(dir string) (*ssMaterials, error) {
	m := &ssMaterials{Dir: dir, WalCRC: map[uint32]int{}}
	marker := filepath.Join(dir, "DONE")
	if _, err := os.Stat(marker); err != nil {
		if err := os.MkdirAll(dir, 0755); err != nil {
			return nil, err
		}
		base := filepath.Join(dir, "base.db")
		os.Remove(base)
		d, err := db.Open(base, false, true)
		if err != nil {
			return nil, err
		}
		stmts := []string{"CREATE TABLE last(v INTEGER)", "INSERT INTO last VALUES(0)",
			"CREATE TABLE fullid(v INTEGER)", "INSERT INTO fullid VALUES(0)"}
		for j := 1; j <= ssK; j++ {
			stmts = append(stmts, fmt.Sprintf("CREATE TABLE t%d(v INTEGER, pad TEXT)", j),
				fmt.Sprintf("INSERT INTO t%d VALUES(0, '%s')", j, strings.Repeat("x", 100)))
		}
		for _, q := range stmts {
			if err := ssExec(d, q); err != nil {
				return nil, err
			}
		}
		if _, err := d.Checkpoint(db.CheckpointTruncate); err != nil {
			return nil, err
		}
		if err := d.Close(); err != nil {
			return nil, err
		}
		db.RemoveWALFiles(base)
		os.Remove(base + "-shm")
		for n := 1; n <= ssK; n++ {
			p := m.full(n)
			if err := ssCopyFile(base, p); err != nil {
				return nil, err
			}
			d, err := db.Open(p, false, true)
			if err != nil {
				return nil, err
			}
			if err := ssExec(d, fmt.Sprintf("UPDATE fullid SET v=%d", n)); err != nil {
				return nil, err
			}
			if _, err := d.Checkpoint(db.CheckpointTruncate); err != nil {
				return nil, err
			}
			d.Close()
			db.RemoveWALFiles(p)
			os.Remove(p + "-shm")
		}
		for j := 1; j <= ssK; j++ {
			p := filepath.Join(dir, fmt.Sprintf("w%d.db", j))
			if err := ssCopyFile(base, p); err != nil {
				return nil, err
			}
			d, err := db.Open(p, false, true)
			if err != nil {
				return nil, err
			}
			req := fmt.Sprintf("UPDATE t%d SET v=%d", j, j)
			if err := ssExecTx(d, req, fmt.Sprintf("UPDATE last SET v=%d", j)); err != nil {
				return nil, err
			}
			if err := ssCopyFile(p+"-wal", m.wal(j)); err != nil {
				return nil, err
			}
			d.Close()
			db.RemoveFiles(p)
			os.Remove(p + "-shm")
		}
		if err := os.WriteFile(marker, []byte("ok"), 0644); err != nil {
			return nil, err
		}
	}
	for j := 1; j <= ssK; j++ {
		c, err := rsum.CRC32(m.wal(j))
		if err != nil {
			return nil, err
		}
		m.WalCRC[c] = j
	}
	return m, nil
}

func ssExecTx(d *db.DB, qs ...string) error {
	all := append([]string{"BEGIN"}, qs...)
	all = append(all, "COMMIT")
	for _, q := range all {
		if err := ssExec(d, q); err != nil {
			return err
		}
	}
	return nil
}

// ssContent is the logical content of a database built from the materials.
type ssContent struct {
	Base    int    `json:"base"`
	Applied []int  `json:"applied"` // sorted labels j with tj.v = j
	Last    int    `json:"last"`
	Err     string `json:"err,omitempty"`
}

func (c ssContent) String() string { b, _ := json.Marshal(c); return string(b) }

func ssQueryInt(d *db.DB, q string) (int, error) {
	rows, err := d.QueryStringStmt(q)
	if err != nil {
		return 0, err
	}
	if len(rows) != 1 || rows[0].GetError() != "" {
		return 0, fmt.Errorf("%s: %v", q, rows)
	}
	vals := rows[0].GetValues()
	if len(vals) != 1 {
		return 0, fmt.Errorf("%s: %d rows", q, len(vals))
	}
	return int(vals[0].GetParameters()[0].GetI()), nil
}

func ssReadContent(path string) ssContent {
	c := ssContent{Applied: []int{}}
	d, err := db.Open(path, false, true)
	if err != nil {
		c.Err = err.Error()
		return c
	}
	defer func() {
		d.Close()
		db.RemoveWALFiles(path)
		os.Remove(path + "-shm")
	}()
	res, err := d.VerifyIntegrity()
	if err != nil {
		c.Err = "integrity: " + err.Error()
		return c
	}
	if !res.OK {
		c.Err = "integrity check failed"
		return c
	}
	if c.Base, err = ssQueryInt(d, "SELECT v FROM fullid"); err != nil {
		c.Err = err.Error()
		return c
	}
	if c.Last, err = ssQueryInt(d, "SELECT v FROM last"); err != nil {
		c.Err = err.Error()
		return c
	}
	for j := 1; j <= ssK; j++ {
		v, err := ssQueryInt(d, fmt.Sprintf("SELECT v FROM t%d", j))
		if err != nil {
			c.Err = err.Error()
			return c
		}
		if v == j {
			c.Applied = append(c.Applied, j)
		} else if v != 0 {
			c.Err = fmt.Sprintf("t%d.v = %d", j, v)
			return c
		}
	}
	return c
}

// ---------------------------------------------------------------- sinks on the real store

func ssConfiguration() raft.Configuration {
	return raft.Configuration{Servers: []raft.Server{{ID: "1", Address: "localhost:1"}}}
}

// Snapshot ids are "<term>-<index>-<unix ms>" and ties in (term, index) are ordered by that string, so
// within one store no two names may carry the same millisecond.  ssClock remembers the latest stamp
// used in a store (by the harness or by a reap) and waits until the wall clock has passed it.
type ssClock struct{ last int64 }

func ssStamp(name string) int64 {
	name = strings.TrimSuffix(name, ".tmp")
	v, _ := strconv.ParseInt(name[strings.LastIndex(name, "-")+1:], 10, 64)
	return v
}

func (c *ssClock) saw(name string) {
	if v := ssStamp(name); v > c.last {
		c.last = v
	}
}

func (c *ssClock) sawDir(dir string) {
	ents, _ := os.ReadDir(dir)
	for _, e := range ents {
		if e.IsDir() {
			c.saw(e.Name())
		}
	}
}

func (c *ssClock) tick() {
	for time.Now().UnixMilli() <= c.last {
		time.Sleep(200 * time.Microsecond)
	}
}

// ssStaging builds a WAL staging directory holding the given WAL materials (with sidecars),
// exactly as the store's snapshot path does through StagingDir.CreateWAL.
func ssStaging(m *ssMaterials, dir string, labels []int) error {
	if err := os.MkdirAll(dir, 0755); err != nil {
		return err
	}
	sd := snapshot.NewStagingDir(dir)
	for _, j := range labels {
		w, _, err := sd.CreateWAL()
		if err != nil {
			return err
		}
		b, err := os.ReadFile(m.wal(j))
		if err != nil {
			return err
		}
		if _, err := w.Write(b); err != nil {
			w.Cancel()
			return err
		}
		if err := w.Close(); err != nil {
			return err
		}
		time.Sleep(time.Microsecond) // names are time-stamped in ns + sequence
	}
	return sd.Validate()
}

// ssFullStream returns the bytes of a full snapshot stream (header + db + wals).
func ssFullStream(m *ssMaterials, base int, labels []int) ([]byte, int, error) {
	wp := []string{}
	for _, j := range labels {
		wp = append(wp, m.wal(j))
	}
	st, err := snapshot.NewSnapshotStreamer(m.full(base), wp...)
	if err != nil {
		return nil, 0, err
	}
	if err := st.Open(); err != nil {
		return nil, 0, err
	}
	defer st.Close()
	b, err := io.ReadAll(st)
	if err != nil {
		return nil, 0, err
	}
	hl := int(binary.BigEndian.Uint32(b[:4])) + 4
	return b, hl, nil
}

func ssIncStream(walDir string) ([]byte, error) {
	st, err := snapshot.NewSnapshotPathStreamer(walDir)
	if err != nil {
		return nil, err
	}
	return io.ReadAll(st)
}

// ---------------------------------------------------------------- projection of the real store

type ssDirProj struct {
	Id    int    `json:"id"`
	Tmp   bool   `json:"tmp"`
	Meta  bool   `json:"meta"`  // meta.json present and decodable
	MTerm int    `json:"mterm"` // meta term / index (0 when no meta)
	MIdx  int    `json:"midx"`
	DB    bool   `json:"db"`    // data.db present
	Wals  []int  `json:"wals"`  // labels of *.wal files in name order (0 = unknown content)
	CrcOK bool   `json:"crcok"` // every data file has a sidecar that matches its content
	DbWal bool   `json:"dbwal"` // a non-empty data.db-wal is present
	Name  string `json:"-"`
}

type ssOpenProj struct {
	Id      int    `json:"id"`
	Ok      bool   `json:"ok"`
	NWals   int    `json:"nwals"`
	Base    int    `json:"base"`
	Applied []int  `json:"applied"`
	Last    int    `json:"last"`
	Term    int    `json:"term"`
	Idx     int    `json:"idx"`
	Err     string `json:"err,omitempty"`
}

type ssNames struct {
	byName map[string]int
	next   int
}

func newSSNames() *ssNames { return &ssNames{byName: map[string]int{}} }

func (n *ssNames) alloc(name string) int {
	n.next++
	n.byName[name] = n.next
	return n.next
}

// ssDirListing projects the raw directory: snapshot dirs (tmp or not), flag and plan files.
// Unknown directory names (created by a reap) get the next abstract id, in name order.
func ssDirListing(m *ssMaterials, dir string, names *ssNames) (dirs []ssDirProj, flag, plan, plantmp bool, other []string, err error) {
	ents, err := os.ReadDir(dir)
	if err != nil {
		return nil, false, false, false, nil, err
	}
	dirs = []ssDirProj{}
	other = []string{}
	// names not seen before (a reap's consolidated directory, a sink of another process) get the next
	// abstract ids in the order of their millisecond stamps = creation order
	unknown := []string{}
	for _, e := range ents {
		if e.IsDir() {
			if b := strings.TrimSuffix(e.Name(), ".tmp"); names.byName[b] == 0 {
				unknown = append(unknown, b)
			}
		}
	}
	sort.Slice(unknown, func(i, j int) bool { return ssStamp(unknown[i]) < ssStamp(unknown[j]) })
	for _, b := range unknown {
		if names.byName[b] == 0 {
			names.alloc(b)
		}
	}
	for _, e := range ents {
		name := e.Name()
		if !e.IsDir() {
			switch name {
			case "FULL_NEEDED":
				flag = true
			case "REAP_PLAN":
				plan = true
			case "REAP_PLAN.tmp":
				plantmp = true
			default:
				other = append(other, name)
			}
			continue
		}
		p := ssDirProj{Name: name, Wals: []int{}, CrcOK: true}
		base := name
		if strings.HasSuffix(name, ".tmp") {
			p.Tmp = true
			base = strings.TrimSuffix(name, ".tmp")
		}
		id, ok := names.byName[base]
		if !ok {
			id = names.alloc(base)
		}
		p.Id = id
		dp := filepath.Join(dir, name)
		if b, err := os.ReadFile(filepath.Join(dp, "meta.json")); err == nil {
			var mt raft.SnapshotMeta
			if json.Unmarshal(b, &mt) == nil {
				p.Meta = true
				p.MTerm, p.MIdx = int(mt.Term), int(mt.Index)
			}
		}
		files, _ := os.ReadDir(dp)
		for _, f := range files {
			fn := f.Name()
			fp := filepath.Join(dp, fn)
			switch {
			case fn == "data.db":
				p.DB = true
				if ok, err := sidecar.CompareFile(fp, fp+".crc32"); err != nil || !ok {
					p.CrcOK = false
				}
			case strings.HasSuffix(fn, ".wal"):
				c, _ := rsum.CRC32(fp)
				p.Wals = append(p.Wals, m.WalCRC[c])
				if ok, err := sidecar.CompareFile(fp, fp+".crc32"); err != nil || !ok {
					p.CrcOK = false
				}
			case fn == "data.db-wal":
				if fi, err := f.Info(); err == nil && fi.Size() > 0 {
					p.DbWal = true
				}
			}
		}
		dirs = append(dirs, p)
	}
	sort.Slice(dirs, func(i, j int) bool { return dirs[i].Id < dirs[j].Id })
	return dirs, flag, plan, plantmp, other, nil
}

// ssOpenRestore opens snapshot id on the real store, reads the whole stream, checks the
// advertised size, restores it with snapshot.Restore and reads the logical content.
func ssOpenRestore(st *snapshot.Store, realID string, scratch string) ssOpenProj {
	o := ssOpenProj{Applied: []int{}}
	meta, rc, err := st.Open(realID)
	if err != nil {
		o.Err = err.Error()
		return o
	}
	b, err := io.ReadAll(rc)
	rc.Close()
	if err != nil {
		o.Err = "read: " + err.Error()
		return o
	}
	if int64(len(b)) != meta.Size {
		o.Err = fmt.Sprintf("stream has %d bytes, meta.Size %d", len(b), meta.Size)
		return o
	}
	o.Term, o.Idx = int(meta.Term), int(meta.Index)
	hl := int(binary.BigEndian.Uint32(b[:4]))
	hdr, err := snapshot.UnmarshalSnapshotHeader(b[4 : 4+hl])
	if err != nil || hdr.GetFull() == nil {
		o.Err = "stream header is not a full snapshot"
		return o
	}
	o.NWals = len(hdr.GetFull().WalHeaders)
	dst := filepath.Join(scratch, "restore.db")
	os.Remove(dst)
	n, err := snapshot.Restore(bytes.NewReader(b), dst)
	if err != nil {
		o.Err = "restore: " + err.Error()
		return o
	}
	if n != int64(len(b)) {
		o.Err = fmt.Sprintf("restore consumed %d of %d bytes", n, len(b))
		return o
	}
	c := ssReadContent(dst)
	os.Remove(dst)
	if c.Err != "" {
		o.Err = "content: " + c.Err
		return o
	}
	o.Ok = true
	o.Base, o.Applied, o.Last = c.Base, c.Applied, c.Last
	return o
}

// ---------------------------------------------------------------- C09: replay of operation sequences

type ssOp struct {
	Op   string `json:"op"`
	S    string `json:"s,omitempty"`
	Term int    `json:"term,omitempty"`
	Idx  int    `json:"idx,omitempty"`
	Kind string `json:"kind,omitempty"`
	Nw   int    `json:"nw,omitempty"`
	K    int    `json:"k,omitempty"`
}

type ssSeq struct {
	Ops []ssOp `json:"ops"`
	Tag string `json:"tag,omitempty"`
}

type ssSlot struct {
	sink   raft.SnapshotSink
	id     int
	st     string // open | hdr | refused
	kind   string
	labels []int
	data   bool
	rest   []byte
}

// ssRun is the harness-side state of one replayed sequence; everything the next process needs
// after a crash is in the exported fields.
type ssRun struct {
	Dir     string         `json:"dir"`
	Stage   string         `json:"stage"`
	Names   map[string]int `json:"names"`
	NextID  int            `json:"nextid"`
	NextWal int            `json:"nextwal"`

	m      *ssMaterials
	st     *snapshot.Store
	slots  map[string]*ssSlot
	out    func(map[string]any)
	names  *ssNames
	cacheK string
	cacheV []map[string]any
	tmp    string
	clock  ssClock
}

func (r *ssRun) openStore() error {
	st, err := snapshot.NewStore(r.Dir)
	if err != nil {
		return err
	}
	st.VerifSSNoFatal()
	st.SetReapThreshold(1 << 30)
	r.st = st
	r.slots = map[string]*ssSlot{}
	return nil
}

func (r *ssRun) observe() {
	dirs, flag, plan, ptmp, other, err := ssDirListing(r.m, r.Dir, r.names)
	if err != nil {
		r.out(map[string]any{"ev": "st.disk", "err": err.Error()})
		return
	}
	for i := range dirs {
		if dirs[i].Tmp {
			dirs[i].CrcOK = true
		}
	}
	line := map[string]any{"ev": "st.disk", "dirs": dirs, "flag": flag, "plan": plan, "ptmp": ptmp}
	if len(other) > 0 {
		line["other"] = other
	}
	r.out(line)
	// ListAll / List / DueNext
	ll := map[string]any{"ev": "st.list"}
	metas, err := r.st.ListAll()
	ids := []int{}
	if err == nil {
		for _, mt := range metas {
			ids = append(ids, r.names.byName[mt.ID]) // 0 if the meta carries an id that is no directory name
		}
	}
	ll["ok"] = err == nil
	ll["list"] = ids
	first := 0
	one, err1 := r.st.List()
	if (err1 == nil) != (err == nil) {
		first = -1
	} else if err1 == nil && len(one) > 0 {
		first = r.names.byName[one[0].ID]
		if len(one) != 1 {
			first = -1
		}
	}
	ll["first"] = first
	due, err := r.st.DueNext()
	if err != nil {
		ll["due"] = "err"
	} else {
		ll["due"] = map[snapshot.Type]string{snapshot.Full: "full", snapshot.Incremental: "inc"}[due]
	}
	r.out(ll)
	// Open + Restore of every non-tmp directory
	kb, _ := json.Marshal(dirs)
	if string(kb) != r.cacheK {
		opens := []map[string]any{}
		for _, d := range dirs {
			if d.Tmp {
				continue
			}
			o := ssOpenRestore(r.st, d.Name, r.tmp)
			opens = append(opens, map[string]any{"id": d.Id, "ok": o.Ok, "nwals": o.NWals, "base": o.Base, "applied": o.Applied, "last": o.Last})
			if !o.Ok {
				opens[len(opens)-1]["nwals"], opens[len(opens)-1]["base"], opens[len(opens)-1]["last"] = 0, 0, 0
				opens[len(opens)-1]["applied"] = []int{}
				opens[len(opens)-1]["err"] = o.Err
			} else if d.Meta && (o.Term != d.MTerm || o.Idx != d.MIdx) {
				opens[len(opens)-1]["ok"] = false
				opens[len(opens)-1]["err"] = "Open returned meta of another snapshot"
			}
		}
		r.cacheK, r.cacheV = string(kb), opens
	}
	// the error text is for the reader only; the spec compares the other fields
	clean := make([]map[string]any, len(r.cacheV))
	for i, o := range r.cacheV {
		c := map[string]any{}
		for k, v := range o {
			if k != "err" {
				c[k] = v
			}
		}
		clean[i] = c
	}
	r.out(map[string]any{"ev": "st.open", "opens": clean})
}

var ssClosePoints = map[int]string{1: "sink.close.moved", 2: "sink.close.wals", 3: "sink.close.meta", 4: "sink.close.renamed", 5: "sink.close.flag"}

// exec runs one operation on the real store; returns false if it was skipped as inapplicable.
// crash=true (child process only): a crashclose really dies at its crash point.
func (r *ssRun) exec(op ssOp, crash bool) (bool, error) {
	sl := r.slots[op.S]
	switch op.Op {
	case "create":
		if sl != nil {
			return false, nil
		}
		r.clock.sawDir(r.Dir)
		r.clock.tick()
		sk, err := r.st.Create(1, uint64(op.Idx), uint64(op.Term), ssConfiguration(), 1, nil)
		if err != nil {
			return true, fmt.Errorf("Create: %w", err)
		}
		r.clock.saw(sk.ID())
		snapshot.VerifSSSinkNoFatal(sk)
		id := r.names.alloc(sk.ID())
		r.out(map[string]any{"ev": "_name", "name": sk.ID(), "id": id})
		r.slots[op.S] = &ssSlot{sink: sk, id: id, st: "open"}
		r.out(map[string]any{"ev": "create", "s": op.S, "term": op.Term, "idx": op.Idx, "id": id})
	case "header":
		if sl == nil || sl.st != "open" {
			return false, nil
		}
		if sl.id > ssK || r.NextWal+op.Nw > ssK {
			return false, nil
		}
		labels := []int{}
		for k := 1; k <= op.Nw; k++ {
			labels = append(labels, r.NextWal+k)
		}
		first := r.NextWal + 1
		r.NextWal += op.Nw
		r.out(map[string]any{"ev": "_wal", "next": r.NextWal})
		var b []byte
		var err error
		hl := 0
		if op.Kind == "full" {
			b, hl, err = ssFullStream(r.m, sl.id, labels)
		} else {
			wd := filepath.Join(r.Stage, fmt.Sprintf("wal-%d", sl.id))
			if err = ssStaging(r.m, wd, labels); err == nil {
				b, err = ssIncStream(wd)
				hl = len(b)
			}
		}
		if err != nil {
			return true, fmt.Errorf("building payload: %w", err)
		}
		_, werr := sl.sink.Write(b[:hl])
		sl.kind, sl.labels, sl.rest = op.Kind, labels, b[hl:]
		if werr == nil {
			sl.st = "hdr"
		} else {
			sl.st = "refused"
		}
		r.out(map[string]any{"ev": "header", "s": op.S, "kind": op.Kind, "nw": op.Nw, "first": first, "ok": werr == nil})
	case "data":
		if sl == nil || sl.st != "hdr" || sl.kind != "full" || sl.data {
			return false, nil
		}
		// two writes, cut inside the database file
		cut := len(sl.rest) / 3
		_, err := sl.sink.Write(sl.rest[:cut])
		if err == nil {
			_, err = sl.sink.Write(sl.rest[cut:])
		}
		sl.data = true
		r.out(map[string]any{"ev": "data", "s": op.S, "ok": err == nil})
	case "close":
		if sl == nil {
			return false, nil
		}
		err := sl.sink.Close()
		delete(r.slots, op.S)
		r.out(map[string]any{"ev": "close", "s": op.S, "ok": err == nil, "err": errStr(err)})
	case "cancel":
		if sl == nil {
			return false, nil
		}
		err := sl.sink.Cancel()
		delete(r.slots, op.S)
		r.out(map[string]any{"ev": "cancel", "s": op.S, "ok": err == nil, "err": errStr(err)})
	case "crashclose":
		if sl == nil || sl.st != "hdr" || (op.K == 1 && sl.kind != "inc") {
			return false, nil
		}
		if !crash {
			return true, fmt.Errorf("crashclose outside a worker process")
		}
		vhook.SetCrash(ssClosePoints[op.K], 1, nil)
		err := sl.sink.Close()
		return true, fmt.Errorf("Close returned (%v) instead of dying at %s", err, ssClosePoints[op.K])
	case "setfull":
		err := r.st.SetDueNext(snapshot.Full)
		r.out(map[string]any{"ev": "setfull", "ok": err == nil})
	case "reap":
		r.clock.sawDir(r.Dir)
		r.clock.tick()
		_, _, err := r.st.Reap()
		r.clock.sawDir(r.Dir)
		r.out(map[string]any{"ev": "reap", "ok": err == nil, "err": errStr(err)})
	case "reopen":
		r.st.Close()
		err := r.openStore()
		r.out(map[string]any{"ev": "reopen", "ok": err == nil, "err": errStr(err)})
		if err != nil {
			return true, errStop
		}
	default:
		return true, fmt.Errorf("unknown op %q", op.Op)
	}
	r.observe()
	return true, nil
}

var errStop = errors.New("stop this sequence")

// applicable says, from the harness's own bookkeeping, whether a crashclose would be executed.
func (r *ssRun) crashApplicable(op ssOp) bool {
	sl := r.slots[op.S]
	return sl != nil && sl.st == "hdr" && !(op.K == 1 && sl.kind != "inc")
}

// ssWorkerCmd: child process executing one segment that ends in a crash inside Close.
// Reads {run state, ops} from -in, prints trace lines on stdout.
func ssWorkerCmd(args []string) error {
	fs := flag.NewFlagSet("ss-worker", flag.ExitOnError)
	in := fs.String("in", "", "")
	mat := fs.String("materials", "", "")
	fs.Parse(args)
	b, err := os.ReadFile(*in)
	if err != nil {
		return err
	}
	var job struct {
		Run ssRun  `json:"run"`
		Ops []ssOp `json:"ops"`
	}
	if err := json.Unmarshal(b, &job); err != nil {
		return err
	}
	m, err := ssBuildMaterials(*mat)
	if err != nil {
		return err
	}
	r := &job.Run
	r.m = m
	r.names = &ssNames{byName: r.Names, next: r.NextID}
	r.tmp = filepath.Join(r.Stage, "wtmp")
	os.MkdirAll(r.tmp, 0755)
	w := json.NewEncoder(os.Stdout)
	r.out = func(l map[string]any) { w.Encode(l) }
	if err := r.openStore(); err != nil {
		return err
	}
	for _, op := range r.pendingOps(job.Ops) {
		if _, err := r.exec(op, true); err != nil {
			return err
		}
	}
	return fmt.Errorf("segment ended without a crash")
}

func (r *ssRun) pendingOps(ops []ssOp) []ssOp { return ops }

// runSeq replays one sequence; lines go to out.
func ssRunSeq(m *ssMaterials, self, matDir, base string, n int, seq ssSeq, out func(map[string]any)) error {
	root := filepath.Join(base, fmt.Sprintf("r%d", n))
	os.RemoveAll(root)
	defer os.RemoveAll(root)
	r := &ssRun{Dir: filepath.Join(root, "store"), Stage: filepath.Join(root, "stage"), m: m, names: newSSNames(), tmp: filepath.Join(root, "tmp")}
	r.out = func(l map[string]any) {
		if ev, _ := l["ev"].(string); !strings.HasPrefix(ev, "_") { // bookkeeping lines matter only between processes
			out(l)
		}
	}
	for _, d := range []string{r.Stage, r.tmp} {
		if err := os.MkdirAll(d, 0755); err != nil {
			return err
		}
	}
	out(map[string]any{"ev": "reset", "run": n, "tag": seq.Tag})
	if err := r.openStore(); err != nil {
		return err
	}
	defer func() {
		if r.st != nil {
			r.st.Close()
		}
	}()
	ops := seq.Ops
	for i := 0; i < len(ops); {
		// find the next crashclose that would be executed: it has to run in a child process from the
		// last point where no sink was alive (segment start)
		j := -1
		for k := i; k < len(ops); k++ {
			if ops[k].Op == "reopen" {
				break
			}
			if ops[k].Op == "crashclose" {
				j = k
				break
			}
		}
		if j < 0 || len(r.slots) > 0 {
			// plain in-process execution up to and including the next reopen (or the end)
			op := ops[i]
			i++
			if op.Op == "crashclose" {
				continue // cannot be honoured here (sinks alive in this process); skipped
			}
			if _, err := r.exec(op, false); err != nil {
				if err == errStop {
					return nil
				}
				return err
			}
			continue
		}
		// segment ops[i..j] in a child
		r.st.Close()
		r.st = nil
		r.Names, r.NextID = r.names.byName, r.names.next
		job := map[string]any{"run": r, "ops": ops[i : j+1]}
		jp := filepath.Join(root, "job.json")
		if err := writeJSON(jp, job); err != nil {
			return err
		}
		cmd := exec.Command(self, "ss-worker", "-in", jp, "-materials", matDir)
		var stderr bytes.Buffer
		cmd.Stderr = &stderr
		ob, err := cmd.Output()
		code := 0
		if ee, ok := err.(*exec.ExitError); ok {
			code = ee.ExitCode()
		} else if err != nil {
			return err
		}
		for _, ln := range bytes.Split(ob, []byte("\n")) {
			if len(bytes.TrimSpace(ln)) == 0 {
				continue
			}
			var mline map[string]any
			dec := json.NewDecoder(bytes.NewReader(ln))
			dec.UseNumber()
			if err := dec.Decode(&mline); err != nil {
				return fmt.Errorf("worker line %q: %w", ln, err)
			}
			switch mline["ev"] {
			case "_name":
				id, _ := mline["id"].(json.Number).Int64()
				r.names.byName[mline["name"].(string)] = int(id)
				if int(id) > r.names.next {
					r.names.next = int(id)
				}
			case "_wal":
				nx, _ := mline["next"].(json.Number).Int64()
				r.NextWal = int(nx)
			default:
				out(mline)
			}
		}
		if code != 86 {
			if strings.Contains(stderr.String(), "segment ended without a crash") {
				// the crashclose was not applicable in the child either: nothing happened, go on in-process
				if err := r.openStore(); err != nil {
					return err
				}
				i = j + 1
				continue
			}
			return fmt.Errorf("ss-worker exit %d: %s", code, tailStr(stderr.String(), 1500))
		}
		err = r.openStore()
		out(map[string]any{"ev": "crashclose", "s": ops[j].S, "k": ops[j].K, "ok": err == nil, "err": errStr(err)})
		if err != nil {
			return nil
		}
		r.cacheK = ""
		r.observe()
		i = j + 1
	}
	return nil
}

func tailStr(s string, n int) string {
	if len(s) > n {
		return s[len(s)-n:]
	}
	return s
}

func ssReplayCmd(args []string) error {
	fs := flag.NewFlagSet("ss-replay", flag.ExitOnError)
	in := fs.String("in", "", "ndjson of {ops:[...]}")
	outp := fs.String("out", "trace.ndjson", "")
	scratch := fs.String("scratch", "", "")
	par := fs.Int("par", 4, "")
	fs.Parse(args)
	if *scratch == "" {
		d, err := os.MkdirTemp("", "ssreplay")
		if err != nil {
			return err
		}
		defer os.RemoveAll(d)
		*scratch = d
	}
	matDir := filepath.Join(*scratch, "materials")
	m, err := ssBuildMaterials(matDir)
	if err != nil {
		return err
	}
	rows, err := readND(*in)
	if err != nil {
		return err
	}
	seqs := make([]ssSeq, len(rows))
	for i, row := range rows {
		b, _ := json.Marshal(row)
		if err := json.Unmarshal(b, &seqs[i]); err != nil {
			return err
		}
	}
	self, _ := os.Executable()
	bufs := make([][]map[string]any, len(seqs))
	errs := make([]error, len(seqs))
	var wg sync.WaitGroup
	sem := make(chan struct{}, *par)
	for i := range seqs {
		wg.Add(1)
		sem <- struct{}{}
		go func(i int) {
			defer wg.Done()
			defer func() { <-sem }()
			errs[i] = ssRunSeq(m, self, matDir, *scratch, i, seqs[i], func(l map[string]any) { bufs[i] = append(bufs[i], l) })
		}(i)
	}
	wg.Wait()
	w, err := newND(*outp)
	if err != nil {
		return err
	}
	nops, ncrash := 0, 0
	for i := range seqs {
		if errs[i] != nil {
			return fmt.Errorf("sequence %d: %w", i, errs[i])
		}
		for _, l := range bufs[i] {
			ev, _ := l["ev"].(string)
			if !strings.HasPrefix(ev, "st.") && ev != "reset" {
				nops++
			}
			if ev == "crashclose" {
				ncrash++
			}
			w.Write(l)
		}
	}
	if err := w.Close(); err != nil {
		return err
	}
	fmt.Printf("{\"sequences\":%d,\"ops\":%d,\"crashes\":%d,\"lines\":%d}\n", len(seqs), nops, ncrash, w.n)
	return nil
}

// ---------------------------------------------------------------- C07: crash-safe reap

type ssItem struct {
	Kind string `json:"kind"`
	Nw   int    `json:"nw"`
	Term int    `json:"term"`
	Idx  int    `json:"idx"`
}

type ssDisk struct {
	Dirs []ssDirProj `json:"dirs"`
	Plan bool        `json:"plan"`
	Ptmp bool        `json:"ptmp"`
}

type ssCrash struct {
	Run   int    `json:"run"`
	Point string `json:"point"`
	K     int    `json:"k"`
	Disk  ssDisk `json:"disk"`
}

type ssCase struct {
	Shape struct {
		Items []ssItem `json:"items"`
		Tmp   bool     `json:"tmp"`
	} `json:"shape"`
	Crashes []ssCrash `json:"crashes"`
	Want    struct {
		Term    int         `json:"term"`
		Idx     int         `json:"idx"`
		Base    int         `json:"base"`
		Applied []int       `json:"applied"`
		Last    int         `json:"last"`
		Dirs    []ssDirProj `json:"dirs"`
	} `json:"want"`
	Perturb bool `json:"perturb,omitempty"` // self-test: the expectation was falsified on purpose
	NoDisk  bool `json:"nodisk,omitempty"`  // witness of a negative control: its listings are those of the broken design
}

func (c *ssCase) shapeStr() string {
	parts := []string{}
	for _, it := range c.Shape.Items {
		p := it.Kind
		if it.Nw > 0 {
			p += fmt.Sprintf("/%dw", it.Nw)
		}
		parts = append(parts, p)
	}
	if c.Shape.Tmp {
		parts = append(parts, "tmp")
	}
	return strings.Join(parts, "+")
}

func (c *ssCase) crashStr() string {
	if len(c.Crashes) == 0 {
		return "none"
	}
	parts := []string{}
	for _, cr := range c.Crashes {
		parts = append(parts, fmt.Sprintf("%s#%d@run%d", cr.Point, cr.K, cr.Run))
	}
	return strings.Join(parts, "+")
}

type ssReapResult struct {
	Case       int      `json:"case"`
	Shape      string   `json:"shape"`
	Crash      string   `json:"crash"`
	Verdict    string   `json:"verdict"` // ok | <violation class> | harness:<what>
	Detail     string   `json:"detail,omitempty"`
	Exits      []int    `json:"exits"`
	ModelDiffs []string `json:"model_diffs,omitempty"` // crash-time / final listings that differ from the spec state
	Pre        string   `json:"pre,omitempty"`
	Post       string   `json:"post,omitempty"`
	ByteSame   bool     `json:"byte_same"`
	Reproduced bool     `json:"reproduced,omitempty"`
}

func ssDirsEqual(a, b []ssDirProj) bool {
	x, _ := json.Marshal(a)
	y, _ := json.Marshal(b)
	return string(x) == string(y)
}

func ssRunChild(self string, args []string, crash string) (int, string, error) {
	cmd := exec.Command(self, args...)
	cmd.Env = os.Environ()
	if crash != "" {
		cmd.Env = append(cmd.Env, "VERIF_CRASH="+crash)
	}
	var stderr bytes.Buffer
	cmd.Stderr = &stderr
	err := cmd.Run()
	if ee, ok := err.(*exec.ExitError); ok {
		return ee.ExitCode(), stderr.String(), nil
	} else if err != nil {
		return -1, "", err
	}
	return 0, stderr.String(), nil
}

// ssReapWorkerCmd is the child process: -mode reap (open the store, optionally leave a sink open,
// reap) or -mode open (just open the store = recovery).  exit 0 ok, 4 = the operation returned an
// error, 86 = died at the crash point.
func ssReapWorkerCmd(args []string) error {
	fs := flag.NewFlagSet("ss-reap-worker", flag.ExitOnError)
	dir := fs.String("dir", "", "")
	mode := fs.String("mode", "open", "")
	tmp := fs.Bool("tmp", false, "leave a sink open (its .tmp directory exists during the reap)")
	tterm := fs.Int("tterm", 2, "")
	tidx := fs.Int("tidx", 99, "")
	fs.Parse(args)
	st, err := snapshot.NewStore(*dir)
	if err != nil {
		fmt.Fprintln(os.Stderr, "NewStore:", err)
		os.Exit(4)
	}
	st.SetReapThreshold(1 << 30)
	if *mode == "reap" {
		if *tmp {
			if _, err := st.Create(1, uint64(*tidx), uint64(*tterm), ssConfiguration(), 1, nil); err != nil {
				return err
			}
			time.Sleep(2 * time.Millisecond)
		}
		if _, _, err := st.Reap(); err != nil {
			fmt.Fprintln(os.Stderr, "Reap:", err)
			os.Exit(4)
		}
	}
	os.Exit(0)
	return nil
}

func ssHashFile(p string) string {
	c, err := rsum.CRC32(p)
	if err != nil {
		return "err"
	}
	fi, _ := os.Stat(p)
	return fmt.Sprintf("%08x/%d", c, fi.Size())
}

// ssNewestRestored opens the store's newest snapshot, restores it and returns (term, idx, content, file hash).
func ssNewestRestored(st *snapshot.Store, scratch string) (int, int, ssContent, string, error) {
	metas, err := st.List()
	if err != nil {
		return 0, 0, ssContent{}, "", fmt.Errorf("List: %w", err)
	}
	if len(metas) != 1 {
		return 0, 0, ssContent{}, "", fmt.Errorf("List returned %d snapshots", len(metas))
	}
	meta, rc, err := st.Open(metas[0].ID)
	if err != nil {
		return 0, 0, ssContent{}, "", fmt.Errorf("Open(%s): %w", metas[0].ID, err)
	}
	dst := filepath.Join(scratch, "newest.db")
	os.Remove(dst)
	n, err := snapshot.Restore(rc, dst)
	rc.Close()
	if err != nil {
		return 0, 0, ssContent{}, "", fmt.Errorf("Restore: %w", err)
	}
	if n != meta.Size {
		return 0, 0, ssContent{}, "", fmt.Errorf("Restore read %d bytes, meta.Size %d", n, meta.Size)
	}
	h := ssHashFile(dst)
	c := ssReadContent(dst)
	os.Remove(dst)
	if c.Err != "" {
		return 0, 0, c, h, fmt.Errorf("restored database: %s", c.Err)
	}
	return int(meta.Term), int(meta.Index), c, h, nil
}

func ssReapCase(m *ssMaterials, self, base string, n int, c *ssCase) ssReapResult {
	res := ssReapResult{Case: n, Shape: c.shapeStr(), Crash: c.crashStr(), Exits: []int{}}
	fail := func(v, d string) ssReapResult { res.Verdict, res.Detail = v, d; return res }
	root := filepath.Join(base, fmt.Sprintf("c%d", n))
	os.RemoveAll(root)
	defer os.RemoveAll(root)
	dir := filepath.Join(root, "store") // never moved or copied: REAP_PLAN holds absolute paths
	scratch := filepath.Join(root, "tmp")
	os.MkdirAll(scratch, 0755)
	names := newSSNames()
	// ---- the store shape, through real sinks
	st, err := snapshot.NewStore(dir)
	if err != nil {
		return fail("harness:newstore", err.Error())
	}
	st.VerifSSNoFatal()
	st.SetReapThreshold(1 << 30)
	label := 0
	var clock ssClock
	for k, it := range c.Shape.Items {
		clock.tick()
		sk, err := st.Create(1, uint64(it.Idx), uint64(it.Term), ssConfiguration(), 1, nil)
		if err != nil {
			st.Close()
			return fail("harness:create", err.Error())
		}
		clock.saw(sk.ID())
		snapshot.VerifSSSinkNoFatal(sk)
		names.alloc(sk.ID())
		labels := []int{}
		for j := 0; j < it.Nw; j++ {
			label++
			labels = append(labels, label)
		}
		var b []byte
		if it.Kind == "full" {
			b, _, err = ssFullStream(m, k+1, labels)
		} else {
			wd := filepath.Join(root, fmt.Sprintf("staging-%d", k+1))
			if err = ssStaging(m, wd, labels); err == nil {
				b, err = ssIncStream(wd)
			}
		}
		if err == nil {
			_, err = sk.Write(b)
		}
		if err == nil {
			err = sk.Close()
		}
		if err != nil {
			st.Close()
			return fail("harness:build", fmt.Sprintf("item %d: %v", k+1, err))
		}
	}
	t0, i0, c0, h0, err := ssNewestRestored(st, scratch)
	st.Close()
	if err != nil {
		return fail("harness:pre", err.Error())
	}
	res.Pre = fmt.Sprintf("(%d,%d) %s", t0, i0, c0)
	wantC := ssContent{Base: c.Want.Base, Applied: c.Want.Applied, Last: c.Want.Last}
	if wantC.Applied == nil {
		wantC.Applied = []int{}
	}
	if !c.Perturb && (t0 != c.Want.Term || i0 != c.Want.Idx || c0.String() != wantC.String()) {
		return fail("harness:pre-differs-from-spec", fmt.Sprintf("store (%d,%d) %s, spec (%d,%d) %s", t0, i0, c0, c.Want.Term, c.Want.Idx, wantC))
	}
	crashOf := func(run int) *ssCrash {
		for i := range c.Crashes {
			if c.Crashes[i].Run == run {
				return &c.Crashes[i]
			}
		}
		return nil
	}
	diskCheck := func(what string, want ssDisk) {
		if c.NoDisk {
			return
		}
		dirs, _, plan, ptmp, _, err := ssDirListing(m, dir, names)
		if err != nil {
			res.ModelDiffs = append(res.ModelDiffs, what+": "+err.Error())
			return
		}
		for i := range dirs {
			if dirs[i].Tmp {
				dirs[i].CrcOK = true
			}
		}
		if !ssDirsEqual(dirs, want.Dirs) || plan != want.Plan || ptmp != want.Ptmp {
			g, _ := json.Marshal(ssDisk{dirs, plan, ptmp})
			w, _ := json.Marshal(want)
			res.ModelDiffs = append(res.ModelDiffs, fmt.Sprintf("%s: disk %s, spec %s", what, g, w))
		}
	}
	// ---- run 1: the reap, in a child process
	last := c.Shape.Items[len(c.Shape.Items)-1]
	args := []string{"ss-reap-worker", "-dir", dir, "-mode", "reap", fmt.Sprintf("-tmp=%v", c.Shape.Tmp), "-tterm", "2", "-tidx", strconv.Itoa(last.Idx + 1)}
	env := ""
	if cr := crashOf(1); cr != nil {
		env = fmt.Sprintf("%s#%d", cr.Point, cr.K)
	}
	code, stderr, err := ssRunChild(self, args, env)
	if err != nil {
		return fail("harness:child", err.Error())
	}
	res.Exits = append(res.Exits, code)
	ssDirListing(m, dir, names) // learn the names the child created (.tmp of its open sink, consolidated directory)
	switch {
	case code == 86 && env != "":
		diskCheck("after crash "+env+" in the reap", crashOf(1).Disk)
	case code == 0 && env == "":
	case code == 0:
		return fail("harness:crash-point-not-reached", env+" in the reap")
	case code == 4:
		return fail("reap-error", tailStr(stderr, 400))
	default:
		return fail("process-died", fmt.Sprintf("reap worker exit %d: %s", code, tailStr(stderr, 600)))
	}
	// ---- run 2: recovery in a child process when it is to crash as well
	if cr := crashOf(2); cr != nil {
		env = fmt.Sprintf("%s#%d", cr.Point, cr.K)
		code, stderr, err = ssRunChild(self, []string{"ss-reap-worker", "-dir", dir, "-mode", "open"}, env)
		if err != nil {
			return fail("harness:child", err.Error())
		}
		res.Exits = append(res.Exits, code)
		switch code {
		case 86:
			diskCheck("after crash "+env+" in recovery", cr.Disk)
		case 0:
			return fail("harness:crash-point-not-reached", env+" in recovery")
		case 4:
			return fail("recovery-failed", tailStr(stderr, 400))
		default:
			return fail("process-died", fmt.Sprintf("recovery worker exit %d: %s", code, tailStr(stderr, 600)))
		}
	}
	// ---- last run: open (recovery), list, restore the newest snapshot
	st, err = snapshot.NewStore(dir)
	if err != nil {
		return fail("recovery-failed", err.Error())
	}
	defer st.Close()
	st.VerifSSNoFatal()
	st.SetReapThreshold(1 << 30)
	if _, err := st.ListAll(); err != nil {
		return fail("list-failed", err.Error())
	}
	t1, i1, c1, h1, err := ssNewestRestored(st, scratch)
	if err != nil {
		return fail("open-failed", err.Error())
	}
	res.Post = fmt.Sprintf("(%d,%d) %s", t1, i1, c1)
	res.ByteSame = h0 == h1
	if c.Perturb {
		t0, i0, c0 = c.Want.Term, c.Want.Idx, wantC
	}
	if t1 != t0 || i1 != i0 {
		return fail("newest-changed", fmt.Sprintf("before (%d,%d), after (%d,%d)", t0, i0, t1, i1))
	}
	if c1.String() != c0.String() {
		return fail("content-changed", fmt.Sprintf("before %s, after %s", c0, c1))
	}
	diskCheck("final", ssDisk{Dirs: c.Want.Dirs})
	res.Verdict = "ok"
	return res
}

func ssReapCmd(args []string) error {
	fs := flag.NewFlagSet("ss-reap", flag.ExitOnError)
	in := fs.String("in", "", "ndjson of cases emitted by SnapStore_reap_gen*.cfg")
	outp := fs.String("out", "reap-results.ndjson", "")
	scratch := fs.String("scratch", "", "")
	par := fs.Int("par", 6, "")
	fs.Parse(args)
	if *scratch == "" {
		d, err := os.MkdirTemp("", "ssreap")
		if err != nil {
			return err
		}
		defer os.RemoveAll(d)
		*scratch = d
	}
	m, err := ssBuildMaterials(filepath.Join(*scratch, "materials"))
	if err != nil {
		return err
	}
	rows, err := readND(*in)
	if err != nil {
		return err
	}
	cases := make([]ssCase, len(rows))
	for i, row := range rows {
		b, _ := json.Marshal(row)
		if err := json.Unmarshal(b, &cases[i]); err != nil {
			return err
		}
	}
	self, _ := os.Executable()
	results := make([]ssReapResult, len(cases))
	var wg sync.WaitGroup
	sem := make(chan struct{}, *par)
	for i := range cases {
		wg.Add(1)
		sem <- struct{}{}
		go func(i int) {
			defer wg.Done()
			defer func() { <-sem }()
			r := ssReapCase(m, self, *scratch, i, &cases[i])
			if r.Verdict != "ok" && !strings.HasPrefix(r.Verdict, "harness:") {
				// a violation is reported only if the case fails again when rebuilt from scratch
				r2 := ssReapCase(m, self, *scratch, i, &cases[i])
				if r2.Verdict == r.Verdict {
					r.Reproduced = true
				} else {
					r.Detail = fmt.Sprintf("first run: %s (%s); second run: %s (%s)", r.Verdict, r.Detail, r2.Verdict, r2.Detail)
					r.Verdict = "harness:not-reproduced"
				}
			}
			results[i] = r
		}(i)
	}
	wg.Wait()
	w, err := newND(*outp)
	if err != nil {
		return err
	}
	nok, nchild, ndiff, nbyte := 0, 0, 0, 0
	for _, r := range results {
		w.Write(r)
		if r.Verdict == "ok" {
			nok++
		}
		if r.ByteSame {
			nbyte++
		}
		nchild += len(r.Exits)
		if len(r.ModelDiffs) > 0 {
			ndiff++
		}
	}
	if err := w.Close(); err != nil {
		return err
	}
	fmt.Printf("{\"cases\":%d,\"ok\":%d,\"child_processes\":%d,\"cases_with_model_diffs\":%d,\"byte_identical_restores\":%d}\n", len(cases), nok, nchild, ndiff, nbyte)
	return nil
}

var _ = strconv.Itoa

func errStr(err error) string {
	if err == nil {
		return ""
	}
	return err.Error()
}
