package main

// membership (C32): membership histories replayed on live clusters, one operation at a time.
//
//   - 3 stable voters n1..n3 (formed by discovery bootstrap: every node is notified of every node,
//     BootstrapExpect = 3) plus up to 2 spare REAL nodes whose ids (a, b, c) and listen addresses
//     (fixed ports "1", "2", "3") are chosen by the history, so that address reuse (another id on a
//     port whose old node was stopped) and id reuse (same id on another port, same or fresh
//     directory) are real.  Histories: TLC-generated (Membership_gen.cfg) and seeded random walks.
//   - Store.Notify histories on a fresh node with BootstrapExpect = k.
//   - reaping scenarios with short ReapTimeout / ReapReadOnlyTimeout: a stopped voter and a
//     stopped non-voter, the moment each leaves the configuration, hook events of the reaper.
//
// After each operation one trace line: the request, its result and Nodes() of the leader as
// [[id, symbolic address, suffrage]].  Validated by TraceMembership.tla.

import (
	"context"
	"encoding/json"
	"errors"
	"flag"
	"fmt"
	"math/rand"
	"net"
	"os"
	"path/filepath"
	"sort"
	"strconv"
	"strings"
	"time"

	"github.com/hashicorp/raft"
	"github.com/rqlite/rqlite/v10/command/proto"
	"github.com/rqlite/rqlite/v10/internal/vhook"
	"github.com/rqlite/rqlite/v10/store"
)

func init() { register("membership", membershipCmd) }

func mbFilter(e vhook.Event) bool {
	switch e.Ev {
	case "reset", "note", "join", "remove", "notify", "stop", "gone", "kept", "cluster", "reap.check", "reap.remove":
		return true
	}
	return false
}

type mbOp struct {
	Op    string `json:"op"`
	ID    string `json:"id"`
	Addr  string `json:"addr"`
	Voter bool   `json:"voter"`
}

type mbEntry struct {
	ID   string `json:"id"`
	Addr string `json:"addr"`
	Suff string `json:"suff"`
}

type mbCase struct {
	Ops   []mbOp    `json:"ops"`
	Final []mbEntry `json:"final"`
}

type mbStats struct {
	Histories, Walks, Ops, Joins, Removes, Notifies, NotifyHistories int
	Results                                                          map[string]int // result class -> count
	Classes                                                          map[string]int // relation of a join to the configuration it met
	NotLeader                                                        int
	FinalMismatch                                                    []map[string]any
	Reap                                                             []map[string]any
	Reaped, NotReaped, Kept                                          int
	Discovery                                                        map[string]any
	NodeStarts                                                       int
}

type mbCluster struct {
	vc      *vCluster
	base    string
	ports   map[string]string // symbolic address -> 127.0.0.1:port
	sym     map[string]string // real address -> symbolic
	running map[string]*vNode // symbolic address -> spare node listening there
	dirs    map[string]string // id -> latest data directory
	gen     int
	rng     *rand.Rand
	st      *mbStats
	conf    func(*store.Store)
	t0      time.Time
}

func (m *mbCluster) ms() int64 { return time.Since(m.t0).Milliseconds() }

func freePort() (string, error) {
	ln, err := net.Listen("tcp", "127.0.0.1:0")
	if err != nil {
		return "", err
	}
	a := ln.Addr().String()
	ln.Close()
	return a, nil
}

// newMbCluster forms n1..n3 by discovery bootstrap and reserves the spare ports.
func newMbCluster(base string, rng *rand.Rand, st *mbStats, conf func(*store.Store)) (*mbCluster, error) {
	quietLogs()
	m := &mbCluster{base: base, ports: map[string]string{}, sym: map[string]string{}, running: map[string]*vNode{},
		dirs: map[string]string{}, rng: rng, st: st, conf: conf, t0: time.Now()}
	m.vc = &vCluster{nw: newVnet(), base: base}
	for i := 1; i <= 3; i++ {
		id := fmt.Sprintf("n%d", i)
		dir := filepath.Join(base, id)
		if err := os.MkdirAll(dir, 0755); err != nil {
			return nil, err
		}
		n, err := startNode(m.vc.nw, vNodeOpts{ID: id, Dir: dir, NoHTTP: true, Configure: func(s *store.Store) {
			s.BootstrapExpect = 3
			if conf != nil {
				conf(s)
			}
		}})
		if err != nil {
			m.Close()
			return nil, err
		}
		m.vc.nodes = append(m.vc.nodes, n)
		m.sym[n.Addr] = fmt.Sprintf("s%d", i)
	}
	for _, a := range []string{"1", "2", "3"} {
		p, err := freePort()
		if err != nil {
			m.Close()
			return nil, err
		}
		m.ports[a] = p
		m.sym[p] = a
	}
	return m, nil
}

func (m *mbCluster) Close() {
	for _, n := range m.running {
		n.Stop()
	}
	m.vc.Close()
}

func (m *mbCluster) symAddr(real string) string {
	if s, ok := m.sym[real]; ok {
		return s
	}
	return real
}

func (m *mbCluster) cfgOf(n *vNode) ([][]string, error) {
	ns, err := n.Store.Nodes()
	if err != nil {
		return nil, err
	}
	out := [][]string{}
	for _, s := range ns {
		suff := "S"
		switch s.Suffrage {
		case proto.Suffrage_VOTER:
			suff = "V"
		case proto.Suffrage_NON_VOTER:
			suff = "N"
		}
		out = append(out, []string{s.ID, m.symAddr(s.Addr), suff})
	}
	sort.Slice(out, func(i, j int) bool { return out[i][0]+"|"+out[i][1] < out[j][0]+"|"+out[j][1] })
	return out, nil
}

func cfgKey(c [][]string) string {
	b, _ := json.Marshal(c)
	return string(b)
}

// live returns every node that can be asked: stable ones and running spares.
func (m *mbCluster) live() []*vNode {
	out := append([]*vNode{}, m.vc.nodes...)
	for _, n := range m.running {
		out = append(out, n)
	}
	return out
}

func (m *mbCluster) leader(d time.Duration) *vNode {
	dl := time.Now().Add(d)
	for {
		for _, n := range m.live() {
			if !n.stopped && n.Store.IsLeader() {
				return n
			}
		}
		if time.Now().After(dl) {
			return nil
		}
		time.Sleep(20 * time.Millisecond)
	}
}

// observe returns the leader's configuration and whether every stable node (and every running
// spare that the configuration lists under its own id and address) reports the same one within 30 s.
func (m *mbCluster) observe() ([][]string, bool, error) {
	var cfg [][]string
	var err error
	dl := time.Now().Add(30 * time.Second)
	for {
		l := m.leader(20 * time.Second)
		if l == nil {
			return nil, false, errors.New("no leader")
		}
		cfg, err = m.cfgOf(l)
		if err != nil {
			return nil, false, err
		}
		key := cfgKey(cfg)
		agree := true
		for _, n := range m.live() {
			if n.stopped || n == l {
				continue
			}
			if n.ID[0] != 'n' {
				listed := false
				for _, e := range cfg {
					if e[0] == n.ID && e[1] == m.symAddr(n.Addr) {
						listed = true
					}
				}
				if !listed {
					continue
				}
			}
			c2, err := m.cfgOf(n)
			if err != nil || cfgKey(c2) != key {
				agree = false
			}
		}
		if agree || time.Now().After(dl) {
			return cfg, agree, nil
		}
		time.Sleep(50 * time.Millisecond)
	}
}

func mbClassify(err error) (string, string) {
	if err == nil {
		return "ok", ""
	}
	switch {
	case errors.Is(err, store.ErrNotLeader), errors.Is(err, raft.ErrNotLeader), errors.Is(err, raft.ErrLeadershipLost),
		errors.Is(err, raft.ErrLeadershipTransferInProgress), errors.Is(err, raft.ErrEnqueueTimeout):
		return "notleader", err.Error()
	case strings.Contains(err.Error(), "found duplicate address"):
		return "refused", "dup-addr"
	case strings.Contains(err.Error(), "found duplicate ID"):
		return "refused", "dup-id"
	case strings.Contains(err.Error(), "need at least one voter"):
		return "refused", "no-voter"
	}
	return "error", err.Error()
}

// ensureNode makes a real node with this id listen on this (symbolic) address, stopping whatever
// process holds the address under another id, and this id's process on another address.
func (m *mbCluster) ensureNode(id, addr string) (*vNode, error) {
	if n, ok := m.running[addr]; ok {
		if n.ID == id {
			return n, nil
		}
		n.Stop()
		delete(m.running, addr)
	}
	for a, n := range m.running {
		if n.ID == id {
			n.Stop()
			delete(m.running, a)
		}
	}
	for len(m.running) >= 2 { // at most two spare processes
		for a, n := range m.running {
			n.Stop()
			delete(m.running, a)
			break
		}
	}
	dir, had := m.dirs[id]
	if !had || m.rng.Intn(2) == 0 { // a new node under this id, or the same node (same directory) again
		m.gen++
		dir = filepath.Join(m.base, fmt.Sprintf("%s-%d", id, m.gen))
		if err := os.MkdirAll(dir, 0755); err != nil {
			return nil, err
		}
	}
	n, err := startNode(m.vc.nw, vNodeOpts{ID: id, Dir: dir, Addr: m.ports[addr], NoHTTP: true, Configure: m.conf})
	if err != nil {
		return nil, fmt.Errorf("start %s on %s: %w", id, addr, err)
	}
	m.dirs[id] = dir
	m.running[addr] = n
	m.st.NodeStarts++
	return n, nil
}

func (m *mbCluster) emitReset(tv, tn time.Duration) error {
	cfg, _, err := m.observe()
	if err != nil {
		return err
	}
	emit("", "reset", "cfg", cfg, "boot", true, "expect", 0, "self", "n1", "tv", tv.Microseconds(), "tn", tn.Microseconds(), "multi", false)
	return nil
}

// join performs one join request (retrying as separate trace lines while there is no leader).
func (m *mbCluster) join(id, addr string, voter bool) (string, error) {
	if _, err := m.ensureNode(id, addr); err != nil {
		return "", err
	}
	for attempt := 0; ; attempt++ {
		l := m.leader(20 * time.Second)
		if l == nil {
			return "", errors.New("no leader")
		}
		err := l.Store.Join(&proto.JoinRequest{Id: id, Address: m.ports[addr], Voter: voter})
		res, why := mbClassify(err)
		cfg, agree, oerr := m.observe()
		if oerr != nil {
			return "", oerr
		}
		emit("", "join", "id", id, "addr", addr, "voter", voter, "res", res, "why", why, "cfg", cfg, "agree", agree, "leader", l.ID)
		m.st.Ops++
		m.st.Joins++
		m.st.Results["join:"+res]++
		if res != "notleader" || attempt >= 6 {
			return res, nil
		}
		m.st.NotLeader++
		time.Sleep(300 * time.Millisecond)
	}
}

func (m *mbCluster) remove(id string) (string, error) {
	for attempt := 0; ; attempt++ {
		l := m.leader(20 * time.Second)
		if l == nil {
			return "", errors.New("no leader")
		}
		err := l.Store.Remove(context.Background(), &proto.RemoveNodeRequest{Id: id})
		res, why := mbClassify(err)
		cfg, agree, oerr := m.observe()
		if oerr != nil {
			return "", oerr
		}
		emit("", "remove", "id", id, "res", res, "why", why, "cfg", cfg, "agree", agree, "leader", l.ID)
		m.st.Ops++
		m.st.Removes++
		m.st.Results["remove:"+res]++
		if res != "notleader" || attempt >= 6 {
			return res, nil
		}
		m.st.NotLeader++
		time.Sleep(300 * time.Millisecond)
	}
}

// relation of a join request to the configuration it meets (statistics only; the trace spec computes its own)
func mbRel(cfg [][]string, id, addr string) string {
	hasID, hasAddr, both := false, false, false
	for _, e := range cfg {
		if e[0] == id && e[1] == addr {
			both = true
		}
		if e[0] == id {
			hasID = true
		}
		if e[1] == addr {
			hasAddr = true
		}
	}
	switch {
	case both:
		return "same-id-same-addr"
	case hasID && hasAddr:
		return "own-id-on-anothers-addr"
	case hasID:
		return "same-id-new-addr"
	case hasAddr:
		return "new-id-on-used-addr"
	}
	return "fresh"
}

func (m *mbCluster) doOp(o mbOp) error {
	switch o.Op {
	case "join":
		if cfg, _, err := m.observe(); err == nil {
			m.st.Classes[mbRel(cfg, o.ID, o.Addr)]++
		}
		_, err := m.join(o.ID, o.Addr, o.Voter)
		return err
	case "remove":
		_, err := m.remove(o.ID)
		return err
	}
	return fmt.Errorf("unknown op %q", o.Op)
}

// removeSpares empties the configuration of every entry that is not a stable voter.
func (m *mbCluster) removeSpares() error {
	cfg, _, err := m.observe()
	if err != nil {
		return err
	}
	for _, e := range cfg {
		if e[0][0] != 'n' {
			if _, err := m.remove(e[0]); err != nil {
				return err
			}
		}
	}
	return nil
}

// discover forms the cluster: every node is notified about every node (itself included) in a
// seeded order.  The notifications are logged per target node (one section per target).
func (m *mbCluster) discover() error {
	type pair struct{ t, from int }
	var order []pair
	for t := 0; t < 3; t++ {
		for f := 0; f < 3; f++ {
			order = append(order, pair{t, f})
		}
	}
	m.rng.Shuffle(len(order), func(i, j int) { order[i], order[j] = order[j], order[i] })
	per := map[int][]map[string]any{}
	for _, p := range order {
		t, f := m.vc.nodes[p.t], m.vc.nodes[p.from]
		hlb := t.Store.HasLeader()
		err := t.Store.Notify(&proto.NotifyRequest{Id: f.ID, Address: f.Addr})
		cfg, cerr := m.cfgOf(t)
		if cerr != nil {
			return cerr
		}
		hla := t.Store.HasLeader() // sampled after the configuration: a configuration learned from a leader implies hla
		res := "ok"
		if err != nil {
			res = "error:" + err.Error()
		}
		per[p.t] = append(per[p.t], map[string]any{"id": f.ID, "addr": m.symAddr(f.Addr), "res": res, "hlb": hlb, "hla": hla, "cfg": cfg})
		m.st.Notifies++
		if m.rng.Intn(3) == 0 {
			time.Sleep(time.Duration(m.rng.Intn(150)) * time.Millisecond)
		}
	}
	for t := 0; t < 3; t++ {
		emit("", "reset", "cfg", [][]string{}, "boot", false, "expect", 3, "self", m.vc.nodes[t].ID, "tv", 0, "tn", 0, "multi", true)
		for _, r := range per[t] {
			emit("", "notify", "id", r["id"], "addr", r["addr"], "res", r["res"], "hlb", r["hlb"], "hla", r["hla"], "cfg", r["cfg"], "target", m.vc.nodes[t].ID)
		}
	}
	if m.leader(30*time.Second) == nil {
		return errors.New("no leader after discovery bootstrap")
	}
	for _, n := range m.vc.nodes {
		if _, err := n.Store.WaitForLeader(20 * time.Second); err != nil {
			return err
		}
	}
	cfg, agree, err := m.observe()
	if err != nil {
		return err
	}
	want := [][]string{}
	for i, n := range m.vc.nodes {
		want = append(want, []string{n.ID, fmt.Sprintf("s%d", i+1), "V"})
	}
	emit("", "cluster", "cfg", cfg, "want", want, "agree", agree)
	m.st.Discovery = map[string]any{"notifies": len(order), "agree": agree, "nodes": len(cfg)}
	return nil
}

// notifyHistory: Store.Notify calls on one fresh node "a" at address "1" with BootstrapExpect = k.
func mbNotifyHistory(base string, idx int, rng *rand.Rand, st *mbStats) error {
	quietLogs()
	ports := map[string]string{}
	sym := map[string]string{}
	for _, a := range []string{"1", "2", "3"} {
		p, err := freePort()
		if err != nil {
			return err
		}
		ports[a] = p
		sym[p] = a
	}
	k := 1 + rng.Intn(3)
	dir := filepath.Join(base, fmt.Sprintf("nh%d", idx))
	if err := os.MkdirAll(dir, 0755); err != nil {
		return err
	}
	n, err := startNode(newVnet(), vNodeOpts{ID: "a", Dir: dir, Addr: ports["1"], NoHTTP: true, Configure: func(s *store.Store) { s.BootstrapExpect = k }})
	if err != nil {
		return err
	}
	defer n.Stop()
	m := &mbCluster{sym: sym}
	emit("", "reset", "cfg", [][]string{}, "boot", false, "expect", k, "self", "a", "tv", 0, "tn", 0, "multi", false)
	ids := []string{"a", "b", "c"}
	addrs := []string{"1", "2", "3"}
	nops := 3 + rng.Intn(4)
	for i := 0; i < nops; i++ {
		id := ids[rng.Intn(3)]
		addr := addrs[rng.Intn(3)]
		if rng.Intn(3) > 0 { // mostly each node under its own address; sometimes a used address or a changed one
			addr = addrs[strings.Index("abc", id)]
		}
		hlb := n.Store.HasLeader()
		err := n.Store.Notify(&proto.NotifyRequest{Id: id, Address: ports[addr]})
		cfg, cerr := m.cfgOf(n)
		if cerr != nil {
			return cerr
		}
		hla := n.Store.HasLeader()
		res := "ok"
		if err != nil {
			res = "error:" + err.Error()
		}
		emit("", "notify", "id", id, "addr", addr, "res", res, "hlb", hlb, "hla", hla, "cfg", cfg, "target", "a")
		st.Notifies++
		if rng.Intn(3) == 0 {
			time.Sleep(time.Duration(rng.Intn(900)) * time.Millisecond)
		}
	}
	st.NotifyHistories++
	return nil
}

// reapScenario: voter a@1 and non-voter b@2 join, both processes are stopped, and the moment each
// leaves the leader's configuration is recorded; afterwards both come back with the other role.
func mbReapScenario(base string, idx int, tv, tn time.Duration, rng *rand.Rand, st *mbStats) error {
	conf := func(s *store.Store) {
		s.ReapTimeout = tv
		s.ReapReadOnlyTimeout = tn
	}
	m, err := newMbCluster(filepath.Join(base, fmt.Sprintf("reap%d", idx)), rng, st, conf)
	if err != nil {
		return err
	}
	defer m.Close()
	if err := m.discover(); err != nil {
		return err
	}
	if err := m.emitReset(tv, tn); err != nil {
		return err
	}
	if r, err := m.join("a", "1", true); err != nil || r != "ok" {
		return fmt.Errorf("reap scenario: join a: %v %v", r, err)
	}
	if r, err := m.join("b", "2", false); err != nil || r != "ok" {
		return fmt.Errorf("reap scenario: join b: %v %v", r, err)
	}
	time.Sleep(1200 * time.Millisecond) // heartbeats established: the last contact is recent when the processes stop
	role := map[string]string{"a": "V", "b": "N"}
	tmo := map[string]time.Duration{"a": tv, "b": tn}
	order := []string{"a", "b"}
	if rng.Intn(2) == 0 {
		order = []string{"b", "a"}
	}
	for _, id := range order {
		var n *vNode
		for _, x := range m.running {
			if x.ID == id {
				n = x
			}
		}
		emit("", "stop", "id", id, "t", m.ms())
		n.Stop()
	}
	for a := range m.running {
		delete(m.running, a)
	}
	pending := map[string]bool{"a": true, "b": true}
	longest := tv
	if tn > longest {
		longest = tn
	}
	deadline := time.Now().Add(longest + 30*time.Second)
	window := time.Now().Add(longest + 4*time.Second) // a role whose timeout is 0 must still be there after this
	rec := map[string]any{"tv_ms": tv.Milliseconds(), "tn_ms": tn.Milliseconds()}
	for len(pending) > 0 && time.Now().Before(deadline) {
		l := m.leader(20 * time.Second)
		if l == nil {
			return errors.New("no leader in reap scenario")
		}
		cfg, err := m.cfgOf(l)
		if err != nil {
			return err
		}
		for id := range pending {
			in := false
			for _, e := range cfg {
				if e[0] == id {
					in = true
				}
			}
			if !in {
				t := m.ms()
				time.Sleep(300 * time.Millisecond) // the reaper's own event is written right after its removal returned
				cfg2, agree, err := m.observe()
				if err != nil {
					return err
				}
				emit("", "gone", "id", id, "suff", role[id], "t", t, "cfg", cfg2, "agree", agree)
				rec["gone_"+id+"_ms"] = t
				delete(pending, id)
				st.Reaped++
			}
		}
		expectMore := false
		for id := range pending {
			if tmo[id] > 0 {
				expectMore = true
			}
		}
		if !expectMore && time.Now().After(window) {
			break
		}
		time.Sleep(25 * time.Millisecond)
	}
	for id := range pending {
		cfg, agree, err := m.observe()
		if err != nil {
			return err
		}
		emit("", "kept", "id", id, "suff", role[id], "t", m.ms(), "cfg", cfg, "agree", agree, "disabled", tmo[id] == 0)
		if tmo[id] == 0 {
			st.Kept++
		} else {
			st.NotReaped++
		}
	}
	st.Reap = append(st.Reap, rec)
	// both come back, each with the other role
	if _, err := m.join("a", "1", false); err != nil {
		return err
	}
	if _, err := m.join("b", "2", true); err != nil {
		return err
	}
	return nil
}

func membershipCmd(args []string) error {
	fs := flag.NewFlagSet("membership", flag.ExitOnError)
	out := fs.String("out", "membership.ndjson", "trace file")
	casesF := fs.String("cases", "", "JSON file: TLC-generated histories [{ops, final}]")
	walks := fs.Int("walks", 2, "seeded random walks")
	walkLen := fs.Int("walklen", 12, "operations per random walk")
	notifies := fs.Int("notify", 4, "Store.Notify histories on a fresh node")
	reap := fs.String("reap", "", "reaping scenarios: ReapTimeout:ReapReadOnlyTimeout in ms, comma separated (0 = disabled)")
	base := fs.String("dir", "", "scratch dir")
	fs.Parse(args)
	if *base == "" {
		*base, _ = os.MkdirTemp("", "vmb")
		defer os.RemoveAll(*base)
	}
	w, err := newND(*out)
	if err != nil {
		return err
	}
	traceTo(w, mbFilter)
	defer traceOff()
	rng := newRand(32)
	st := &mbStats{Results: map[string]int{}, Classes: map[string]int{}}

	var cases []mbCase
	if *casesF != "" {
		b, err := os.ReadFile(*casesF)
		if err != nil {
			return err
		}
		if err := json.Unmarshal(b, &cases); err != nil {
			return err
		}
	}

	if len(cases) > 0 || *walks > 0 {
		m, err := newMbCluster(filepath.Join(*base, "hist"), rng, st, nil)
		if err != nil {
			return err
		}
		err = func() error {
			defer m.Close()
			if err := m.discover(); err != nil {
				return err
			}
			for ci, c := range cases {
				if err := m.removeSpares(); err != nil {
					return err
				}
				if err := m.emitReset(0, 0); err != nil {
					return err
				}
				emit("", "note", "history", ci, "ops", len(c.Ops))
				for _, o := range c.Ops {
					if err := m.doOp(o); err != nil {
						return fmt.Errorf("history %d: %w", ci, err)
					}
				}
				st.Histories++
				// (B) the model's final configuration of the spare nodes against the cluster's
				cfg, _, err := m.observe()
				if err != nil {
					return err
				}
				got := []string{}
				for _, e := range cfg {
					if e[0][0] != 'n' {
						got = append(got, strings.Join(e, "/"))
					}
				}
				want := []string{}
				for _, e := range c.Final {
					if e.ID != "s" {
						want = append(want, e.ID+"/"+e.Addr+"/"+e.Suff)
					}
				}
				sort.Strings(got)
				sort.Strings(want)
				if strings.Join(got, ",") != strings.Join(want, ",") {
					st.FinalMismatch = append(st.FinalMismatch, map[string]any{"history": ci, "ops": c.Ops, "want": want, "got": got})
				}
			}
			ids := []string{"a", "b", "c"}
			addrs := []string{"1", "2", "3"}
			for wi := 0; wi < *walks; wi++ {
				if err := m.emitReset(0, 0); err != nil {
					return err
				}
				emit("", "note", "walk", wi)
				for i := 0; i < *walkLen; i++ {
					o := mbOp{Op: "join", ID: ids[rng.Intn(3)], Addr: addrs[rng.Intn(3)], Voter: rng.Intn(2) == 0}
					if rng.Intn(4) == 0 {
						o = mbOp{Op: "remove", ID: ids[rng.Intn(3)]}
					}
					if err := m.doOp(o); err != nil {
						return fmt.Errorf("walk %d: %w", wi, err)
					}
				}
				st.Walks++
			}
			return nil
		}()
		if err != nil {
			return err
		}
	}

	for i := 0; i < *notifies; i++ {
		if err := mbNotifyHistory(*base, i, rng, st); err != nil {
			return fmt.Errorf("notify history %d: %w", i, err)
		}
	}

	if *reap != "" {
		for i, sc := range strings.Split(*reap, ",") {
			p := strings.Split(sc, ":")
			if len(p) != 2 {
				return fmt.Errorf("bad -reap %q", sc)
			}
			tv, _ := strconv.Atoi(p[0])
			tn, _ := strconv.Atoi(p[1])
			if err := mbReapScenario(*base, i, time.Duration(tv)*time.Millisecond, time.Duration(tn)*time.Millisecond, rng, st); err != nil {
				return fmt.Errorf("reap scenario %s: %w", sc, err)
			}
		}
	}

	traceOff()
	if err := w.Close(); err != nil {
		return err
	}
	b, _ := json.Marshal(st)
	fmt.Println(string(b))
	return nil
}
