package main

import (
	"bytes"
	"encoding/json"
	"flag"
	"fmt"
	"os"
	"path/filepath"
	"sort"
	"strings"

	"github.com/rqlite/rqlite/v10/command/proto"
	"github.com/rqlite/rqlite/v10/db"
	"github.com/rqlite/rqlite/v10/store"
)

func init() { register("pragma-replay", pragmaReplay) }

type pragmaCase struct {
	S struct {
		Lead, Kw, Sep, Schema, Name, Quote, Form, Pos string
	} `json:"s"`
	Dangerous bool     `json:"dangerous"`
	Features  []string `json:"features"`
}

func pragmaRender(c *pragmaCase) string {
	s := c.S
	cs := func(x string) string {
		switch s.Kw {
		case "upper":
			return strings.ToUpper(x)
		case "lower":
			return strings.ToLower(x)
		}
		var b strings.Builder
		for i, r := range x {
			if i%2 == 0 {
				b.WriteString(strings.ToUpper(string(r)))
			} else {
				b.WriteString(strings.ToLower(string(r)))
			}
		}
		return b.String()
	}
	lead := map[string]string{"none": "", "space": " ", "tab": "\t", "newline": "\n", "crlf": "\r\n", "formfeed": "\f",
		"linecomment": "-- c\n", "blockcomment": "/* c */"}[s.Lead]
	sep := map[string]string{"space": " ", "newline": "\n", "blockcomment": "/**/"}[s.Sep]
	schema := map[string]string{"none": "", "main": "main.", "quotedmain": `"main".`}[s.Schema]
	name := cs(s.Name)
	switch s.Quote {
	case "dquote":
		name = `"` + name + `"`
	case "bracket":
		name = "[" + name + "]"
	case "backtick":
		name = "`" + name + "`"
	}
	val := map[string]string{"journal_mode": "DELETE", "wal_autocheckpoint": "1000", "synchronous": "FULL", "query_only": "1",
		"wal_checkpoint": "TRUNCATE", "cache_size": "2000", "foreign_keys": "1"}[s.Name]
	tail := ""
	switch s.Form {
	case "eq":
		tail = "=" + val
	case "eqspaced":
		tail = " = " + val
	case "call":
		tail = "(" + val + ")"
	}
	stmt := lead + cs("PRAGMA") + sep + schema + name + tail
	switch s.Pos {
	case "second":
		return "SELECT 1; " + stmt
	case "firstoftwo":
		return stmt + "; SELECT 1"
	}
	return stmt
}

type pragmaObs struct{ journal, sync, autockpt, qonly, dbsum string }

func pragmaObserve(d *db.DB) (o pragmaObs, err error) {
	if o.journal, err = d.VerifRWQuery("PRAGMA journal_mode"); err != nil {
		return
	}
	if o.sync, err = d.VerifRWQuery("PRAGMA synchronous"); err != nil {
		return
	}
	if o.autockpt, err = d.VerifRWQuery("PRAGMA wal_autocheckpoint"); err != nil {
		return
	}
	if o.qonly, err = d.VerifRWQuery("PRAGMA query_only"); err != nil {
		return
	}
	o.dbsum, err = d.DBSum()
	return
}

// pragmaReplay executes every TLC-enumerated PRAGMA text on a scratch database opened the way
// rqlite opens it, observes the critical settings of the read-write connection (and whether the
// main database file was rewritten, i.e. a checkpoint ran) before and after, and asks the real
// request guard whether it would have accepted the text.  accepted && changed = violation.
func pragmaReplay(args []string) error {
	fs := flag.NewFlagSet("pragma-replay", flag.ExitOnError)
	in := fs.String("in", "cases.ndjson", "")
	out := fs.String("out", "mismatch.ndjson", "")
	fs.Parse(args)
	raw, err := os.ReadFile(*in)
	if err != nil {
		return err
	}
	w, err := newND(*out)
	if err != nil {
		return err
	}
	defer w.Close()
	dir, err := os.MkdirTemp("", "pragma")
	if err != nil {
		return err
	}
	defer os.RemoveAll(dir)
	var d *db.DB
	ndb := 0
	reopen := func() error {
		if d != nil {
			d.Close()
		}
		ndb++
		p := filepath.Join(dir, fmt.Sprintf("s%d.db", ndb))
		var err error
		if d, err = db.Open(p, false, true); err != nil {
			return err
		}
		if err := d.SetSynchronousMode(db.SynchronousOff); err != nil {
			return err
		}
		_, err = d.ExecuteStringStmt("CREATE TABLE t(id INTEGER PRIMARY KEY, v TEXT)")
		return err
	}
	if err := reopen(); err != nil {
		return err
	}
	n, nchanged, nacc, nbad, specOnly, obsOnly := 0, 0, 0, 0, 0, 0
	distinct := map[string]bool{}
	var samples []string
	for _, line := range bytes.Split(raw, []byte("\n")) {
		if len(line) == 0 {
			continue
		}
		var c pragmaCase
		if err := json.Unmarshal(line, &c); err != nil {
			return err
		}
		text := pragmaRender(&c)
		n++
		distinct[text] = true
		// something for a checkpoint to move
		if _, err := d.ExecuteStringStmt(fmt.Sprintf("INSERT INTO t(v) VALUES('r%d')", n)); err != nil {
			return fmt.Errorf("insert: %v", err)
		}
		before, err := pragmaObserve(d)
		if err != nil {
			return err
		}
		req := &proto.Request{Statements: []*proto.Statement{{Sql: text}}}
		accepted := (*store.PragmaCheckRequest)(req).Check() == nil
		direct := !db.IsBreakingPragma(text)
		d.ExecuteStringStmt(text) // what SQLite does with it if nothing stops it
		after, err := pragmaObserve(d)
		if err != nil {
			return err
		}
		var what []string
		if before.journal != after.journal {
			what = append(what, "journal_mode:"+before.journal+"->"+after.journal)
		}
		if before.sync != after.sync {
			what = append(what, "synchronous:"+before.sync+"->"+after.sync)
		}
		if before.autockpt != after.autockpt {
			what = append(what, "wal_autocheckpoint:"+before.autockpt+"->"+after.autockpt)
		}
		if before.qonly != after.qonly {
			what = append(what, "query_only:"+before.qonly+"->"+after.qonly)
		}
		if before.dbsum != after.dbsum {
			what = append(what, "checkpoint-ran")
		}
		changed := len(what) > 0
		if changed {
			nchanged++
		}
		if accepted {
			nacc++
		}
		if c.Dangerous && !changed {
			specOnly++
		}
		if !c.Dangerous && changed {
			obsOnly++
		}
		if changed && (accepted || direct) {
			nbad++
			sort.Strings(c.Features)
			w.Write(map[string]any{"key": "pragma:bypass:name=" + c.S.Name + ":" + strings.Join(c.Features, "+"),
				"text": text, "effect": what, "spec_dangerous": c.Dangerous})
		}
		if len(samples) < 5 && changed {
			samples = append(samples, text)
		}
		if changed {
			// restore the baseline
			if before.journal != after.journal {
				if err := reopen(); err != nil {
					return err
				}
				continue
			}
			d.VerifRWExec("PRAGMA query_only=0")
			d.VerifRWExec("PRAGMA synchronous=OFF")
			d.VerifRWExec("PRAGMA wal_autocheckpoint=0")
		}
	}
	d.Close()
	sj, _ := json.Marshal(samples)
	fmt.Printf("{\"cases\":%d,\"distinct_texts\":%d,\"changed\":%d,\"accepted\":%d,\"violations\":%d,\"spec_dangerous_but_no_effect\":%d,\"effect_but_spec_safe\":%d,\"samples\":%s}\n",
		n, len(distinct), nchanged, nacc, nbad, specOnly, obsOnly, sj)
	return nil
}
