package main

// backup-trace, phase S (C21): the shape of the identifiers.  The backup workload's schema space: the
// three workload tables (and the index) exist a second time under names of a chosen shape, with columns
// of a chosen shape:
//   plain | keyword (a word that needs quoting) | space | dquote (embedded double quote) |
//   squote (embedded single quote) | unicode
// For every chosen (table shape, column shape) the tables are created and filled, a few acknowledged
// transfers run on them (a small history of its own: init + w lines, as in phase C), and backups are
// requested over HTTP in the chosen format / compress / via combinations, restored and projected with the
// same names.  The bk lines are judged by TraceBackup.tla exactly like those of phase C (restorable,
// CompleteP, SomeState, ConsistentP against the history); they carry `ident` for the violation key.
// The tables are dropped again before the next shape.

import (
	"fmt"
	"strings"
	"time"
)

var bkShapes = []string{"plain", "keyword", "space", "dquote", "squote", "unicode"}

var bkKeywords = map[string]string{"xa": "group", "xm": "order", "xz": "select", "xm_k": "index",
	"id": "primary", "vv": "values", "kk": "key", "ww": "where", "dd": "default", "pad": "table"}

func bkShape(shape, base string) string {
	switch shape {
	case "keyword":
		return bkKeywords[base]
	case "space":
		return base[:1] + " " + base[1:]
	case "dquote":
		return base[:1] + `"` + base[1:]
	case "squote":
		return base[:1] + "'" + base[1:]
	case "unicode":
		return base[:1] + "é表" + base[1:]
	}
	return base
}

func bkShapedNames(tshape, cshape string) bkNames {
	return bkNames{A: bkShape(tshape, "xa"), M: bkShape(tshape, "xm"), Z: bkShape(tshape, "xz"), Idx: bkShape(tshape, "xm_k"),
		ID: bkShape(cshape, "id"), V: bkShape(cshape, "vv"), K: bkShape(cshape, "kk"), W: bkShape(cshape, "ww"), D: bkShape(cshape, "dd"), Pad: bkShape(cshape, "pad")}
}

// bkWaitApplied waits until the DATABASE of every node contains log index idx.  (WaitConverged waits for
// Store.AppliedIndex, which is "handed to the FSM"; a backup of a follower's own database taken right after
// it may still be the state before the last entry -- correct, but not the state this phase then describes.)
func bkWaitApplied(c *vCluster, idx uint64, d time.Duration) error {
	dl := time.Now().Add(d)
	for _, n := range c.nodes {
		if n.stopped {
			continue
		}
		for n.Store.DBAppliedIndex() < idx {
			if time.Now().After(dl) {
				return fmt.Errorf("node %s: database at index %d < %d", n.ID, n.Store.DBAppliedIndex(), idx)
			}
			time.Sleep(5 * time.Millisecond)
		}
	}
	return nil
}

// bkPhaseS returns the log index of its last write.
func bkPhaseS(c *vCluster, w *ndWriter, st *bkStats, restoreDir, fwdTimeout string, full bool) (uint64, error) {
	type pair struct{ t, c string }
	var pairs []pair
	if full {
		for _, t := range bkShapes {
			for _, cs := range bkShapes {
				pairs = append(pairs, pair{t, cs})
			}
		}
	} else {
		// every table shape with plain columns, every column shape with plain tables, and both of the same shape
		for _, t := range bkShapes {
			pairs = append(pairs, pair{t, "plain"})
		}
		for _, cs := range bkShapes[1:] {
			pairs = append(pairs, pair{"plain", cs})
		}
		for _, s := range bkShapes[1:] {
			pairs = append(pairs, pair{s, s})
		}
	}
	var combos []bkCombo
	for _, cb := range bkCombos() {
		if full || cb.Fmt == "sql" || (cb.Via == "leader" && !cb.Compress) || (cb.Via == "follower" && cb.Compress) {
			combos = append(combos, cb)
		}
	}
	var lastIdx uint64
	for pi, pr := range pairs {
		nm := bkShapedNames(pr.t, pr.c)
		ident := "t-" + pr.t + "/c-" + pr.c
		ld := c.Leader(10 * time.Second)
		if ld == nil {
			return 0, fmt.Errorf("no leader")
		}
		setup := []string{
			fmt.Sprintf("CREATE TABLE %s(%s INTEGER PRIMARY KEY, %s INTEGER NOT NULL)", qi(nm.A), qi(nm.ID), qi(nm.V)),
			fmt.Sprintf("CREATE TABLE %s(%s INTEGER NOT NULL, %s INTEGER NOT NULL, %s INTEGER NOT NULL, %s TEXT)", qi(nm.M), qi(nm.K), qi(nm.W), qi(nm.D), qi(nm.Pad)),
			fmt.Sprintf("CREATE TABLE %s(%s INTEGER PRIMARY KEY, %s INTEGER NOT NULL)", qi(nm.Z), qi(nm.ID), qi(nm.V)),
			fmt.Sprintf("CREATE INDEX %s ON %s(%s)", qi(nm.Idx), qi(nm.M), qi(nm.K)),
		}
		for i := 1; i <= bkRowsA; i++ {
			setup = append(setup, fmt.Sprintf("INSERT INTO %s VALUES(%d,%d)", qi(nm.A), i, bkStartV))
		}
		for i := 1; i <= bkRowsZ; i++ {
			setup = append(setup, fmt.Sprintf("INSERT INTO %s VALUES(%d,0)", qi(nm.Z), i))
		}
		// two rows in the third table before the history begins, so that every table has rows to lose
		cur := map[string]int64{"na": bkRowsA, "nz": bkRowsZ, "sa": bkRowsA * bkStartV, "sz": 0, "nm": 0, "sk": 0, "sd": 0}
		for i := int64(1); i <= 2; i++ {
			k, d := -100*int64(pi+1)-i, 10+i
			setup = append(setup, fmt.Sprintf("INSERT INTO %s(%s,%s,%s,%s) VALUES(%d,0,%d,'it''s \"quoted\"')", qi(nm.M), qi(nm.K), qi(nm.W), qi(nm.D), qi(nm.Pad), k, d))
			cur["nm"]++
			cur["sk"] += k
			cur["sd"] += d
		}
		rs, idx, err := sExec(ld.Store, true, setup...)
		if err != nil {
			return 0, fmt.Errorf("phase S %s: %w", ident, err)
		}
		for _, r := range rs {
			if r.GetError() != "" {
				return 0, fmt.Errorf("phase S %s: setup: %s", ident, r.GetError())
			}
		}
		if err := bkWaitApplied(c, idx, 20*time.Second); err != nil {
			return 0, err
		}
		nobj := int64(bkNObj + 4)
		w.Write(map[string]any{"ev": "reset", "phase": "S", "ident": ident})
		line := func(ev string, lo, hi uint64, extra map[string]any) {
			m := map[string]any{"ev": ev, "lo": lo, "hi": hi, "nobj": nobj, "ident": ident}
			for k, v := range cur {
				m[k] = v
			}
			for k, v := range extra {
				m[k] = v
			}
			w.Write(m)
		}
		type rec struct {
			cb         bkCombo
			start, end uint64
			r          bkResp
			p          bkProj
			rerr       string
			ms         int64
			moved      bool
		}
		var recs []rec
		var hist []*bkWrite
		nextK := int64(1000 * (pi + 1))
		transfer := func() error {
			for try := 0; try < 5; try++ {
				l := c.Leader(10 * time.Second)
				if l == nil {
					return fmt.Errorf("no leader")
				}
				nextK++
				wr := &bkWrite{K: nextK, W: 55, D: 1 + nextK%9, X: 1 + int(nextK)%bkRowsA, Y: 1 + int(nextK)%bkRowsZ}
				bkDoWriteNames(l, wr, "s", nm)
				if wr.Acked {
					hist = append(hist, wr)
					return bkWaitApplied(c, wr.Idx, 20*time.Second)
				}
				if !strings.Contains(wr.Err, "leader") {
					// an unacknowledged transfer may or may not be applied: this small history must be exact
					return fmt.Errorf("phase S %s: transfer: %s", ident, wr.Err)
				}
				time.Sleep(300 * time.Millisecond)
			}
			return fmt.Errorf("phase S %s: no transfer was acknowledged", ident)
		}
		if err := transfer(); err != nil {
			return 0, err
		}
		for ci, cb := range combos {
			if ci > 0 && ci%4 == 0 {
				if err := transfer(); err != nil {
					return 0, err
				}
			}
			l := c.Leader(10 * time.Second)
			if l == nil {
				return 0, fmt.Errorf("no leader")
			}
			at, src := l, l
			if cb.Via != "leader" {
				fl := c.Followers()
				if len(fl) == 0 {
					continue
				}
				at = fl[(pi+ci)%len(fl)]
				if cb.Via == "local" {
					src = at
				}
			}
			to := ""
			if cb.Via == "follower" {
				to = fwdTimeout
			}
			start := src.Store.DBAppliedIndex()
			tb := time.Now()
			r := bkGet(at, cb.query(to))
			ms := time.Since(tb).Milliseconds()
			end, _ := src.Store.CommitIndex()
			l2 := c.Leader(10 * time.Second)
			rc := rec{cb: cb, start: start, end: end, r: r, ms: ms, moved: l2 == nil || l2.ID != l.ID || !l.Store.IsLeader(), p: bkProj{NA: -1, NZ: -1, NM: -1}}
			ok := r.Status == 200 && r.Clean
			if ok {
				p, rerr := bkRestoreNames(restoreDir, r.Body, cb.Fmt, cb.Compress, nm)
				rc.p = p
				if rerr != nil {
					rc.rerr = rerr.Error()
				}
			}
			if r.Status != 200 {
				rc.r.Err = strings.TrimSpace(string(r.Body))
			}
			if len(rc.r.Err) > 200 {
				rc.r.Err = rc.r.Err[:200]
			}
			rc.r.Body = nil
			recs = append(recs, rc)
			st.IdentBackups++
			oc := "error"
			if ok {
				st.IdentBackupsOK++
				oc = "ok"
			} else if len(st.Notes) < 8 {
				st.Notes = append(st.Notes, fmt.Sprintf("phase S %s %v: status %d %s", ident, cb, r.Status, rc.r.Err))
			}
			st.IdentOutcomes[fmt.Sprintf("%s/%s/%s", ident, cb.Fmt, oc)]++
		}
		// drop the shaped tables again
		l := c.Leader(10 * time.Second)
		if l == nil {
			return 0, fmt.Errorf("no leader")
		}
		rs, idx2, err := sExec(l.Store, true, "DROP TABLE "+qi(nm.A), "DROP TABLE "+qi(nm.M), "DROP TABLE "+qi(nm.Z))
		if err != nil {
			return 0, fmt.Errorf("phase S %s: drop: %w", ident, err)
		}
		for _, r := range rs {
			if r.GetError() != "" {
				return 0, fmt.Errorf("phase S %s: drop: %s", ident, r.GetError())
			}
		}
		lastIdx = idx2
		if err := bkWaitApplied(c, idx2, 20*time.Second); err != nil {
			return 0, err
		}
		// the history of this shape, then its backups
		line("init", idx, idx, nil)
		last := idx
		for _, wr := range hist {
			if wr.Idx <= last {
				return 0, fmt.Errorf("phase S %s: raft indexes do not grow (%d after %d)", ident, wr.Idx, last)
			}
			last = wr.Idx
			cur["sa"] -= wr.D
			cur["sz"] += wr.D
			cur["nm"]++
			cur["sk"] += wr.K
			cur["sd"] += wr.D
			line("w", wr.Idx, wr.Idx, map[string]any{"k": wr.K, "d": wr.D, "acked": true})
		}
		for i, rc := range recs {
			ok := rc.r.Status == 200 && rc.r.Clean
			w.Write(map[string]any{"ev": "bk", "phase": "S", "ident": ident, "tshape": pr.t, "cshape": pr.c, "op": i + 1,
				"fmt": rc.cb.Fmt, "vacuum": rc.cb.Vacuum, "compress": rc.cb.Compress, "via": rc.cb.Via,
				"start": rc.start, "end": rc.end, "status": rc.r.Status, "clean": rc.r.Clean, "err": rc.r.Err,
				"restored": ok && rc.rerr == "", "rerr": rc.rerr, "ms": rc.ms, "moved": rc.moved, "conc": false, "paused": false, "snaperr": "",
				"na": rc.p.NA, "nz": rc.p.NZ, "nm": rc.p.NM, "sa": rc.p.SA, "sz": rc.p.SZ, "sk": rc.p.SK, "sd": rc.p.SD, "nobj": rc.p.NObj})
		}
		st.IdentShapes++
	}
	return lastIdx, nil
}
