//go:build verif

package backup

import "context"

// VerifUpload runs one upload round, exactly what the ticker loop of Start does
// for one tick (manual ticks for the conformance harness).
func (u *Uploader) VerifUpload(ctx context.Context) error { return u.upload(ctx) }
