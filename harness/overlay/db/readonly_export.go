//go:build verif

package db

import "context"

// VerifRWQuery runs a single-value query on the read-write connection of the current database.
func (s *SwappableDB) VerifRWQuery(q string) (string, error) {
	s.dbMu.RLock()
	defer s.dbMu.RUnlock()
	return s.db.VerifRWQuery(q)
}

// VerifRWStmtReadOnly classifies a text on the read-write connection, as DB.Request does
// for every statement of a unified request.
func (s *SwappableDB) VerifRWStmtReadOnly(q string) (bool, error) {
	s.dbMu.RLock()
	defer s.dbMu.RUnlock()
	conn, err := s.db.rwDB.Conn(context.Background())
	if err != nil {
		return false, err
	}
	defer conn.Close()
	return s.db.StmtReadOnlyWithConn(q, conn)
}
