//go:build verif

package wal

// VerifFrame is one entry of the compacted frame list a CompactingFrameScanner built.
type VerifFrame struct {
	Pgno   uint32
	Commit uint32
	Offset int64
}

// VerifFrames returns the scanner's compacted frame list (page, commit field, file offset
// of the source frame) in the order Next / Bytes deliver it.
func (s *CompactingFrameScanner) VerifFrames() []VerifFrame {
	out := make([]VerifFrame, 0, len(s.frames))
	for _, f := range s.frames {
		out = append(out, VerifFrame{Pgno: f.Pgno, Commit: f.Commit, Offset: f.Offset})
	}
	return out
}
