//go:build verif

package db

import "context"

// VerifRWQuery runs a single-value query on the read-write connection (the only
// connection whose settings matter for rqlite's checkpoint and durability control).
func (db *DB) VerifRWQuery(q string) (string, error) {
	var s string
	err := db.rwDB.QueryRow(q).Scan(&s)
	return s, err
}

// VerifRWExec runs a statement on the read-write connection, bypassing all guards.
func (db *DB) VerifRWExec(q string) error {
	_, err := db.rwDB.ExecContext(context.Background(), q)
	return err
}
