//go:build verif

package db

import "context"

// VerifRWQuery runs a single-value query on the read-write connection (the only
// connection whose settings matter for rqlite's checkpoint and durability control).
func (db *DB) VerifRWQuery(q string) (string, error) {
	var s string
	err := db.rwDB.QueryRow(q).Scan(&s)
	return s, err
}

// VerifRWExec runs a statement on the read-write connection, bypassing all guards.
func (db *DB) VerifRWExec(q string) error {
	_, err := db.rwDB.ExecContext(context.Background(), q)
	return err
}

// VerifDB returns the database currently wrapped by the SwappableDB.
func (s *SwappableDB) VerifDB() *DB {
	s.dbMu.RLock()
	defer s.dbMu.RUnlock()
	return s.db
}

// VerifWatch returns the state of the checkpoint manager's WAL reset watch:
// whether it is armed, the salt it was armed with and the frame index to resume from.
func (s *SwappableDB) VerifWatch() (armed bool, salt [2]uint32, resumeFrameIdx int64) {
	s.dbMu.RLock()
	defer s.dbMu.RUnlock()
	w := s.checkpointMgr.resetWatch
	return w.armed, [2]uint32(w.salt), w.resumeFrameIdx
}
