//go:build verif

package http

// VerifStmtQueue returns the queue of the queued-write path (valid after Start), so that a
// harness can give it a name in the trace (vhook.Name) and relate queue events to the node.
func (s *Service) VerifStmtQueue() any { return s.stmtQueue }
