//go:build verif

package store

import sql "github.com/rqlite/rqlite/v10/db"

// VerifDB returns the store's database handle (read-only pool + read-write connection).
func (s *Store) VerifDB() *sql.SwappableDB { return s.db }

// VerifDBPath returns the path of the node's SQLite file.
func (s *Store) VerifDBPath() string { return s.dbPath }

// VerifResetStrongReadTerm forgets that a strong read went through the log in this term, so
// that the next linearizable read is upgraded to a strong read (as the first one of a term is).
func (s *Store) VerifResetStrongReadTerm() { s.strongReadTerm.Store(0) }

// VerifFSMIndex returns the index of the last log entry the FSM has finished applying.
func (s *Store) VerifFSMIndex() uint64 { return s.fsmIdx.Load() }
