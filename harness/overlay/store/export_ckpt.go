//go:build verif

package store

import (
	sql "github.com/rqlite/rqlite/v10/db"
	"github.com/rqlite/rqlite/v10/snapshot"
)

// VerifSwappableDB returns the store's database wrapper (which owns the checkpoint manager).
func (s *Store) VerifSwappableDB() *sql.SwappableDB { return s.db }

// VerifSnapshotStore returns the store's snapshot store.
func (s *Store) VerifSnapshotStore() *snapshot.Store {
	ss, _ := s.snapshotStore.(*snapshot.Store)
	return ss
}

// VerifWALStagingDir returns the directory in which fsmSnapshot stages compacted WAL segments.
func (s *Store) VerifWALStagingDir() string { return s.walStagingDir }
