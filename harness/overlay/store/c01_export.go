//go:build verif

package store

// VerifSetFKConstraints switches foreign-key enforcement of the node's database on or off (the
// -fk command line option); to be called before Open.
func (s *Store) VerifSetFKConstraints(on bool) { s.dbConf.FKConstraints = on }
