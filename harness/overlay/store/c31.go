//go:build verif

package store

import "github.com/rqlite/rqlite/v10/internal/rsync"

// VerifSnapshotCAS returns the gate that serialises snapshots, backups, the
// start-up integrity check and Close.
func (s *Store) VerifSnapshotCAS() *rsync.CheckAndSet { return s.snapshotCAS }
