//go:build verif

package store

import "github.com/rqlite/rqlite/v10/command"

// VerifCmdProc returns the command processor the FSM uses to decode and apply log entries
// (the instance value of the cp.decoded hook events of this store).
func (s *Store) VerifCmdProc() *CommandProcessor { return s.cmdProc }

// VerifReqMarshaler returns the request marshaler used for writing to the log.
func (s *Store) VerifReqMarshaler() *command.RequestMarshaler { return s.reqMarshaller }
