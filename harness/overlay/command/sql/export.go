//go:build verif

package sql

import "time"

// VerifSetClock replaces the rewriter's clock (the field the package's own tests set).
// Used by the C14 replay to drive Rewriter.Do with a clock that advances between reads.
func (rw *Rewriter) VerifSetClock(f func() time.Time) { rw.nowFn = f }
