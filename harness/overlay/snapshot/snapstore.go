//go:build verif

package snapshot

import "github.com/hashicorp/raft"

// VerifSSNoFatal makes integrity errors of the store propagate as errors instead of
// terminating the process (what the package's own tests do).
func (s *Store) VerifSSNoFatal() { s.fatalFn = nil }

// VerifSSSinkNoFatal makes a failed incremental Close return its error instead of
// terminating the process (what the package's own tests do).
func VerifSSSinkNoFatal(sk raft.SnapshotSink) {
	if s, ok := sk.(*Sink); ok {
		s.fatalFn = nil
	}
}
