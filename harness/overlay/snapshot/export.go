//go:build verif

package snapshot

// VerifSetFatalFn replaces the function the Store calls when the once-only integrity check
// finds corruption (default: log.Fatalf, i.e. the process exits).  nil makes the error propagate,
// exactly as the package's own tests do.
func (s *Store) VerifSetFatalFn(f func(error)) { s.fatalFn = f }
