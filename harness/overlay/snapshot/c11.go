//go:build verif

package snapshot

import (
	"io"

	"github.com/rqlite/rqlite/v10/internal/rsync"
)

// VerifMRSW returns the Store's multi-reader/single-writer lock (so that the
// harness can name it in the trace).
func (s *Store) VerifMRSW() *rsync.MultiRSW { return s.mrsw }

// VerifSignalReap sends the same non-blocking signal a successful Sink.Close sends.
func (s *Store) VerifSignalReap() { s.signalReap() }

// VerifStreamerID returns the correlation id of a LockingStreamer returned by Open.
func VerifStreamerID(rc io.ReadCloser) uint64 {
	if l, ok := rc.(*LockingStreamer); ok {
		return l.vid
	}
	return 0
}
