//go:build verif

package snapshot

// VerifNoFatal makes a failed integrity verification return its error instead of
// terminating the process (as the package's own tests do), so that a harness can
// report it.
func (s *Store) VerifNoFatal() { s.fatalFn = nil }
