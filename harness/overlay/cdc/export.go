//go:build verif

package cdc

import (
	"github.com/rqlite/rqlite/v10/cluster"
)

// VerifFIFO returns the service's persistent queue (to give it a name in the trace).
func (s *Service) VerifFIFO() *Queue { return s.fifo }

// VerifFIFOHasNext reports whether the FIFO has an item at or after its read cursor.
func (s *Service) VerifFIFOHasNext() bool { return s.fifo.HasNext() }

// VerifFIFOLen returns the number of items in the FIFO.
func (s *Service) VerifFIFOLen() int { return s.fifo.Len() }

// VerifWritesToBatcher is the number of event groups writeToBatcher has finished handing to the batcher.
func (s *Service) VerifWritesToBatcher() uint64 { return s.writesToBatcher.Load() }

// VerifSetCluster completes a CDCCluster that was created before the node's cluster
// service and client existed (the store must have CDC enabled before it is opened).
func (c *CDCCluster) VerifSetCluster(clstr *cluster.Service, client *cluster.Client) {
	c.clstr = clstr
	c.client = client
}
